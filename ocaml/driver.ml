(* Run-time driver for the extracted model: one case per line,
   "<code> <tok> <tok> ..." where a token is a decimal integer or x<hex>
   (expanded to length followed by the bytes); prints the integers returned by
   Model.dispatch separated by spaces.  Trusted glue: the two conversions
   between OCaml/zarith integers and the extracted Z. *)

let rec pos_of_z (n : Z.t) : Model.positive =
  if Z.equal n Z.one then Model.XH
  else if Z.testbit n 0 then Model.XI (pos_of_z (Z.shift_right n 1))
  else Model.XO (pos_of_z (Z.shift_right n 1))

let z_of_zarith (n : Z.t) : Model.z =
  if Z.sign n = 0 then Model.Z0
  else if Z.sign n > 0 then Model.Zpos (pos_of_z n)
  else Model.Zneg (pos_of_z (Z.neg n))

let rec zarith_of_pos (p : Model.positive) : Z.t =
  match p with
  | Model.XH -> Z.one
  | Model.XO q -> Z.shift_left (zarith_of_pos q) 1
  | Model.XI q -> Z.succ (Z.shift_left (zarith_of_pos q) 1)

let zarith_of_z (n : Model.z) : Z.t =
  match n with
  | Model.Z0 -> Z.zero
  | Model.Zpos p -> zarith_of_pos p
  | Model.Zneg p -> Z.neg (zarith_of_pos p)

let small = Array.init 256 (fun i -> z_of_zarith (Z.of_int i))

let expand tok acc =
  if String.length tok > 0 && tok.[0] = 'x' then begin
    let n = (String.length tok - 1) / 2 in
    let bytes = List.init n (fun i -> small.(int_of_string ("0x" ^ String.sub tok (1 + 2 * i) 2))) in
    z_of_zarith (Z.of_int n) :: (bytes @ acc)
  end else z_of_zarith (Z.of_string tok) :: acc

let () =
  let buf = Buffer.create 65536 in
  try
    while true do
      let line = input_line stdin in
      let toks = List.filter (fun s -> s <> "") (String.split_on_char ' ' line) in
      match toks with
      | [] -> ()
      | code :: rest ->
        let args = List.fold_right expand rest [] in
        let res = Model.dispatch (z_of_zarith (Z.of_string code)) args in
        Buffer.clear buf;
        List.iteri (fun i z -> if i > 0 then Buffer.add_char buf ' ';
                     Buffer.add_string buf (Z.to_string (zarith_of_z z))) res;
        print_endline (Buffer.contents buf)
    done
  with End_of_file -> ()
