#!/bin/sh
# Build the framework from files on disk only (offline).  Lenient on purpose: every check rebuilds what it
# needs itself and reports a broken proof or harness as its own result, so a file that does not build here
# must not prevent the other checks from running.
cd "$(dirname "$0")"
export CARGO_NET_OFFLINE=true
export CARGO_TARGET_DIR="$PWD/.cache/target"
mkdir -p .cache evidence replays
( cd coq && coq_makefile -f _CoqProject -o Makefile && timeout 3000 make -k -j16 > ../.cache/coq_build.log 2>&1 ; grep -E "^make.*Error|^File .*line" ../.cache/coq_build.log | head -20 )
python3 - <<'PY'
import sys
sys.path.insert(0, "tools")
import vplib
ck = vplib.Check("C10", argv=["quick"])
try:
    print("modelrun:", ck.build_modelrun())
except Exception as e:
    print("modelrun build failed:", e)
import os
for crate in sorted(os.listdir("rust")):
    if crate.startswith("h_") and os.path.exists(os.path.join("rust", crate, "Cargo.toml")):
        b, log = ck.cargo_build(crate)
        print(crate, "->", b)
        if b is None:
            print(log[-1500:])
PY
exit 0
