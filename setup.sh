#!/bin/sh
# Build the framework from files on disk only (offline).
set -e
cd "$(dirname "$0")"
export CARGO_NET_OFFLINE=true
export CARGO_TARGET_DIR="$PWD/.cache/target"
mkdir -p .cache evidence replays
( cd coq && coq_makefile -f _CoqProject -o Makefile && timeout 3000 make -j16 )
python3 - <<'PY'
import sys
sys.path.insert(0, "tools")
import vplib
ck = vplib.Check("C10", argv=["quick"])
print("modelrun:", ck.build_modelrun())
import os
for crate in sorted(os.listdir("rust")):
    if crate.startswith("h_") and os.path.exists(os.path.join("rust", crate, "Cargo.toml")):
        b, log = ck.cargo_build(crate)
        print(crate, "->", b)
        if b is None:
            print(log[-3000:])
            sys.exit(1)
PY
