// Correspondence harness for /repo/genapi/src/formula.rs (property C05).
//
// line:  fe x<formula source, hex of the bytes> <n> { x<name hex> <kind> <value> }*n
//   env entry kinds: 0 = Expr::Integer(value)   1 = Expr::Float(from_bits(value))
//                    2 = an expression: value is x<source hex>, parsed with formula::parse
// output: 2                                  formula::parse panicked
//         0 <k> <ast: k integers> <eval>     otherwise; <eval> is
//             0 0 <i64> | 0 1 <f64 bits, NaN canonical> | 1 <error class> | 2 (eval panicked)
//
// AST serialisation (prefix): 1 kind lhs rhs | 2 kind e | 3 c t f | 4 i | 5 bits | 6 len bytes...
// with kind numbered in the declaration order of BinOpKind / UnOpKind in formula.rs.
use cameleon_genapi::formula::{parse, BinOpKind, EvaluationResult, Expr, UnOpKind};
use cameleon_genapi::GenApiError;
use std::collections::HashMap;
use std::io::{BufRead, Write};
use std::panic::{catch_unwind, AssertUnwindSafe};

fn eclass(e: &GenApiError) -> i128 {
    match e {
        GenApiError::Device(_) => 30,
        GenApiError::NotWritable => 31,
        GenApiError::InvalidNode(_) => 32,
        GenApiError::InvalidData(_) => 33,
        GenApiError::ChunkDataMissing => 34,
        GenApiError::InvalidBuffer(_) => 35,
    }
}

fn hex(s: &str) -> Vec<u8> {
    (0..s.len() / 2).map(|i| u8::from_str_radix(&s[2 * i..2 * i + 2], 16).unwrap()).collect()
}

fn fbits(x: f64) -> i128 {
    if x.is_nan() {
        0x7ff8_0000_0000_0000
    } else {
        x.to_bits() as i128
    }
}

fn binop_code(k: BinOpKind) -> i128 {
    use BinOpKind::*;
    match k {
        Add => 0,
        Sub => 1,
        Mul => 2,
        Div => 3,
        Rem => 4,
        Pow => 5,
        Shl => 6,
        Shr => 7,
        And => 8,
        Or => 9,
        Eq => 10,
        Ne => 11,
        Lt => 12,
        Le => 13,
        Gt => 14,
        Ge => 15,
        BitAnd => 16,
        BitOr => 17,
        Xor => 18,
    }
}

fn unop_code(k: UnOpKind) -> i128 {
    use UnOpKind::*;
    match k {
        Not => 0,
        Abs => 1,
        Sgn => 2,
        Neg => 3,
        Sin => 4,
        Cos => 5,
        Tan => 6,
        Asin => 7,
        Acos => 8,
        Atan => 9,
        Exp => 10,
        Ln => 11,
        Lg => 12,
        Sqrt => 13,
        Trunc => 14,
        Floor => 15,
        Ceil => 16,
        Round => 17,
    }
}

fn ser(e: &Expr, out: &mut Vec<i128>) {
    match e {
        Expr::BinOp { kind, lhs, rhs } => {
            out.push(1);
            out.push(binop_code(*kind));
            ser(lhs, out);
            ser(rhs, out);
        }
        Expr::UnOp { kind, expr } => {
            out.push(2);
            out.push(unop_code(*kind));
            ser(expr, out);
        }
        Expr::If { cond, then, else_ } => {
            out.push(3);
            ser(cond, out);
            ser(then, out);
            ser(else_, out);
        }
        Expr::Integer(i) => {
            out.push(4);
            out.push(*i as i128);
        }
        Expr::Float(f) => {
            out.push(5);
            out.push(fbits(*f));
        }
        Expr::Ident(s) => {
            out.push(6);
            out.push(s.len() as i128);
            out.extend(s.bytes().map(|b| b as i128));
        }
    }
}

fn src_of(tok: &str) -> String {
    // formula::parse takes &str; the generator only sends ASCII
    String::from_utf8(hex(&tok[1..])).unwrap()
}

fn run(t: &[&str]) -> Vec<i128> {
    match t[0] {
        "fe" => {
            let src = src_of(t[1]);
            let n: usize = t[2].parse().unwrap();
            let mut env: HashMap<String, Expr> = HashMap::new();
            for k in 0..n {
                let name = src_of(t[3 + 3 * k]);
                let kind = t[4 + 3 * k];
                let val = t[5 + 3 * k];
                let e = match kind {
                    "0" => Expr::Integer(val.parse::<i64>().unwrap()),
                    "1" => Expr::Float(f64::from_bits(val.parse::<u64>().unwrap())),
                    _ => {
                        let s = src_of(val);
                        match catch_unwind(AssertUnwindSafe(|| parse(&s))) {
                            Ok(e) => e,
                            Err(_) => return vec![2],
                        }
                    }
                };
                env.insert(name, e);
            }
            let ast = match catch_unwind(AssertUnwindSafe(|| parse(&src))) {
                Ok(e) => e,
                Err(_) => return vec![2],
            };
            let mut a = vec![];
            ser(&ast, &mut a);
            let mut out = vec![0, a.len() as i128];
            out.extend(a);
            match catch_unwind(AssertUnwindSafe(|| ast.eval(&env))) {
                Err(_) => out.push(2),
                Ok(Ok(EvaluationResult::Integer(i))) => out.extend([0, 0, i as i128]),
                Ok(Ok(EvaluationResult::Float(f))) => out.extend([0, 1, fbits(f)]),
                Ok(Err(e)) => out.extend([1, eclass(&e)]),
            }
            out
        }
        k => panic!("unknown case kind {}", k),
    }
}

fn main() {
    std::panic::set_hook(Box::new(|_| {}));
    let stdin = std::io::stdin();
    let stdout = std::io::stdout();
    let mut out = std::io::BufWriter::new(stdout.lock());
    for line in stdin.lock().lines() {
        let line = line.unwrap();
        let t: Vec<&str> = line.split_whitespace().collect();
        if t.is_empty() {
            continue;
        }
        let r = catch_unwind(AssertUnwindSafe(|| run(&t))).unwrap_or_else(|_| vec![9]);
        let s: Vec<String> = r.iter().map(|x| x.to_string()).collect();
        writeln!(out, "{}", s.join(" ")).unwrap();
        out.flush().unwrap();
    }
}
