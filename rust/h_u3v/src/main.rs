//! Harness over the real `cameleon` sources (rust/cut) compiled against the fake USB layer
//! (rust/shim).  One case per line; tokens are decimal integers or x<hex> byte strings.
//!
//! `ctl` cases (C06 C07 C14 C15): a world description followed by operations on the real
//! ControlHandle:
//!   world items   1 base xHEX            memory segment
//!                 2 base len seed        memory segment filled with (seed + 7*i + (i>>8)) & 255
//!                 4 addr width value     poke a little-endian value
//!                 5 send_err nrep rep*   plan for the next transaction; rep = 0 ms | 1 nedit edit* |
//!                                        2 xHEX | 3 code ; edit = 0 off v8 | 1 off v16 | 2 n | 3 xHEX | 4 n
//!                 6 n                    n default (conforming) transactions
//!                 7 code                 channel open fails with libusb error code
//!                 8 0|1                  device has a stream channel
//!   operations    10 open | 11 addr len read | 12 addr xHEX write | 13 enable_streaming |
//!                 14 disable_streaming | 15 genapi | 16 close | 17 n set_retry_count |
//!                 18 StreamParams::from_control | 19 addr len seed write of patterned data |
//!                 20 dump memory range addr len
//! Output: per operation a length-prefixed result, then -7, the wire log, -8.
use std::panic::{catch_unwind, AssertUnwindSafe};
use std::sync::{Arc, Mutex};

use cameleon::u3v::{ControlHandle, StreamHandle};
use cameleon::{Camera, ControlError, DeviceControl};
use cameleon_device::u3v::sim::{self, Edit, Ev, Reply, TxPlan, World};

mod strm;
mod cam;
mod c15;

pub enum Tok {
    I(i128),
    B(Vec<u8>),
}

pub fn toks(line: &str) -> Vec<Tok> {
    line.split_whitespace()
        .map(|t| {
            if let Some(h) = t.strip_prefix('x') {
                let b: Vec<u8> = (0..h.len() / 2).map(|i| u8::from_str_radix(&h[2 * i..2 * i + 2], 16).unwrap()).collect();
                Tok::B(b)
            } else {
                Tok::I(t.parse().unwrap())
            }
        })
        .collect()
}

pub struct Cur {
    pub t: Vec<Tok>,
    pub p: usize,
}
impl Cur {
    pub fn int(&mut self) -> i128 {
        let v = match &self.t[self.p] {
            Tok::I(v) => *v,
            Tok::B(_) => panic!("int expected"),
        };
        self.p += 1;
        v
    }
    pub fn bytes(&mut self) -> Vec<u8> {
        let v = match &self.t[self.p] {
            Tok::B(v) => v.clone(),
            Tok::I(_) => panic!("bytes expected"),
        };
        self.p += 1;
        v
    }
    pub fn done(&self) -> bool {
        self.p >= self.t.len()
    }
}

pub fn pattern(len: usize, seed: u64) -> Vec<u8> {
    (0..len).map(|i| ((seed as usize + 7 * i + (i >> 8)) & 255) as u8).collect()
}

pub fn cerr_class(e: &ControlError) -> i128 {
    match e {
        ControlError::Busy => 1,
        ControlError::Disconnected => 2,
        ControlError::Io(_) => 3,
        ControlError::Timeout => 4,
        ControlError::NotOpened => 5,
        ControlError::InvalidDevice(_) => 6,
        ControlError::BufferTooSmall => 7,
        ControlError::InvalidData(_) => 8,
    }
}

pub fn hash(bs: &[u8]) -> i128 {
    let mut h: u64 = 0;
    for b in bs {
        h = (h * 31 + *b as u64) & 0xffff_ffff;
    }
    h as i128
}

/// data printed in full when short, otherwise length + hash + first/last byte
pub fn show_data(out: &mut Vec<i128>, d: &[u8]) {
    out.push(d.len() as i128);
    if d.len() <= 64 {
        out.extend(d.iter().map(|b| *b as i128));
    } else {
        out.push(hash(d));
        out.push(d[0] as i128);
        out.push(d[d.len() - 1] as i128);
    }
}

pub fn build_world(c: &mut Cur) -> World {
    let mut w = World::new();
    while !c.done() {
        let k = match &c.t[c.p] {
            Tok::I(v) => *v,
            _ => break,
        };
        if k >= 10 {
            break;
        }
        c.p += 1;
        match k {
            1 => {
                let base = c.int() as u64;
                let b = c.bytes();
                w.segs.push((base, b));
            }
            2 => {
                let base = c.int() as u64;
                let len = c.int() as usize;
                let seed = c.int() as u64;
                w.segs.push((base, pattern(len, seed)));
            }
            4 => {
                let addr = c.int() as u64;
                let width = c.int() as usize;
                let v = c.int() as u128;
                let b: Vec<u8> = (0..width).map(|i| ((v >> (8 * i)) & 255) as u8).collect();
                w.mem_write(addr, &b);
            }
            5 => {
                let se = c.int();
                let n = c.int();
                let mut replies = vec![];
                for _ in 0..n {
                    match c.int() {
                        0 => replies.push(Reply::Pending(c.int() as u16)),
                        1 => {
                            let ne = c.int();
                            let mut edits = vec![];
                            for _ in 0..ne {
                                match c.int() {
                                    0 => {
                                        let o = c.int() as usize;
                                        edits.push(Edit::SetU8(o, c.int() as u8))
                                    }
                                    1 => {
                                        let o = c.int() as usize;
                                        edits.push(Edit::SetU16(o, c.int() as u16))
                                    }
                                    2 => edits.push(Edit::Truncate(c.int() as usize)),
                                    3 => edits.push(Edit::Extend(c.bytes())),
                                    _ => edits.push(Edit::ResizeScd(c.int() as usize)),
                                }
                            }
                            replies.push(Reply::Conform(edits))
                        }
                        2 => replies.push(Reply::Raw(c.bytes())),
                        4 => replies.push(Reply::Wait(c.int() as u32)),
                        _ => replies.push(Reply::RecvErr(c.int() as u8)),
                    }
                }
                w.plans.push_back(TxPlan { send_err: if se < 0 { None } else { Some(se as u8) }, replies });
            }
            6 => {
                for _ in 0..c.int() {
                    w.plans.push_back(TxPlan { send_err: None, replies: vec![Reply::Conform(vec![])] });
                }
            }
            7 => w.open_err = Some(c.int() as u8),
            8 => w.has_stream = c.int() != 0,
            _ => panic!("bad world item"),
        }
    }
    w
}

pub fn make_camera(w: World) -> (Arc<Mutex<World>>, Camera<ControlHandle, StreamHandle>) {
    let world = sim::install(w);
    let mut cams = cameleon::u3v::enumerate_cameras().expect("enumerate");
    (world, cams.pop().expect("one camera"))
}

fn res_unit(out: &mut Vec<i128>, r: Result<Result<(), ControlError>, ()>) {
    match r {
        Ok(Ok(())) => out.extend([1, 0]),
        Ok(Err(e)) => out.extend([2, 1, cerr_class(&e)]),
        Err(()) => out.extend([1, 2]),
    }
}

pub fn show_wire(out: &mut Vec<i128>, world: &Arc<Mutex<World>>) {
    let w = world.lock().unwrap();
    out.push(-7);
    for e in &w.log {
        match e {
            Ev::Send(b) => {
                let u16at = |o: usize| if b.len() >= o + 2 { u16::from_le_bytes([b[o], b[o + 1]]) as i128 } else { -1 };
                out.extend([1, b.len() as i128, u16at(6), u16at(10), u16at(8)]);
            }
            Ev::Recv(n) => out.extend([2, if *n == usize::MAX { -1 } else { *n as i128 }]),
            Ev::CtrlOpen => out.push(3),
            Ev::CtrlClose => out.push(4),
            Ev::SetHalt => out.push(5),
            Ev::ClearHalt => out.push(6),
            _ => {}
        }
    }
    out.push(-8);
    out.push(w.mem_writes.len() as i128);
    for (a, d) in &w.mem_writes {
        out.push(*a as i128);
        show_data(out, d);
    }
}

fn run_ctl(c: &mut Cur) -> Vec<i128> {
    let w = build_world(c);
    let (world, mut cam) = make_camera(w);
    let mut out = vec![];
    let mut panicked = false;
    while !c.done() && !panicked {
        let op = c.int();
        let ctrl = &mut cam.ctrl;
        let before = out.len();
        match op {
            10 => res_unit(&mut out, catch_unwind(AssertUnwindSafe(|| ctrl.open())).map_err(|_| ())),
            11 => {
                let addr = c.int() as u64;
                let len = c.int() as usize;
                let mut buf = vec![0xCDu8; len];
                match catch_unwind(AssertUnwindSafe(|| ctrl.read(addr, &mut buf))) {
                    Ok(Ok(())) => {
                        let mut o = vec![0];
                        show_data(&mut o, &buf);
                        out.push(o.len() as i128);
                        out.extend(o);
                    }
                    Ok(Err(e)) => out.extend([2, 1, cerr_class(&e)]),
                    Err(_) => out.extend([1, 2]),
                }
            }
            12 | 19 => {
                let addr = c.int() as u64;
                let data = if op == 12 {
                    c.bytes()
                } else {
                    let len = c.int() as usize;
                    let seed = c.int() as u64;
                    pattern(len, seed)
                };
                res_unit(&mut out, catch_unwind(AssertUnwindSafe(|| ctrl.write(addr, &data))).map_err(|_| ()));
            }
            13 => res_unit(&mut out, catch_unwind(AssertUnwindSafe(|| ctrl.enable_streaming())).map_err(|_| ())),
            14 => res_unit(&mut out, catch_unwind(AssertUnwindSafe(|| ctrl.disable_streaming())).map_err(|_| ())),
            15 => match catch_unwind(AssertUnwindSafe(|| ctrl.genapi())) {
                Ok(Ok(s)) => {
                    let mut o = vec![0];
                    show_data(&mut o, s.as_bytes());
                    out.push(o.len() as i128);
                    out.extend(o);
                }
                Ok(Err(e)) => out.extend([2, 1, cerr_class(&e)]),
                Err(_) => out.extend([1, 2]),
            },
            16 => res_unit(&mut out, catch_unwind(AssertUnwindSafe(|| ctrl.close())).map_err(|_| ())),
            17 => {
                let n = c.int() as u16;
                ctrl.set_retry_count(n);
                out.extend([1, 0]);
            }
            18 => match catch_unwind(AssertUnwindSafe(|| cameleon::u3v::StreamParams::from_control(ctrl))) {
                Ok(Ok(p)) => out.extend([
                    7,
                    0,
                    p.leader_size as i128,
                    p.trailer_size as i128,
                    p.payload_size as i128,
                    p.payload_count as i128,
                    p.payload_final1_size as i128,
                    p.payload_final2_size as i128,
                ]),
                Ok(Err(e)) => out.extend([2, 1, cerr_class(&e)]),
                Err(_) => out.extend([1, 2]),
            },
            20 => {
                let addr = c.int() as u64;
                let len = c.int() as usize;
                let w = world.lock().unwrap();
                match w.mem_read(addr, len) {
                    Some(d) => {
                        let mut o = vec![0];
                        show_data(&mut o, &d);
                        out.push(o.len() as i128);
                        out.extend(o);
                    }
                    None => out.extend([2, 1, 99]),
                }
            }
            _ => panic!("bad op {}", op),
        }
        if out[before..] == [1, 2] {
            panicked = true;
        }
    }
    std::mem::forget(cam); // Drop would talk to the device again; the log is printed first anyway
    show_wire(&mut out, &world);
    out
}

fn main() {
    std::panic::set_hook(Box::new(|_| {}));
    let stdin = std::io::stdin();
    let mut line = String::new();
    loop {
        line.clear();
        if stdin.read_line(&mut line).unwrap_or(0) == 0 {
            break;
        }
        let l = line.trim();
        if l.is_empty() {
            println!();
            continue;
        }
        let (kind, rest) = match l.find(' ') {
            Some(i) => (&l[..i], &l[i + 1..]),
            None => (l, ""),
        };
        let mut c = Cur { t: toks(rest), p: 0 };
        let r = catch_unwind(AssertUnwindSafe(|| match kind {
            "ctl" => run_ctl(&mut c),
            "strm" => strm::run(&mut c),
            "cam16" => cam::run(&mut c),
            "c15h" => c15::run(&mut c),
            _ => vec![-99],
        }));
        let out = r.unwrap_or_else(|_| vec![-98]);
        let s: Vec<String> = out.iter().map(|v| v.to_string()).collect();
        println!("{}", s.join(" "));
    }
}
