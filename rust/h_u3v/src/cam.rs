//! `cam16` cases (C16, end-to-end tier): the real `Camera<ControlHandle, StreamHandle>` of
//! /repo/cameleon over the scripted U3V device of rust/shim (real bootstrap reads, real manifest /
//! GenApi XML fetch, real SIRM programming, real streaming-loop thread).
//!
//! Case: world items (see main.rs) then
//!   40 sirm a_tl a_start a_stop n call{n} m (call_index tx_index kind){m}
//!   call: 0 open | 3 stop_streaming | 4 close | 5 params access (TLParamsLocked.value) |
//!         10+cap start_streaming(cap) | 20 load_context
//!   fault: the tx_index-th control transaction (0-based, counted per call) of call call_index is disturbed:
//!     kind 0  the command is not sent (libusb timeout on send): the device never sees it
//!     kind 1  the command arrives and is executed but no acknowledge ever comes (receive timeout)
//!     kind 2  receive fails with the libusb timeout code      kind 3  receive fails with libusb Io
//!     kind 4  receive fails with libusb NoDevice (-> Disconnected)   kind 5  receive fails with libusb Busy
//!   every other transaction is answered by the conforming device.
//! Output: 0 then per call  <res> <k> <effect>{k} <w> <wire>{w} <value or -1> <flags>
//!   res as in rust/h_camera: 0 Ok | 2 panic | 12 InStreaming | 13 GenApiContextMissing | 14 InvalidGenApiXml |
//!     16 GenApiError other than Device | 100+k ControlError class k | 200+k StreamError class k |
//!     300+k GenApiError::Device carrying a ControlError of class k | 399 other Device error
//!     (class k: 0 Io 1 Timeout 2 Disconnected 3 Busy 4 NotOpened 5 InvalidData 6 InvalidDevice 7 BufferTooSmall)
//!   effects = the device-memory writes of the call that the acquisition protocol speaks about:
//!     4 SI_CONTROL := 1 | 11 SI_CONTROL := 0 | 5 / 6 TLParamsLocked := 1 / 0 |
//!     7 AcquisitionStart | 8 AcquisitionStop | 90 any other write outside the SIRM
//!   wire = every command the host sent during the call, in order (the wire log of the control channel):
//!     same codes for those writes | 30 other SIRM write | 15 read of TLParamsLocked | 31 other read |
//!     39 a send that failed (nothing reached the device) | 38 not a ReadMem / WriteMem command
//!   flags: 1 strm.is_loop_running() | 2 ctxt is Some | 32 ctrl.is_opened() |
//!          128 SI_CONTROL bit 0 in device memory | 256 TLParamsLocked register != 0
use std::panic::{catch_unwind, AssertUnwindSafe};

use cameleon::genapi::GenApiError;
use cameleon::{CameleonError, ControlError, DeviceControl, PayloadStream, StreamError};
use cameleon_device::u3v::sim::{Ev, Reply, TxPlan};

use crate::{build_world, make_camera, Cur};

fn cclass(e: &ControlError) -> i128 {
    match e {
        ControlError::Io(_) => 0,
        ControlError::Timeout => 1,
        ControlError::Disconnected => 2,
        ControlError::Busy => 3,
        ControlError::NotOpened => 4,
        ControlError::InvalidData(_) => 5,
        ControlError::InvalidDevice(_) => 6,
        ControlError::BufferTooSmall => 7,
    }
}

fn eclass(e: &CameleonError) -> i128 {
    match e {
        CameleonError::ControlError(c) => 100 + cclass(c),
        CameleonError::StreamError(s) => match s {
            StreamError::Io(_) => 200,
            StreamError::Timeout => 201,
            StreamError::Disconnected => 202,
            StreamError::ReceiveError(_) => 203,
            StreamError::SendError(_) => 204,
            StreamError::InvalidPayload(_) => 205,
            StreamError::Poisoned(_) => 206,
            StreamError::BufferTooSmall => 207,
            StreamError::InStreaming => 12,
        },
        CameleonError::GenApiContextMissing => 13,
        CameleonError::InvalidGenApiXml(_) => 14,
        CameleonError::GenApiError(GenApiError::Device(inner)) => match inner.downcast_ref::<ControlError>() {
            Some(c) => 300 + cclass(c),
            None => 399,
        },
        CameleonError::GenApiError(_) => 16,
    }
}

fn le32(b: &[u8]) -> i128 {
    if b.len() == 4 {
        u32::from_le_bytes([b[0], b[1], b[2], b[3]]) as i128
    } else {
        -1
    }
}

struct Map {
    sirm: u64,
    a_tl: u64,
    a_start: u64,
    a_stop: u64,
}

impl Map {
    /// code of a device-memory write; None for SIRM writes other than SI_CONTROL
    fn write_code(&self, addr: u64, data: &[u8]) -> Option<i128> {
        let v = le32(data);
        if addr == self.sirm + 4 {
            Some(if v & 1 == 1 { 4 } else { 11 })
        } else if addr >= self.sirm && addr < self.sirm + 0x100 {
            None
        } else if addr == self.a_tl && (v == 0 || v == 1) {
            Some(if v == 1 { 5 } else { 6 })
        } else if addr == self.a_start && v == 1 {
            Some(7)
        } else if addr == self.a_stop && v == 1 {
            Some(8)
        } else {
            Some(90)
        }
    }

    /// code of a command on the wire (U3V layout: prefix, flags, command id at 6, SCD at 12)
    fn wire_code(&self, cmd: &[u8]) -> i128 {
        if cmd.is_empty() {
            return 39;
        }
        if cmd.len() < 20 {
            return 38;
        }
        let id = u16::from_le_bytes([cmd[6], cmd[7]]);
        let mut a = [0u8; 8];
        a.copy_from_slice(&cmd[12..20]);
        let addr = u64::from_le_bytes(a);
        match id {
            0x0800 => {
                if addr == self.a_tl {
                    15
                } else {
                    31
                }
            }
            0x0802 => self.write_code(addr, &cmd[20..]).unwrap_or(30),
            _ => 38,
        }
    }
}

fn fault_plan(kind: i128) -> TxPlan {
    match kind {
        0 => TxPlan { send_err: Some(6), replies: vec![] },
        1 => TxPlan { send_err: None, replies: vec![] },
        2 => TxPlan { send_err: None, replies: vec![Reply::RecvErr(6)] },
        3 => TxPlan { send_err: None, replies: vec![Reply::RecvErr(0)] },
        4 => TxPlan { send_err: None, replies: vec![Reply::RecvErr(3)] },
        _ => TxPlan { send_err: None, replies: vec![Reply::RecvErr(5)] },
    }
}

pub fn run(c: &mut Cur) -> Vec<i128> {
    let w = build_world(c);
    let _marker = c.int();
    let map = Map {
        sirm: c.int() as u64,
        a_tl: c.int() as u64,
        a_start: c.int() as u64,
        a_stop: c.int() as u64,
    };
    let n = c.int() as usize;
    let calls: Vec<i128> = (0..n).map(|_| c.int()).collect();
    let m = if c.done() { 0 } else { c.int() as usize };
    let faults: Vec<(usize, usize, i128)> = (0..m).map(|_| (c.int() as usize, c.int() as usize, c.int())).collect();
    let (world, mut cam) = make_camera(w);
    let mut out: Vec<i128> = vec![0];
    for (ci, &call) in calls.iter().enumerate() {
        let (before, log_before) = {
            let mut wl = world.lock().unwrap();
            wl.plans.clear();
            let mut fs: Vec<&(usize, usize, i128)> = faults.iter().filter(|f| f.0 == ci).collect();
            fs.sort_by_key(|f| f.1);
            let mut next = 0;
            for f in fs {
                while next < f.1 {
                    wl.plans.push_back(TxPlan { send_err: None, replies: vec![Reply::Conform(vec![])] });
                    next += 1;
                }
                wl.plans.push_back(fault_plan(f.2));
                next += 1;
            }
            (wl.mem_writes.len(), wl.log.len())
        };
        let mut val: i128 = -1;
        let r = catch_unwind(AssertUnwindSafe(|| -> Result<i128, CameleonError> {
            match call {
                0 => cam.open().map(|_| -1),
                3 => cam.stop_streaming().map(|_| -1),
                4 => cam.close().map(|_| -1),
                5 => {
                    let mut ctxt = cam.params_ctxt()?;
                    let node = ctxt
                        .node("TLParamsLocked")
                        .ok_or_else(|| CameleonError::InvalidGenApiXml("missing TLParamsLocked".into()))?
                        .as_integer(&ctxt)
                        .ok_or_else(|| CameleonError::InvalidGenApiXml("TLParamsLocked has invalid interface".into()))?;
                    Ok(node.value(&mut ctxt)? as i128)
                }
                10..=19 => cam.start_streaming((call - 10) as usize).map(|_| -1),
                20 => cam.load_context().map(|_| -1),
                _ => Ok(-1),
            }
        }));
        let res = match r {
            Err(_) => 2,
            Ok(Ok(v)) => {
                val = v;
                0
            }
            Ok(Err(e)) => eclass(&e),
        };
        let mut wl = world.lock().unwrap();
        wl.plans.clear();
        let effs: Vec<i128> = wl.mem_writes[before..].iter().filter_map(|(a, d)| map.write_code(*a, d)).collect();
        let wire: Vec<i128> = wl.log[log_before..]
            .iter()
            .filter_map(|e| match e {
                Ev::Send(cmd) => Some(map.wire_code(cmd)),
                _ => None,
            })
            .collect();
        let mut flags: i128 = 0;
        if cam.strm.is_loop_running() {
            flags |= 1;
        }
        if cam.ctxt.is_some() {
            flags |= 2;
        }
        if cam.ctrl.is_opened() {
            flags |= 32;
        }
        if wl.mem_read(map.sirm + 4, 4).map(|b| b[0] & 1 == 1).unwrap_or(false) {
            flags |= 128;
        }
        if wl.mem_read(map.a_tl, 4).map(|b| le32(&b) != 0).unwrap_or(false) {
            flags |= 256;
        }
        out.push(res);
        out.push(effs.len() as i128);
        out.extend_from_slice(&effs);
        out.push(wire.len() as i128);
        out.extend_from_slice(&wire);
        out.push(val);
        out.push(flags);
    }
    // a session that ends while streaming: dropping the camera closes the stream handle, which
    // stops the loop thread
    drop(cam);
    out
}
