//! `cam16` cases (C16, end-to-end tier): the real `Camera<ControlHandle, StreamHandle>` of
//! /repo/cameleon over the scripted U3V device of rust/shim (real bootstrap reads, real manifest /
//! GenApi XML fetch, real SIRM programming, real streaming-loop thread).
//!
//! Case: world items (see main.rs) then
//!   40 sirm a_tl a_start a_stop n call{n}
//!   call: 0 open | 3 stop_streaming | 4 close | 5 params access (TLParamsLocked.value) |
//!         10+cap start_streaming(cap) | 20 load_context
//! Output: 0 then per call  <res> <k> <effect>{k} <value or -1> <flags>
//!   res as in rust/h_camera (0 Ok, 2 panic, 10.. error classes; every GenApiError is 15)
//!   effects = the device-memory writes of the call that the acquisition protocol speaks about:
//!     4 SI_CONTROL := 1 | 11 SI_CONTROL := 0 | 5 / 6 TLParamsLocked := 1 / 0 |
//!     7 AcquisitionStart | 8 AcquisitionStop | 90 any other write outside the SIRM
//!   flags: 1 strm.is_loop_running() | 2 ctxt is Some | 32 ctrl.is_opened() |
//!          128 SI_CONTROL bit 0 in device memory | 256 TLParamsLocked register != 0
use std::panic::{catch_unwind, AssertUnwindSafe};

use cameleon::{CameleonError, ControlError, DeviceControl, PayloadStream, StreamError};

use crate::{build_world, make_camera, Cur};

fn eclass(e: &CameleonError) -> i128 {
    match e {
        CameleonError::ControlError(ControlError::Io(_)) => 10,
        CameleonError::ControlError(ControlError::InvalidData(_)) => 17,
        CameleonError::ControlError(_) => 18,
        CameleonError::StreamError(StreamError::Io(_)) => 11,
        CameleonError::StreamError(StreamError::InStreaming) => 12,
        CameleonError::StreamError(_) => 19,
        CameleonError::GenApiContextMissing => 13,
        CameleonError::InvalidGenApiXml(_) => 14,
        CameleonError::GenApiError(_) => 15,
    }
}

fn le32(b: &[u8]) -> i128 {
    if b.len() == 4 {
        u32::from_le_bytes([b[0], b[1], b[2], b[3]]) as i128
    } else {
        -1
    }
}

pub fn run(c: &mut Cur) -> Vec<i128> {
    let w = build_world(c);
    let _marker = c.int();
    let sirm = c.int() as u64;
    let a_tl = c.int() as u64;
    let a_start = c.int() as u64;
    let a_stop = c.int() as u64;
    let n = c.int() as usize;
    let calls: Vec<i128> = (0..n).map(|_| c.int()).collect();
    let (world, mut cam) = make_camera(w);
    let mut out: Vec<i128> = vec![0];
    for &call in &calls {
        let before = world.lock().unwrap().mem_writes.len();
        let mut val: i128 = -1;
        let r = catch_unwind(AssertUnwindSafe(|| -> Result<i128, CameleonError> {
            match call {
                0 => cam.open().map(|_| -1),
                3 => cam.stop_streaming().map(|_| -1),
                4 => cam.close().map(|_| -1),
                5 => {
                    let mut ctxt = cam.params_ctxt()?;
                    let node = ctxt
                        .node("TLParamsLocked")
                        .ok_or_else(|| CameleonError::InvalidGenApiXml("missing TLParamsLocked".into()))?
                        .as_integer(&ctxt)
                        .ok_or_else(|| CameleonError::InvalidGenApiXml("TLParamsLocked has invalid interface".into()))?;
                    Ok(node.value(&mut ctxt)? as i128)
                }
                10..=19 => cam.start_streaming((call - 10) as usize).map(|_| -1),
                20 => cam.load_context().map(|_| -1),
                _ => Ok(-1),
            }
        }));
        let res = match r {
            Err(_) => 2,
            Ok(Ok(v)) => {
                val = v;
                0
            }
            Ok(Err(e)) => eclass(&e),
        };
        let wl = world.lock().unwrap();
        let mut effs: Vec<i128> = vec![];
        for (addr, data) in wl.mem_writes[before..].iter() {
            let v = le32(data);
            if *addr == sirm + 4 {
                effs.push(if v & 1 == 1 { 4 } else { 11 });
            } else if *addr >= sirm && *addr < sirm + 0x100 {
                continue;
            } else if *addr == a_tl && (v == 0 || v == 1) {
                effs.push(if v == 1 { 5 } else { 6 });
            } else if *addr == a_start && v == 1 {
                effs.push(7);
            } else if *addr == a_stop && v == 1 {
                effs.push(8);
            } else {
                effs.push(90);
            }
        }
        let mut flags: i128 = 0;
        if cam.strm.is_loop_running() {
            flags |= 1;
        }
        if cam.ctxt.is_some() {
            flags |= 2;
        }
        if cam.ctrl.is_opened() {
            flags |= 32;
        }
        if wl.mem_read(sirm + 4, 4).map(|b| b[0] & 1 == 1).unwrap_or(false) {
            flags |= 128;
        }
        if wl.mem_read(a_tl, 4).map(|b| le32(&b) != 0).unwrap_or(false) {
            flags |= 256;
        }
        out.push(res);
        out.push(effs.len() as i128);
        out.extend_from_slice(&effs);
        out.push(val);
        out.push(flags);
    }
    // a session that ends while streaming: dropping the camera closes the stream handle, which
    // stops the loop thread
    drop(cam);
    out
}
