//! `c15h` cases (C15, histories through the real StreamHandle): the real ControlHandle and StreamHandle
//! of /repo/cameleon over the scripted device of rust/shim; what `start_streaming_loop` puts in force
//! for the receive loop is observed after EVERY start, next to what the device holds.
//!
//! Case: world items (see main.rs) then operations
//!   10 open (control channel and stream channel) | 13 enable_streaming | 14 disable_streaming |
//!   21 sirm  start_streaming_loop (fresh payload channel) | 22 stop_streaming_loop |
//!   23 addr width value  poke device memory (the camera is reconfigured) | 20 addr len dump memory
//! Output: per operation a length-prefixed result (as in `ctl` cases); a successful start prints
//!   17  0  handle.params(): leader trailer size count final1 final2
//!          device registers: MAXIMUM_LEADER MAXIMUM_TRAILER TRANSFER_SIZE TRANSFER_COUNT FINAL1 FINAL2
//!          first iteration of the loop: number of bulk-in submits, first (leader), last (trailer),
//!          sum of the ones between (payload)          (-1 -1 -1 -1 when the loop submitted nothing in 5 s)
//! then -7, the wire log, -8, the device write log.
use std::panic::{catch_unwind, AssertUnwindSafe};
use std::time::{Duration, Instant};

use cameleon::camera::PayloadStream;
use cameleon::{Camera, DeviceControl};
use cameleon_device::u3v::sim::Ev;

use crate::strm::serr_class;
use crate::{build_world, cerr_class, make_camera, show_data, show_wire, Cur};

fn le32(b: Option<Vec<u8>>) -> i128 {
    match b {
        Some(b) if b.len() == 4 => u32::from_le_bytes([b[0], b[1], b[2], b[3]]) as i128,
        _ => -1,
    }
}

pub fn run(c: &mut Cur) -> Vec<i128> {
    let w = build_world(c);
    let (world, cam) = make_camera(w);
    let Camera { mut ctrl, mut strm, .. } = cam;
    let mut out: Vec<i128> = vec![];
    let mut receivers = vec![];
    let mut panicked = false;
    while !c.done() && !panicked {
        let op = c.int();
        let before = out.len();
        match op {
            10 => {
                let r = catch_unwind(AssertUnwindSafe(|| ctrl.open()));
                match r {
                    Ok(Ok(())) => match catch_unwind(AssertUnwindSafe(|| strm.open())) {
                        Ok(Ok(())) => out.extend([1, 0]),
                        Ok(Err(e)) => out.extend([2, 1, 100 + serr_class(&e)]),
                        Err(_) => out.extend([1, 2]),
                    },
                    Ok(Err(e)) => out.extend([2, 1, cerr_class(&e)]),
                    Err(_) => out.extend([1, 2]),
                }
            }
            13 | 14 => {
                let r = catch_unwind(AssertUnwindSafe(|| if op == 13 { ctrl.enable_streaming() } else { ctrl.disable_streaming() }));
                match r {
                    Ok(Ok(())) => out.extend([1, 0]),
                    Ok(Err(e)) => out.extend([2, 1, cerr_class(&e)]),
                    Err(_) => out.extend([1, 2]),
                }
            }
            21 => {
                let sirm = c.int() as u64;
                let log0 = world.lock().unwrap().log.len();
                let (sender, receiver) = cameleon::payload::channel(4, 4);
                receivers.push(receiver);
                let r = catch_unwind(AssertUnwindSafe(|| strm.start_streaming_loop(sender, &mut ctrl)));
                match r {
                    Ok(Ok(())) => {
                        let p = strm.params().clone();
                        let mut o: Vec<i128> = vec![
                            0,
                            p.leader_size as i128,
                            p.trailer_size as i128,
                            p.payload_size as i128,
                            p.payload_count as i128,
                            p.payload_final1_size as i128,
                            p.payload_final2_size as i128,
                        ];
                        {
                            let w = world.lock().unwrap();
                            for off in [0x18u64, 0x2C, 0x1C, 0x20, 0x24, 0x28] {
                                o.push(le32(w.mem_read(sirm.wrapping_add(off), 4)));
                            }
                        }
                        // the first iteration of the loop: the submits between its PoolNew and its first poll
                        let t = Instant::now();
                        let mut subs: Option<Vec<usize>> = None;
                        while t.elapsed() < Duration::from_millis(5000) {
                            {
                                let w = world.lock().unwrap();
                                let evs = &w.log[log0..];
                                if let Some(i0) = evs.iter().position(|e| matches!(e, Ev::PoolNew)) {
                                    if let Some(i1) = evs[i0..].iter().position(|e| matches!(e, Ev::Poll(_))) {
                                        subs = Some(
                                            evs[i0..i0 + i1]
                                                .iter()
                                                .filter_map(|e| if let Ev::Submit(n) = e { Some(*n) } else { None })
                                                .collect(),
                                        );
                                    }
                                }
                            }
                            if subs.is_some() {
                                break;
                            }
                            std::thread::sleep(Duration::from_micros(200));
                        }
                        match subs {
                            Some(s) if s.len() >= 2 => {
                                let mid: usize = s[1..s.len() - 1].iter().sum();
                                o.extend([s.len() as i128, s[0] as i128, s[s.len() - 1] as i128, mid as i128]);
                            }
                            _ => o.extend([-1, -1, -1, -1]),
                        }
                        out.push(o.len() as i128);
                        out.extend(o);
                    }
                    Ok(Err(e)) => out.extend([2, 1, serr_class(&e)]),
                    Err(_) => out.extend([1, 2]),
                }
            }
            22 => match catch_unwind(AssertUnwindSafe(|| strm.stop_streaming_loop())) {
                Ok(Ok(())) => out.extend([1, 0]),
                Ok(Err(e)) => out.extend([2, 1, serr_class(&e)]),
                Err(_) => out.extend([1, 2]),
            },
            23 => {
                let addr = c.int() as u64;
                let width = c.int() as usize;
                let v = c.int() as u128;
                let b: Vec<u8> = (0..width).map(|i| ((v >> (8 * i)) & 255) as u8).collect();
                world.lock().unwrap().mem_write(addr, &b);
                out.extend([1, 0]);
            }
            20 => {
                let addr = c.int() as u64;
                let len = c.int() as usize;
                let w = world.lock().unwrap();
                match w.mem_read(addr, len) {
                    Some(d) => {
                        let mut o = vec![0];
                        show_data(&mut o, &d);
                        out.push(o.len() as i128);
                        out.extend(o);
                    }
                    None => out.extend([2, 1, 99]),
                }
            }
            _ => panic!("bad c15h op {}", op),
        }
        if out[before..] == [1, 2] {
            panicked = true;
        }
    }
    // stop a loop that is still running before the handles go away; the control handle must not talk
    // to the device again (the wire log is part of the output)
    let _ = catch_unwind(AssertUnwindSafe(|| strm.stop_streaming_loop()));
    drop(receivers);
    std::mem::forget(ctrl);
    show_wire(&mut out, &world);
    out
}
