//! streaming cases (C11 payload assembly, C12): filled in by tools/c12.py's needs
use crate::Cur;
pub fn run(_c: &mut Cur) -> Vec<i128> {
    vec![-97]
}
