//! `strm` cases (C12, payload-assembly tie of C11): the real `StreamHandle` / `StreamingLoop::run`
//! of /repo/cameleon over the scripted bulk-in endpoint of rust/shim, a receiver thread and a
//! controller (this thread), with a totally ordered trace of every operation at which the three
//! threads interact (rust/achan `trace`: AsyncPool operations, every payload / send-back channel
//! operation, start / stop / close marks).
//!
//! Case: world items (see main.rs) then
//!   30 cap_payload cap_back seed permille max_us
//!   ntransfers { 0 xHEX | 1 code | 2 }*        results of the device's bulk-in endpoint, in order
//!   nsuberr { index code }*                    submit calls (counted over the run) that fail
//!   nrecv { op a b }*                          receiver program
//!        1 k m  receive k items (polling try_recv; gives up once the controller is done and the
//!               channel is empty)   m: 0 hold | 1 send_back | 2 drop | 3 alternate hold / send_back
//!        2 us 0 sleep               3 0 0 drop the receiver        4 k m  k single try_recv attempts
//!        5 k 0  send back the k oldest payloads still held (mark 30 = item index precedes each)
//!        6 n 0  wait until the controller's phase counter is >= n      7 0 0 bump the receiver's counter
//!   nctl { op a b c }*                         controller program
//!        10 start | 11 stop | 12 us sleep | 13 n wait until <= n transfers remain |
//!        14 close | 15 drop the handle | 16 n wait until the receiver got n items |
//!        17 addr width value poke device memory | 18 bump the phase counter |
//!        19 n wait until the receiver's counter is >= n
//! Output: 0 nitems item* -4 nheld flag* -3 nres res* -5 nev (role kind a b)* -6 remaining waits_timed_out
//!   item = 0 id type valid ts has w h xo yo pf isz  pv(st len hash) iv(st len hash)   (18 ints)  |  1 class
use std::panic::{catch_unwind, AssertUnwindSafe};
use std::sync::atomic::{AtomicBool, AtomicU64, AtomicUsize, Ordering};
use std::sync::{Arc, Once};
use std::time::{Duration, Instant};

use async_channel::trace;
use cameleon::camera::PayloadStream;
use cameleon::payload::{Payload, PayloadReceiver, PayloadType};
use cameleon::{Camera, DeviceControl, StreamError};
use cameleon_device::u3v::sim::Transfer;

use crate::{build_world, hash, make_camera, Cur};

static CASE_START_MS: AtomicU64 = AtomicU64::new(0);
static WATCHDOG: Once = Once::new();

fn now_ms(t0: Instant) -> u64 {
    t0.elapsed().as_millis() as u64 + 1
}

/// A case that does not finish (a blocked stop, a dead-locked loop) must not take the batch with
/// it: the process exits and vplib restarts the harness after the offending line.
fn arm_watchdog() -> Instant {
    static mut T0: Option<Instant> = None;
    WATCHDOG.call_once(|| {
        let t0 = Instant::now();
        unsafe { T0 = Some(t0) };
        std::thread::spawn(move || loop {
            std::thread::sleep(Duration::from_millis(100));
            let s = CASE_START_MS.load(Ordering::SeqCst);
            if s != 0 && now_ms(t0) > s + 30000 {
                std::process::exit(3);
            }
        });
    });
    #[allow(static_mut_refs)]
    unsafe {
        T0.unwrap()
    }
}

pub fn serr_class(e: &StreamError) -> i128 {
    match e {
        StreamError::ReceiveError(_) => 1,
        StreamError::SendError(_) => 2,
        StreamError::InvalidPayload(_) => 3,
        StreamError::Disconnected => 4,
        StreamError::Io(_) => 5,
        StreamError::Timeout => 6,
        StreamError::Poisoned(_) => 7,
        StreamError::BufferTooSmall => 8,
        StreamError::InStreaming => 9,
    }
}

fn describe(p: &Payload) -> Vec<i128> {
    let mut o = vec![0, p.id() as i128];
    o.push(match p.payload_type() {
        PayloadType::Image => 0,
        PayloadType::ImageExtendedChunk => 1,
        PayloadType::Chunk => 2,
    });
    // valid_payload_size is not public: it is the length of payload() when that does not panic
    let pv = catch_unwind(AssertUnwindSafe(|| {
        let s = p.payload();
        (s.len() as i128, hash(s))
    }));
    o.push(match &pv {
        Ok((n, _)) => *n,
        Err(_) => -1,
    });
    o.push(p.timestamp().as_nanos() as i128);
    match p.image_info() {
        Some(ii) => {
            let code: u32 = ii.pixel_format.into();
            o.extend([
                1,
                ii.width as i128,
                ii.height as i128,
                ii.x_offset as i128,
                ii.y_offset as i128,
                code as i128,
                ii.image_size as i128,
            ]);
        }
        None => o.extend([0, 0, 0, 0, 0, 0, 0]),
    }
    match pv {
        Ok((n, h)) => o.extend([0, n, h]),
        Err(_) => o.extend([2, 0, 0]),
    }
    match catch_unwind(AssertUnwindSafe(|| p.image().map(|s| (s.len() as i128, hash(s))))) {
        Ok(None) => o.extend([0, 0, 0]),
        Ok(Some((n, h))) => o.extend([1, n, h]),
        Err(_) => o.extend([2, 0, 0]),
    }
    o
}

fn full_hash(p: &Payload) -> Option<i128> {
    catch_unwind(AssertUnwindSafe(|| hash(p.payload()))).ok()
}

struct RecvOut {
    items: Vec<i128>,
    nitems: usize,
    held: Vec<i128>,
}

fn receiver_thread(
    rx: PayloadReceiver,
    prog: Vec<(i128, i128, i128)>,
    done: Arc<AtomicBool>,
    got: Arc<AtomicUsize>,
    phase: Arc<AtomicUsize>,
    rphase: Arc<AtomicUsize>,
) -> RecvOut {
    trace::set_role(2);
    trace::reseed();
    let mut rx = Some(rx);
    let mut out = RecvOut { items: vec![], nitems: 0, held: vec![] };
    let mut held: Vec<(Payload, Option<i128>, usize)> = vec![];
    let mut parity = 0usize;
    let mut handle = |r: Result<Payload, StreamError>, m: i128, rx: &PayloadReceiver, out: &mut RecvOut,
                      held: &mut Vec<(Payload, Option<i128>, usize)>| {
        out.nitems += 1;
        let index = out.nitems - 1;
        match r {
            Ok(p) => {
                out.items.extend(describe(&p));
                let mode = if m == 3 {
                    parity += 1;
                    (parity % 2) as i128
                } else {
                    m
                };
                match mode {
                    0 => {
                        let h = full_hash(&p);
                        held.push((p, h, index));
                    }
                    1 => rx.send_back(p),
                    _ => drop(p),
                }
            }
            Err(e) => out.items.extend([1, serr_class(&e)]),
        }
        got.fetch_add(1, Ordering::SeqCst);
    };
    for (op, a, b) in prog {
        match op {
            1 => {
                let r = match rx.as_ref() {
                    Some(r) => r,
                    None => break,
                };
                let mut k = 0;
                while k < a {
                    let was_done = done.load(Ordering::SeqCst);
                    let res = r.try_recv();
                    if trace::last_result() == 0 {
                        handle(res, b, r, &mut out, &mut held);
                        k += 1;
                    } else if was_done {
                        break;
                    } else {
                        std::thread::sleep(Duration::from_micros(150));
                    }
                }
            }
            2 => std::thread::sleep(Duration::from_micros(a as u64)),
            3 => {
                rx = None;
            }
            4 => {
                let r = match rx.as_ref() {
                    Some(r) => r,
                    None => break,
                };
                for _ in 0..a {
                    let res = r.try_recv();
                    if trace::last_result() == 0 {
                        handle(res, b, r, &mut out, &mut held);
                    }
                    std::thread::yield_now();
                }
            }
            5 => {
                // send back the oldest payloads still held (possibly received before a restart);
                // mark 30 names the item for the model side
                let r = match rx.as_ref() {
                    Some(r) => r,
                    None => break,
                };
                for _ in 0..a {
                    if held.is_empty() {
                        break;
                    }
                    let (p, _, index) = held.remove(0);
                    trace::mark(30, index as i64, 0);
                    r.send_back(p);
                }
            }
            6 => {
                let t = Instant::now();
                while phase.load(Ordering::SeqCst) < a as usize
                    && !done.load(Ordering::SeqCst)
                    && t.elapsed() < Duration::from_millis(10000)
                {
                    std::thread::sleep(Duration::from_micros(100));
                }
            }
            7 => {
                rphase.fetch_add(1, Ordering::SeqCst);
            }
            _ => panic!("bad receiver op"),
        }
    }
    // payloads still held must be exactly what they were when received
    for (p, h, _) in &held {
        out.held.push(if full_hash(p) == *h { 1 } else { 0 });
    }
    drop(held);
    drop(rx);
    out
}

pub fn run(c: &mut Cur) -> Vec<i128> {
    let t0 = arm_watchdog();
    CASE_START_MS.store(now_ms(t0), Ordering::SeqCst);
    let r = run_case(c);
    CASE_START_MS.store(0, Ordering::SeqCst);
    r
}

fn res_code<T>(r: std::thread::Result<Result<T, StreamError>>) -> i128 {
    match r {
        Ok(Ok(_)) => 0,
        Ok(Err(e)) => 100 + serr_class(&e),
        Err(_) => 2,
    }
}

fn run_case(c: &mut Cur) -> Vec<i128> {
    let mut w = build_world(c);
    assert_eq!(c.int(), 30);
    let cap_p = c.int() as usize;
    let cap_b = c.int() as usize;
    let seed = c.int() as u64;
    let permille = c.int() as u64;
    let max_us = c.int() as u64;
    for _ in 0..c.int() {
        match c.int() {
            0 => {
                let d = c.bytes();
                w.transfers.push_back(Transfer::Data(d))
            }
            1 => w.transfers.push_back(Transfer::Err(c.int() as u8)),
            _ => w.transfers.push_back(Transfer::Timeout),
        }
    }
    for _ in 0..c.int() {
        let k = c.int() as usize;
        w.submit_errs.insert(k, c.int() as u8);
    }
    let mut rprog = vec![];
    for _ in 0..c.int() {
        rprog.push((c.int(), c.int(), c.int()));
    }
    let mut cprog = vec![];
    for _ in 0..c.int() {
        let op = c.int();
        let (a, b, d) = match op {
            12 | 13 | 16 | 19 => (c.int(), 0, 0),
            17 => (c.int(), c.int(), c.int()),
            _ => (0, 0, 0),
        };
        cprog.push((op, a, b, d));
    }

    let (world, cam) = make_camera(w);
    let Camera { mut ctrl, strm, .. } = cam;
    let mut strm = Some(strm);
    let mut res: Vec<i128> = vec![];
    if ctrl.open().is_err() || strm.as_mut().unwrap().open().is_err() {
        std::mem::forget(ctrl);
        return vec![-96];
    }

    trace::set_role(0);
    trace::reseed();
    trace::begin(seed, permille, max_us);
    let (sender, receiver) = cameleon::payload::channel(cap_p, cap_b);
    let done = Arc::new(AtomicBool::new(false));
    let got = Arc::new(AtomicUsize::new(0));
    let phase = Arc::new(AtomicUsize::new(0));
    let rphase = Arc::new(AtomicUsize::new(0));
    let rt = {
        let (done, got, phase, rphase) = (done.clone(), got.clone(), phase.clone(), rphase.clone());
        std::thread::spawn(move || receiver_thread(receiver, rprog, done, got, phase, rphase))
    };
    let mut waits_timed_out = 0;
    let mut started = 0usize;
    let wait = |cond: &dyn Fn() -> bool| -> bool {
        let t = Instant::now();
        while !cond() {
            if t.elapsed() > Duration::from_millis(10000) {
                return false;
            }
            std::thread::sleep(Duration::from_micros(100));
        }
        true
    };
    for (op, a, b, d) in cprog {
        match op {
            10 => {
                if let Some(s) = strm.as_mut() {
                    trace::mark(20, 0, 0);
                    let snd = sender.clone();
                    let r = catch_unwind(AssertUnwindSafe(|| s.start_streaming_loop(snd, &mut ctrl)));
                    let code = res_code(r);
                    if code == 0 {
                        started += 1;
                    }
                    trace::mark(21, code as i64, 0);
                    res.push(code);
                }
            }
            11 => {
                if let Some(s) = strm.as_mut() {
                    trace::mark(22, if s.is_loop_running() { 1 } else { 0 }, 0);
                    let r = catch_unwind(AssertUnwindSafe(|| s.stop_streaming_loop()));
                    let code = res_code(r);
                    trace::mark(23, code as i64, 0);
                    res.push(code);
                }
            }
            12 => std::thread::sleep(Duration::from_micros(a as u64)),
            13 => {
                if !wait(&|| world.lock().unwrap().transfers.len() <= a as usize) {
                    waits_timed_out += 1;
                }
            }
            14 => {
                if let Some(s) = strm.as_mut() {
                    trace::mark(26, if s.is_loop_running() { 1 } else { 0 }, 0);
                    let r = catch_unwind(AssertUnwindSafe(|| s.close()));
                    let code = res_code(r);
                    trace::mark(27, code as i64, 0);
                    res.push(code);
                }
            }
            15 => {
                if let Some(s) = strm.take() {
                    trace::mark(28, if s.is_loop_running() { 1 } else { 0 }, 0);
                    let r = catch_unwind(AssertUnwindSafe(move || drop(s)));
                    trace::mark(29, if r.is_ok() { 0 } else { 2 }, 0);
                    res.push(if r.is_ok() { 0 } else { 2 });
                }
            }
            16 => {
                if !wait(&|| got.load(Ordering::SeqCst) >= a as usize) {
                    waits_timed_out += 1;
                }
            }
            17 => {
                let bytes: Vec<u8> = (0..b as usize).map(|i| ((d as u128 >> (8 * i)) & 255) as u8).collect();
                world.lock().unwrap().mem_write(a as u64, &bytes);
            }
            18 => {
                phase.fetch_add(1, Ordering::SeqCst);
            }
            19 => {
                if !wait(&|| rphase.load(Ordering::SeqCst) >= a as usize) {
                    waits_timed_out += 1;
                }
            }
            _ => panic!("bad controller op"),
        }
    }
    // implicit end of every case: stop a loop that is still running, let the receiver finish
    if let Some(s) = strm.as_mut() {
        if s.is_loop_running() {
            trace::mark(22, 1, 0);
            let r = catch_unwind(AssertUnwindSafe(|| s.stop_streaming_loop()));
            let code = res_code(r);
            trace::mark(23, code as i64, 0);
            res.push(code);
        }
    }
    done.store(true, Ordering::SeqCst);
    let ro = rt.join().unwrap_or(RecvOut { items: vec![2], nitems: 1, held: vec![] });
    if let Some(s) = strm.take() {
        // the loop has been stopped: dropping the handle closes the channel (and waits for the
        // loop thread to release it)
        trace::mark(28, 0, 0);
        drop(s);
        trace::mark(29, 0, 0);
    }
    // a loop thread that has been stopped still has to drop its PayloadSender: wait for that, so
    // that no thread of this case is alive when the next one starts
    wait(&|| {
        trace::count_loop_events(trace::SENDER_DROP, 0) >= started
            && trace::count_loop_events(trace::RECEIVER_DROP, 1) >= started
    });
    drop(sender);
    let ev = trace::end();
    std::mem::forget(ctrl);

    let mut out = vec![0, ro.nitems as i128];
    out.extend(ro.items);
    out.push(-4);
    out.push(ro.held.len() as i128);
    out.extend(ro.held);
    out.push(-3);
    out.push(res.len() as i128);
    out.extend(res);
    out.push(-5);
    out.push(ev.len() as i128);
    for e in &ev {
        out.extend(e.iter().map(|v| *v as i128));
    }
    out.push(-6);
    out.push(world.lock().unwrap().transfers.len() as i128);
    out.push(waits_timed_out);
    out
}
