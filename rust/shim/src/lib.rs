//! Fake `cameleon_device`: re-exports the real protocol codecs / register tables of
//! /repo/device and replaces the USB layer (Device, ControlChannel, ReceiveChannel,
//! AsyncPool, enumerate_devices) by a scripted in-memory U3V device (`u3v::sim::World`).
//! The device side is written from the U3V / GenCP wire layout, independently of the codecs
//! of the crate under test.

pub use real::PixelFormat;

pub mod u3v {
    pub use real::u3v::{prelude, protocol, register_map, BusSpeed, DeviceInfo, Error, LibUsbError, Result};

    use std::sync::{Arc, Mutex};
    use std::time::Duration;

    pub mod sim {
        use super::{Error, LibUsbError};
        use std::collections::VecDeque;
        use std::sync::{Arc, Mutex};

        pub fn usb_err(code: u8) -> Error {
            let e = match code {
                0 => LibUsbError::Io,
                1 => LibUsbError::InvalidParam,
                2 => LibUsbError::Access,
                3 => LibUsbError::NoDevice,
                4 => LibUsbError::NotFound,
                5 => LibUsbError::Busy,
                6 => LibUsbError::Timeout,
                7 => LibUsbError::Overflow,
                8 => LibUsbError::Pipe,
                9 => LibUsbError::Interrupted,
                10 => LibUsbError::NoMem,
                11 => LibUsbError::NotSupported,
                12 => LibUsbError::BadDescriptor,
                _ => LibUsbError::Other,
            };
            Error::LibUsb(e)
        }

        /// One edit applied to the conforming acknowledge before it is handed to the host.
        #[derive(Clone, Debug)]
        pub enum Edit {
            SetU8(usize, u8),
            SetU16(usize, u16),
            Truncate(usize),
            Extend(Vec<u8>),
            /// Resize the SCD to n bytes (padding with 0xEE) and make scd_len agree.
            ResizeScd(usize),
        }

        #[derive(Clone, Debug)]
        pub enum Reply {
            /// A pending acknowledge (timeout in ms) for the current request.
            Pending(u16),
            /// The conforming acknowledge, possibly edited.
            Conform(Vec<Edit>),
            Raw(Vec<u8>),
            RecvErr(u8),
            /// Nothing is ready before this many (real) milliseconds have passed since the previous transfer of the
            /// transaction: the device is busy, as it announced in a pending acknowledge.
            Wait(u32),
        }

        /// What a receive with a given time-out meets (see `World::gate`).
        pub enum Gate {
            Go,
            TimedOut,
            Forever,
        }

        /// Plan for one transaction (one `send`).
        #[derive(Clone, Debug, Default)]
        pub struct TxPlan {
            pub send_err: Option<u8>,
            pub replies: Vec<Reply>,
        }

        #[derive(Clone, Debug)]
        pub enum Transfer {
            Data(Vec<u8>),
            Err(u8),
            Timeout,
        }

        #[derive(Clone, Debug, PartialEq, Eq)]
        pub enum Ev {
            CtrlOpen,
            CtrlClose,
            SetHalt,
            ClearHalt,
            Send(Vec<u8>),
            Recv(usize),
            StrmOpen,
            StrmClose,
            PoolNew,
            Submit(usize),
            Poll(i64),
            PoolDrop(usize),
        }

        pub struct World {
            /// memory segments (base, bytes)
            pub segs: Vec<(u64, Vec<u8>)>,
            /// per-transaction plans, consumed in order; when exhausted: `default_pending` pendings + conform
            pub plans: VecDeque<TxPlan>,
            pub tx_count: usize,
            pub replies: VecDeque<Reply>,
            /// conforming acknowledge of the command being answered
            pub cur_ack: Vec<u8>,
            pub cur_req: (u16, u16),
            pub log: Vec<Ev>,
            pub open_err: Option<u8>,
            pub halt_err: Option<u8>,
            pub has_stream: bool,
            pub transfers: VecDeque<Transfer>,
            pub submit_err_at: Option<(usize, u8)>,
            pub submits: usize,
            /// further submit failures: index of the submit call (counted over the whole run) -> libusb code
            pub submit_errs: std::collections::HashMap<usize, u8>,
            pub mem_writes: Vec<(u64, Vec<u8>)>,
            pub mem_reads: Vec<(u64, usize)>,
            /// when the previous bulk transfer of the control channel ended
            pub last_io: std::time::Instant,
        }

        impl World {
            pub fn new() -> Self {
                World {
                    segs: vec![],
                    plans: VecDeque::new(),
                    tx_count: 0,
                    replies: VecDeque::new(),
                    cur_ack: vec![],
                    cur_req: (0, 0),
                    log: vec![],
                    open_err: None,
                    halt_err: None,
                    has_stream: true,
                    transfers: VecDeque::new(),
                    submit_err_at: None,
                    submits: 0,
                    submit_errs: std::collections::HashMap::new(),
                    last_io: std::time::Instant::now(),
                    mem_writes: vec![],
                    mem_reads: vec![],
                }
            }

            pub fn mem_read(&self, addr: u64, len: usize) -> Option<Vec<u8>> {
                for (b, m) in &self.segs {
                    if addr >= *b && (addr - *b) as u128 + len as u128 <= m.len() as u128 {
                        let o = (addr - *b) as usize;
                        return Some(m[o..o + len].to_vec());
                    }
                }
                None
            }

            pub fn mem_write(&mut self, addr: u64, data: &[u8]) -> bool {
                for (b, m) in self.segs.iter_mut() {
                    if addr >= *b && (addr - *b) as u128 + data.len() as u128 <= m.len() as u128 {
                        let o = (addr - *b) as usize;
                        m[o..o + data.len()].copy_from_slice(data);
                        return true;
                    }
                }
                false
            }

            fn ack(status: u16, cmd_id: u16, req_id: u16, scd: &[u8]) -> Vec<u8> {
                let mut v = Vec::with_capacity(12 + scd.len());
                v.extend_from_slice(&0x4356_3355u32.to_le_bytes());
                v.extend_from_slice(&status.to_le_bytes());
                v.extend_from_slice(&cmd_id.to_le_bytes());
                v.extend_from_slice(&(scd.len() as u16).to_le_bytes());
                v.extend_from_slice(&req_id.to_le_bytes());
                v.extend_from_slice(scd);
                v
            }

            /// The conforming device: decode a command from the U3V layout, apply it, answer.
            fn conform(&mut self, cmd: &[u8]) -> Vec<u8> {
                let u16at = |o: usize| u16::from_le_bytes([cmd[o], cmd[o + 1]]);
                if cmd.len() < 12 || cmd[0..4] != 0x4356_3355u32.to_le_bytes() {
                    return Self::ack(0x8002, 0, 0, &[]); // invalid header: no reply a host can match
                }
                let cmd_id = u16at(6);
                let scd_len = u16at(8) as usize;
                let req_id = u16at(10);
                self.cur_req = (cmd_id, req_id);
                if cmd.len() != 12 + scd_len || u16at(4) != 0x4000 {
                    return Self::ack(0x8002, cmd_id.wrapping_add(1), req_id, &[]);
                }
                let scd = &cmd[12..];
                match cmd_id {
                    0x0800 => {
                        // ReadMem: address u64, reserved u16, length u16
                        if scd.len() != 12 || scd[8] != 0 || scd[9] != 0 {
                            return Self::ack(0x8002, 0x0801, req_id, &[]);
                        }
                        let addr = u64::from_le_bytes([scd[0], scd[1], scd[2], scd[3], scd[4], scd[5], scd[6], scd[7]]);
                        let len = u16::from_le_bytes([scd[10], scd[11]]) as usize;
                        self.mem_reads.push((addr, len));
                        match self.mem_read(addr, len) {
                            Some(d) => Self::ack(0, 0x0801, req_id, &d),
                            None => Self::ack(0x8003, 0x0801, req_id, &[]), // invalid address
                        }
                    }
                    0x0802 => {
                        if scd.len() < 8 {
                            return Self::ack(0x8002, 0x0803, req_id, &[]);
                        }
                        let addr = u64::from_le_bytes([scd[0], scd[1], scd[2], scd[3], scd[4], scd[5], scd[6], scd[7]]);
                        let data = scd[8..].to_vec();
                        self.mem_writes.push((addr, data.clone()));
                        if self.mem_write(addr, &data) {
                            let mut s = vec![0u8, 0u8];
                            s.extend_from_slice(&(data.len() as u16).to_le_bytes());
                            Self::ack(0, 0x0803, req_id, &s)
                        } else {
                            Self::ack(0x8003, 0x0803, req_id, &[])
                        }
                    }
                    _ => Self::ack(0x8001, cmd_id.wrapping_add(1), req_id, &[]), // not implemented
                }
            }

            pub fn on_send(&mut self, cmd: &[u8]) -> std::result::Result<usize, Error> {
                let plan = self.plans.pop_front().unwrap_or_else(|| TxPlan { send_err: None, replies: vec![Reply::Conform(vec![])] });
                self.tx_count += 1;
                if let Some(e) = plan.send_err {
                    self.log.push(Ev::Send(vec![]));
                    return Err(usb_err(e));
                }
                self.log.push(Ev::Send(cmd.to_vec()));
                self.cur_ack = self.conform(cmd);
                self.replies = plan.replies.into_iter().collect();
                self.last_io = std::time::Instant::now();
                Ok(cmd.len())
            }

            /// libusb's view of a receive with `timeout` (0 = wait without limit): a scripted `Wait` keeps the device
            /// silent for its (real) time - the receive waits for it when its time-out allows, else it times out at
            /// once (the reply stays queued: the device will still send it); with time-out 0 and nothing ever to
            /// come the real call never returns.
            pub fn gate(&mut self, timeout: std::time::Duration) -> Gate {
                loop {
                    match self.replies.front() {
                        Some(Reply::Wait(ms)) => {
                            let ready = self.last_io + std::time::Duration::from_millis(u64::from(*ms));
                            let now = std::time::Instant::now();
                            if now < ready {
                                if !timeout.is_zero() && now + timeout < ready {
                                    self.log.push(Ev::Recv(usize::MAX));
                                    return Gate::TimedOut;
                                }
                                std::thread::sleep(ready - now);
                            }
                            self.replies.pop_front();
                        }
                        None if timeout.is_zero() => return Gate::Forever,
                        _ => return Gate::Go,
                    }
                }
            }

            pub fn nothing_to_receive(&self) -> bool {
                self.replies.is_empty()
            }

            pub fn on_recv(&mut self, buf: &mut [u8]) -> std::result::Result<usize, Error> {
                let r = match self.replies.pop_front() {
                    None => {
                        self.log.push(Ev::Recv(usize::MAX));
                        return Err(usb_err(6));
                    }
                    Some(r) => r,
                };
                let bytes = match r {
                    Reply::RecvErr(e) => {
                        self.log.push(Ev::Recv(usize::MAX));
                        return Err(usb_err(e));
                    }
                    Reply::Raw(b) => b,
                    Reply::Wait(_) => {
                        // (only reached when a caller skipped `gate`) treated as silence
                        self.log.push(Ev::Recv(usize::MAX));
                        return Err(usb_err(6));
                    }
                    Reply::Pending(ms) => {
                        let mut s = vec![0u8, 0u8];
                        s.extend_from_slice(&ms.to_le_bytes());
                        Self::ack(0, 0x0805, self.cur_req.1, &s)
                    }
                    Reply::Conform(edits) => {
                        let mut b = self.cur_ack.clone();
                        for e in edits {
                            match e {
                                Edit::SetU8(o, v) => {
                                    if o < b.len() {
                                        b[o] = v
                                    }
                                }
                                Edit::SetU16(o, v) => {
                                    if o + 1 < b.len() {
                                        b[o..o + 2].copy_from_slice(&v.to_le_bytes())
                                    }
                                }
                                Edit::Truncate(n) => b.truncate(n),
                                Edit::Extend(x) => b.extend_from_slice(&x),
                                Edit::ResizeScd(n) => {
                                    if b.len() >= 12 {
                                        b.resize(12 + n, 0xEE);
                                        b[8..10].copy_from_slice(&(n as u16).to_le_bytes());
                                    }
                                }
                            }
                        }
                        b
                    }
                };
                if bytes.len() > buf.len() {
                    self.log.push(Ev::Recv(usize::MAX));
                    return Err(usb_err(7)); // libusb overflow
                }
                self.last_io = std::time::Instant::now();
                buf[..bytes.len()].copy_from_slice(&bytes);
                self.log.push(Ev::Recv(bytes.len()));
                Ok(bytes.len())
            }
        }

        static WORLDS: Mutex<Vec<Arc<Mutex<World>>>> = Mutex::new(Vec::new());

        /// Make `enumerate_devices` return exactly one device backed by `w`.
        pub fn install(w: World) -> Arc<Mutex<World>> {
            let a = Arc::new(Mutex::new(w));
            let mut g = WORLDS.lock().unwrap();
            g.clear();
            g.push(a.clone());
            a
        }

        pub(super) fn worlds() -> Vec<Arc<Mutex<World>>> {
            WORLDS.lock().unwrap().clone()
        }
    }

    use sim::{Ev, World};

    pub struct Device {
        pub device_info: DeviceInfo,
        world: Arc<Mutex<World>>,
    }

    impl Device {
        pub fn control_channel(&self) -> Result<ControlChannel> {
            Ok(ControlChannel { world: self.world.clone(), is_opened: false })
        }
        pub fn event_channel(&self) -> Result<Option<ReceiveChannel>> {
            Ok(None)
        }
        pub fn stream_channel(&self) -> Result<Option<ReceiveChannel>> {
            if self.world.lock().unwrap().has_stream {
                Ok(Some(ReceiveChannel { world: self.world.clone(), is_opened: false }))
            } else {
                Ok(None)
            }
        }
        #[must_use]
        pub fn device_info(&self) -> &DeviceInfo {
            &self.device_info
        }
    }

    pub fn enumerate_devices() -> Result<Vec<Device>> {
        Ok(sim::worlds()
            .into_iter()
            .map(|w| Device {
                device_info: DeviceInfo {
                    gencp_version: semver::Version::new(1, 0, 0),
                    u3v_version: semver::Version::new(1, 0, 0),
                    guid: "SIM000000001".into(),
                    vendor_name: "sim".into(),
                    model_name: "sim".into(),
                    family_name: None,
                    device_version: "1".into(),
                    manufacturer_info: "".into(),
                    serial_number: "1".into(),
                    user_defined_name: None,
                    supported_speed: BusSpeed::SuperSpeed,
                },
                world: w,
            })
            .collect())
    }

    pub struct ControlChannel {
        world: Arc<Mutex<World>>,
        pub is_opened: bool,
    }

    impl ControlChannel {
        pub fn open(&mut self) -> Result<()> {
            if !self.is_opened() {
                let mut w = self.world.lock().unwrap();
                w.log.push(Ev::CtrlOpen);
                if let Some(e) = w.open_err {
                    return Err(sim::usb_err(e));
                }
                self.is_opened = true;
            }
            Ok(())
        }
        pub fn close(&mut self) -> Result<()> {
            if self.is_opened() {
                self.world.lock().unwrap().log.push(Ev::CtrlClose);
                self.is_opened = false;
            }
            Ok(())
        }
        #[must_use]
        pub fn is_opened(&self) -> bool {
            self.is_opened
        }
        pub fn send(&self, buf: &[u8], _timeout: Duration) -> Result<usize> {
            self.world.lock().unwrap().on_send(buf)
        }
        pub fn recv(&self, buf: &mut [u8], timeout: Duration) -> Result<usize> {
            // libusb_bulk_transfer: a time-out of 0 means "wait without limit".  When nothing will ever arrive the
            // real call never returns: the fake does the same (the harness' watchdog reports the hang).
            let g = self.world.lock().unwrap().gate(timeout);
            match g {
                sim::Gate::Forever => loop {
                    std::thread::sleep(Duration::from_secs(3600));
                },
                sim::Gate::TimedOut => return Err(sim::usb_err(6)),
                sim::Gate::Go => {}
            }
            self.world.lock().unwrap().on_recv(buf)
        }
        pub fn set_halt(&self, _timeout: Duration) -> Result<()> {
            let mut w = self.world.lock().unwrap();
            w.log.push(Ev::SetHalt);
            if let Some(e) = w.halt_err {
                return Err(sim::usb_err(e));
            }
            Ok(())
        }
        pub fn clear_halt(&mut self) -> Result<()> {
            self.world.lock().unwrap().log.push(Ev::ClearHalt);
            Ok(())
        }
    }

    pub struct ReceiveChannel {
        world: Arc<Mutex<World>>,
        pub is_opened: bool,
    }

    impl ReceiveChannel {
        pub fn open(&mut self) -> Result<()> {
            if !self.is_opened() {
                self.world.lock().unwrap().log.push(Ev::StrmOpen);
                vtrace::trace::mark(vtrace::trace::STRM_OPEN, 0, 0);
                self.is_opened = true;
            }
            Ok(())
        }
        pub fn close(&mut self) -> Result<()> {
            if self.is_opened() {
                self.world.lock().unwrap().log.push(Ev::StrmClose);
                vtrace::trace::mark(vtrace::trace::STRM_CLOSE, 0, 0);
            }
            self.is_opened = false;
            Ok(())
        }
        #[must_use]
        pub fn is_opened(&self) -> bool {
            self.is_opened
        }
        pub fn recv(&self, _buf: &mut [u8], _timeout: Duration) -> Result<usize> {
            Err(sim::usb_err(6))
        }
        pub fn set_halt(&self, _timeout: Duration) -> Result<()> {
            Ok(())
        }
        pub fn clear_halt(&mut self) -> Result<()> {
            Ok(())
        }
    }

    pub mod async_read {
        use super::sim::{self, Ev, Transfer};
        use super::{ReceiveChannel, Result};
        use vtrace::trace as tr;
        use std::collections::VecDeque;
        use std::time::Duration;

        /// Same surface as the real AsyncPool: transfers complete in submission order with the
        /// results scripted in `World::transfers`; a scripted `Timeout` (or an empty script) leaves
        /// the transfer pending and reports LibUsbError::Timeout, as the real poll does.
        pub struct AsyncPool<'a> {
            ch: &'a ReceiveChannel,
            pending: VecDeque<(*mut u8, usize)>,
        }

        impl<'a> AsyncPool<'a> {
            pub fn new(channel: &'a ReceiveChannel) -> Self {
                tr::yield_point();
                let mut t = tr::lock();
                channel.world.lock().unwrap().log.push(Ev::PoolNew);
                tr::push(&mut t, tr::POOL_NEW, 0, 0);
                Self { ch: channel, pending: VecDeque::new() }
            }

            pub fn submit(&mut self, buf: &mut [u8]) -> Result<()> {
                tr::yield_point();
                let mut t = tr::lock();
                let mut w = self.ch.world.lock().unwrap();
                let k = w.submits;
                w.submits += 1;
                if let Some((at, e)) = w.submit_err_at {
                    if at == k {
                        tr::push(&mut t, tr::SUBMIT_ERR, e as i64, 0);
                        return Err(sim::usb_err(e));
                    }
                }
                if let Some(e) = w.submit_errs.remove(&k) {
                    tr::push(&mut t, tr::SUBMIT_ERR, e as i64, 0);
                    return Err(sim::usb_err(e));
                }
                w.log.push(Ev::Submit(buf.len()));
                tr::push(&mut t, tr::SUBMIT, buf.len() as i64, 0);
                self.pending.push_back((buf.as_mut_ptr(), buf.len()));
                Ok(())
            }

            pub fn poll(&mut self, timeout: Duration) -> Result<usize> {
                debug_assert!(!self.pending.is_empty());
                tr::yield_point();
                let t = self.ch.world.lock().unwrap().transfers.pop_front();
                if matches!(t, None | Some(Transfer::Timeout)) {
                    // the device sends nothing: the poll waits for its timeout (shortened)
                    std::thread::sleep(std::cmp::min(timeout, Duration::from_millis(1)));
                }
                let mut g = tr::lock();
                match t {
                    None | Some(Transfer::Timeout) => {
                        self.ch.world.lock().unwrap().log.push(Ev::Poll(-6));
                        tr::push(&mut g, tr::POLL, -7, self.pending.len() as i64);
                        Err(sim::usb_err(6))
                    }
                    Some(Transfer::Err(e)) => {
                        self.pending.pop_front();
                        self.ch.world.lock().unwrap().log.push(Ev::Poll(-(e as i64) - 100));
                        tr::push(&mut g, tr::POLL, -1 - e as i64, self.pending.len() as i64);
                        Err(sim::usb_err(e))
                    }
                    Some(Transfer::Data(d)) => {
                        let (p, n) = self.pending.pop_front().unwrap();
                        if d.len() > n {
                            self.ch.world.lock().unwrap().log.push(Ev::Poll(-107));
                            tr::push(&mut g, tr::POLL, -8, self.pending.len() as i64);
                            return Err(sim::usb_err(7));
                        }
                        // Safety: the buffer outlives the pool in the code under test, exactly as
                        // the real implementation requires.
                        unsafe { std::ptr::copy_nonoverlapping(d.as_ptr(), p, d.len()) };
                        self.ch.world.lock().unwrap().log.push(Ev::Poll(d.len() as i64));
                        tr::push(&mut g, tr::POLL, d.len() as i64, self.pending.len() as i64);
                        Ok(d.len())
                    }
                }
            }

            pub fn cancel_all(&mut self) {}

            pub fn pending(&self) -> usize {
                self.pending.len()
            }

            pub fn is_empty(&self) -> bool {
                self.pending() == 0
            }
        }

        impl Drop for AsyncPool<'_> {
            fn drop(&mut self) {
                tr::yield_point();
                let mut t = tr::lock();
                let n = self.pending.len();
                self.pending.clear();
                self.ch.world.lock().unwrap().log.push(Ev::PoolDrop(n));
                tr::push(&mut t, tr::POOL_DROP, n as i64, 0);
            }
        }
    }
}
