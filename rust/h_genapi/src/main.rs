// Correspondence harness for /repo/genapi: builds a node store from an XML document and runs
// an operation history against an in-memory recording device.
//
// line:  g <flags> x<xml utf8 hex> <base> x<image hex> op op ...
//   flags: bit0 = build with .no_cache()
//   the device memory is [base, base + |image|); accesses outside fail with a device error
//   op tokens (node referred to by name):
//     v:N  s:N:val  mn:N mx:N inc:N          IInteger value / set_value / min / max / inc
//     fv:N fs:N:bits fmn:N fmx:N              IFloat (values as f64 bit patterns)
//     sv:N ss:N:hex sml:N                     IString value / set_value / max_length
//     bv:N bs:N:0|1                           IBoolean
//     ex:N dn:N                               ICommand execute / is_done
//     cv:N ce:N sev:N:val ses:N:hexname       IEnumeration current_value / current_entry / set by value / symbolic
//     rr:N:len rw:N:hex ra:N rl:N             IRegister read / write / address / length
//     ir:N iw:N                               is_readable / is_writable (whatever interface N has)
//     cc                                      clear_cache
//     rej:k                                   the k-th next device access (0 = next) fails
// output: for every op a length-prefixed result (0 payload | 1 eclass | 2 panic), then
//   -7, number of log entries, entries (0 addr len | 1 addr len bytes...), then -8, final image.
use cameleon_genapi::builder::GenApiBuilder;
use cameleon_genapi::interface::*;
use cameleon_genapi::store::{CacheStore, DefaultNodeStore, NodeId, NodeStore, ValueStore};
use cameleon_genapi::{Device, GenApiError, GenApiResult, ValueCtxt};
use std::io::{BufRead, Write};
use std::panic::{catch_unwind, AssertUnwindSafe};

struct Dev {
    base: i64,
    mem: Vec<u8>,
    log: Vec<Vec<i128>>,
    reject: Vec<usize>,
    /// accesses whose acknowledge is lost: the device performs them, the host is told they failed
    lost: Vec<usize>,
    count: usize,
}

impl Dev {
    fn check(&mut self, address: i64, len: usize) -> Result<usize, Box<dyn std::error::Error + Send + Sync>> {
        let idx = self.count;
        self.count += 1;
        if self.reject.contains(&idx) {
            return Err("scripted rejection".into());
        }
        let off = (address as i128) - (self.base as i128);
        if off < 0 || off + len as i128 > self.mem.len() as i128 {
            return Err("address out of device memory".into());
        }
        Ok(off as usize)
    }
}

impl Device for Dev {
    fn read_mem(&mut self, address: i64, buf: &mut [u8]) -> Result<(), Box<dyn std::error::Error + Send + Sync>> {
        self.log.push(vec![0, address as i128, buf.len() as i128]);
        let lost = self.lost.contains(&self.count);
        let off = self.check(address, buf.len())?;
        if lost {
            return Err("acknowledge lost".into());
        }
        buf.copy_from_slice(&self.mem[off..off + buf.len()]);
        Ok(())
    }
    fn write_mem(&mut self, address: i64, data: &[u8]) -> Result<(), Box<dyn std::error::Error + Send + Sync>> {
        let mut e = vec![1, address as i128, data.len() as i128];
        e.extend(data.iter().map(|b| *b as i128));
        self.log.push(e);
        let lost = self.lost.contains(&self.count);
        let off = self.check(address, data.len())?;
        self.mem[off..off + data.len()].copy_from_slice(data);
        if lost {
            return Err("acknowledge lost".into());
        }
        Ok(())
    }
}

fn eclass(e: &GenApiError) -> i128 {
    match e {
        GenApiError::Device(_) => 30,
        GenApiError::NotWritable => 31,
        GenApiError::InvalidNode(_) => 32,
        GenApiError::InvalidData(_) => 33,
        GenApiError::ChunkDataMissing => 34,
        GenApiError::InvalidBuffer(_) => 35,
    }
}

fn hex(s: &str) -> Vec<u8> {
    (0..s.len() / 2).map(|i| u8::from_str_radix(&s[2 * i..2 * i + 2], 16).unwrap()).collect()
}

fn res<T>(r: GenApiResult<T>, sh: impl Fn(T) -> Vec<i128>) -> Vec<i128> {
    match r {
        Ok(x) => {
            let mut v = vec![0];
            v.extend(sh(x));
            v
        }
        Err(e) => vec![1, eclass(&e)],
    }
}

const NO_IFACE: i128 = 90; // the node does not implement the interface the op needs
const NO_NODE: i128 = 91;

fn run_op<T: ValueStore, U: CacheStore>(
    op: &str,
    dev: &mut Dev,
    store: &DefaultNodeStore,
    cx: &mut ValueCtxt<T, U>,
) -> Vec<i128> {
    let p: Vec<&str> = op.split(':').collect();
    if p[0] == "cc" {
        cx.clear_cache();
        return vec![0];
    }
    if p[0] == "rej" {
        let k: usize = p[1].parse().unwrap();
        dev.reject.push(dev.count + k);
        return vec![0];
    }
    if p[0] == "lost" {
        let k: usize = p[1].parse().unwrap();
        dev.lost.push(dev.count + k);
        return vec![0];
    }
    let nid: NodeId = match store.id_by_name(p[1]) {
        Some(n) if store.node_opt(n).is_some() => n,
        _ => return vec![1, NO_NODE],
    };
    macro_rules! iface {
        ($m:ident) => {
            match nid.$m(store) {
                Some(n) => n,
                None => return vec![1, NO_IFACE],
            }
        };
    }
    let unit = |_: ()| vec![];
    match p[0] {
        "v" => res(iface!(as_iinteger_kind).value(dev, store, cx), |x| vec![x as i128]),
        "s" => res(iface!(as_iinteger_kind).set_value(p[2].parse().unwrap(), dev, store, cx), unit),
        "mn" => res(iface!(as_iinteger_kind).min(dev, store, cx), |x| vec![x as i128]),
        "mx" => res(iface!(as_iinteger_kind).max(dev, store, cx), |x| vec![x as i128]),
        "inc" => res(iface!(as_iinteger_kind).inc(dev, store, cx), |x| match x {
            Some(i) => vec![1, i as i128],
            None => vec![0],
        }),
        "fv" => res(iface!(as_ifloat_kind).value(dev, store, cx), |x| vec![fbits(x)]),
        "fs" => res(
            iface!(as_ifloat_kind).set_value(f64::from_bits(p[2].parse::<u64>().unwrap()), dev, store, cx),
            unit,
        ),
        "fmn" => res(iface!(as_ifloat_kind).min(dev, store, cx), |x| vec![fbits(x)]),
        "fmx" => res(iface!(as_ifloat_kind).max(dev, store, cx), |x| vec![fbits(x)]),
        "sv" => res(iface!(as_istring_kind).value(dev, store, cx), |x| {
            let mut v = vec![x.len() as i128];
            v.extend(x.bytes().map(|b| b as i128));
            v
        }),
        "ss" => {
            let s = String::from_utf8(hex(p[2])).unwrap();
            res(iface!(as_istring_kind).set_value(s, dev, store, cx), unit)
        }
        "sml" => res(iface!(as_istring_kind).max_length(dev, store, cx), |x| vec![x as i128]),
        "bv" => res(iface!(as_iboolean_kind).value(dev, store, cx), |x| vec![x as i128]),
        "bs" => res(iface!(as_iboolean_kind).set_value(p[2] == "1", dev, store, cx), unit),
        "ex" => res(iface!(as_icommand_kind).execute(dev, store, cx), unit),
        "dn" => res(iface!(as_icommand_kind).is_done(dev, store, cx), |x| vec![x as i128]),
        "cv" => res(iface!(as_ienumeration_kind).current_value(dev, store, cx), |x| vec![x as i128]),
        "ce" => res(iface!(as_ienumeration_kind).current_entry(dev, store, cx), |x| {
            let name = store.name_by_id(x).unwrap_or("");
            let mut v = vec![name.len() as i128];
            v.extend(name.bytes().map(|b| b as i128));
            v
        }),
        "sev" => res(iface!(as_ienumeration_kind).set_entry_by_value(p[2].parse().unwrap(), dev, store, cx), unit),
        "ses" => {
            let s = String::from_utf8(hex(p[2])).unwrap();
            res(iface!(as_ienumeration_kind).set_entry_by_symbolic(&s, dev, store, cx), unit)
        }
        "rr" => {
            let mut buf = vec![0u8; p[2].parse().unwrap()];
            let r = iface!(as_iregister_kind).read(&mut buf, dev, store, cx);
            res(r, |_| buf.iter().map(|b| *b as i128).collect())
        }
        "rw" => res(iface!(as_iregister_kind).write(&hex(p[2]), dev, store, cx), unit),
        "ra" => res(iface!(as_iregister_kind).address(dev, store, cx), |x| vec![x as i128]),
        "rl" => res(iface!(as_iregister_kind).length(dev, store, cx), |x| vec![x as i128]),
        "ir" | "iw" => {
            let rd = p[0] == "ir";
            macro_rules! rw {
                ($n:expr) => {
                    if rd {
                        res($n.is_readable(dev, store, cx), |x| vec![x as i128])
                    } else {
                        res($n.is_writable(dev, store, cx), |x| vec![x as i128])
                    }
                };
            }
            if let Some(n) = nid.as_iinteger_kind(store) {
                rw!(n)
            } else if let Some(n) = nid.as_ifloat_kind(store) {
                rw!(n)
            } else if let Some(n) = nid.as_istring_kind(store) {
                rw!(n)
            } else if let Some(n) = nid.as_iboolean_kind(store) {
                rw!(n)
            } else if let Some(n) = nid.as_ienumeration_kind(store) {
                rw!(n)
            } else if let Some(n) = nid.as_icommand_kind(store) {
                if rd {
                    vec![1, NO_IFACE]
                } else {
                    res(n.is_writable(dev, store, cx), |x| vec![x as i128])
                }
            } else {
                vec![1, NO_IFACE]
            }
        }
        k => panic!("unknown op {}", k),
    }
}

fn fbits(x: f64) -> i128 {
    if x.is_nan() {
        0x7ff8_0000_0000_0000
    } else {
        x.to_bits() as i128
    }
}

fn run_history<T: ValueStore, U: CacheStore>(
    ops: &[&str],
    dev: &mut Dev,
    store: &DefaultNodeStore,
    cx: &mut ValueCtxt<T, U>,
) -> Vec<i128> {
    let mut out = vec![];
    for op in ops {
        let r = catch_unwind(AssertUnwindSafe(|| run_op(op, dev, store, cx))).unwrap_or_else(|_| vec![2]);
        out.push(r.len() as i128);
        out.extend(r);
    }
    out
}

fn run(t: &[&str]) -> Vec<i128> {
    let flags: u32 = t[1].parse().unwrap();
    let xml = String::from_utf8(hex(&t[2][1..])).unwrap();
    let base: i64 = t[3].parse().unwrap();
    let mut dev = Dev { base, mem: hex(&t[4][1..]), log: vec![], reject: vec![], lost: vec![], count: 0 };
    let ops = &t[5..];
    let mut out;
    if flags & 1 == 1 {
        match GenApiBuilder::<DefaultNodeStore>::default().no_cache().build(&xml) {
            Err(_) => return vec![1, 99],
            Ok((_, store, mut cx)) => out = run_history(ops, &mut dev, &store, &mut cx),
        }
    } else {
        match GenApiBuilder::<DefaultNodeStore>::default().build(&xml) {
            Err(_) => return vec![1, 99],
            Ok((_, store, mut cx)) => out = run_history(ops, &mut dev, &store, &mut cx),
        }
    }
    out.push(-7);
    out.push(dev.log.len() as i128);
    for e in &dev.log {
        out.extend(e.iter());
    }
    out.push(-8);
    out.extend(dev.mem.iter().map(|b| *b as i128));
    out
}

fn main() {
    std::panic::set_hook(Box::new(|_| {}));
    let stdin = std::io::stdin();
    let stdout = std::io::stdout();
    let mut out = std::io::BufWriter::new(stdout.lock());
    for line in stdin.lock().lines() {
        let line = line.unwrap();
        let t: Vec<&str> = line.split_whitespace().collect();
        if t.is_empty() {
            continue;
        }
        let r = catch_unwind(AssertUnwindSafe(|| run(&t))).unwrap_or_else(|_| vec![2]);
        let s: Vec<String> = r.iter().map(|x| x.to_string()).collect();
        writeln!(out, "{}", s.join(" ")).unwrap();
        out.flush().unwrap();
    }
}
