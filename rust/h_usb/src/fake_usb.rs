//! A SCRIPTED in-memory fake of libusb for rust/h_usb: the binary defines every `libusb_*` symbol that
//! `rusb` / `cameleon-device` reference (#[no_mangle] extern "C"), so the linker never takes the real
//! libusb objects.  The real `cameleon_device::u3v::{enumerate_devices, Device, ControlChannel,
//! ReceiveChannel}` of /repo/device run unmodified on top of it.
//!
//! Everything the library answers comes from the `World` installed by the harness for the current case:
//! the device list (or the error of libusb_get_device_list), per device the device descriptor (or an error),
//! bNumConfigurations, the configuration descriptors (or an error each) with their raw `extra` bytes,
//! interfaces, alternate settings, endpoints (raw `extra` at every level), the results of libusb_open /
//! get_configuration / set_configuration, the string-descriptor table (bytes or an error code per index),
//! and -- for the channel cases -- a FIFO plan of results consumed by claim / release / clear_halt /
//! bulk / control transfers / open, in call order.  Every call is appended to a log of integers.
//!
//! Contract of the real library that the fake keeps (rusb relies on it, it is not cameleon code): an
//! interface has at least one alternate setting; the endpoint array has bNumEndpoints entries;
//! extra_length is the length of `extra`; libusb_get_string_descriptor_ascii writes at most `length` bytes.
#![allow(non_camel_case_types, non_snake_case, dead_code, clippy::all)]
use std::collections::VecDeque;
use std::os::raw::{c_char, c_int, c_uint, c_void};
use std::sync::Mutex;

pub const ERROR_NOT_FOUND: c_int = -5;

// ---- the script -----------------------------------------------------------------------------
#[derive(Clone, Debug, Default)]
pub struct EpD {
    pub addr: u8,
    pub attrs: u8,
    pub extra: Vec<u8>,
}
#[derive(Clone, Debug, Default)]
pub struct AltD {
    pub num: u8,
    pub setting: u8,
    pub cls: u8,
    pub sub: u8,
    pub proto: u8,
    pub extra: Vec<u8>,
    pub eps: Vec<EpD>,
}
#[derive(Clone, Debug, Default)]
pub struct IfaceD {
    pub alts: Vec<AltD>,
}
#[derive(Clone, Debug, Default)]
pub struct ConfD {
    pub err: c_int,
    pub value: u8,
    pub extra: Vec<u8>,
    pub ifaces: Vec<IfaceD>,
}
#[derive(Clone, Debug)]
pub enum StrRes {
    Bytes(Vec<u8>),
    Code(c_int),
}
#[derive(Clone, Debug, Default)]
pub struct DevD {
    pub dd_err: c_int,
    pub cls: u8,
    pub sub: u8,
    pub proto: u8,
    pub nconf: u8,
    pub confs: Vec<ConfD>,
    pub open_code: c_int,
    pub getcfg_code: c_int,
    pub getcfg_val: c_int,
    pub setcfg_code: c_int,
    pub strs: Vec<(u8, StrRes)>,
}
/// One scripted answer of a handle-level call (channel cases).
#[derive(Clone, Debug, Default)]
pub struct Resp {
    pub code: c_int,
    pub n: c_int,
    pub data: Vec<u8>,
}

/// A handle-level call handed to the backend (when one is installed the plan and the log are not used for
/// these calls): rust/h_usbctl puts a simulated U3V device behind the endpoints.
pub enum HCall<'a> {
    Claim(c_int),
    Release(c_int),
    ClearHalt(u8),
    Control { index: u16 },
    Bulk { ep: u8, buf: &'a mut [u8], timeout: c_uint },
}
/// (device index, call) -> (return code, transferred count)
pub type Backend = Box<dyn FnMut(usize, HCall) -> (c_int, c_int) + Send>;

pub struct World {
    pub list_code: isize,
    pub devs: Vec<DevD>,
    pub plan: VecDeque<Resp>,
    pub plan_on: bool,
    pub logging: bool,
    pub log: Vec<i64>,
    pub opened: Vec<usize>, // device index of every libusb_open call that succeeded (probe)
    pub backend: Option<Backend>,
}

pub static WORLD: Mutex<Option<World>> = Mutex::new(None);

pub fn lock() -> std::sync::MutexGuard<'static, Option<World>> {
    WORLD.lock().unwrap_or_else(|e| e.into_inner())
}

pub fn install(list_code: isize, devs: Vec<DevD>) {
    *lock() = Some(World {
        list_code,
        devs,
        plan: VecDeque::new(),
        plan_on: false,
        logging: true,
        log: vec![],
        opened: vec![],
        backend: None,
    });
}

pub fn with<R>(f: impl FnOnce(&mut World) -> R) -> R {
    let mut g = lock();
    f(g.as_mut().expect("no world installed"))
}

fn log(w: &mut World, e: &[i64]) {
    if w.logging {
        w.log.extend_from_slice(e);
    }
}

/// bytes the device puts into an IN buffer when the plan is exhausted
pub fn pattern(len: usize) -> Vec<u8> {
    (0..len).map(|i| ((11 + 3 * i) & 255) as u8).collect()
}

// ---- descriptors (C layout of libusb.h) --------------------------------------------------------
#[repr(C)]
pub struct DeviceDescriptor {
    bLength: u8,
    bDescriptorType: u8,
    bcdUSB: u16,
    bDeviceClass: u8,
    bDeviceSubClass: u8,
    bDeviceProtocol: u8,
    bMaxPacketSize0: u8,
    idVendor: u16,
    idProduct: u16,
    bcdDevice: u16,
    iManufacturer: u8,
    iProduct: u8,
    iSerialNumber: u8,
    bNumConfigurations: u8,
}

#[repr(C)]
pub struct ConfigDescriptor {
    bLength: u8,
    bDescriptorType: u8,
    wTotalLength: u16,
    bNumInterfaces: u8,
    bConfigurationValue: u8,
    iConfiguration: u8,
    bmAttributes: u8,
    bMaxPower: u8,
    interface: *const Interface,
    extra: *const u8,
    extra_length: c_int,
}

#[repr(C)]
pub struct Interface {
    altsetting: *const InterfaceDescriptor,
    num_altsetting: c_int,
}

#[repr(C)]
pub struct InterfaceDescriptor {
    bLength: u8,
    bDescriptorType: u8,
    bInterfaceNumber: u8,
    bAlternateSetting: u8,
    bNumEndpoints: u8,
    bInterfaceClass: u8,
    bInterfaceSubClass: u8,
    bInterfaceProtocol: u8,
    iInterface: u8,
    endpoint: *const EndpointDescriptor,
    extra: *const u8,
    extra_length: c_int,
}

#[repr(C)]
pub struct EndpointDescriptor {
    bLength: u8,
    bDescriptorType: u8,
    bEndpointAddress: u8,
    bmAttributes: u8,
    wMaxPacketSize: u16,
    bInterval: u8,
    bRefresh: u8,
    bSynchAddress: u8,
    extra: *const u8,
    extra_length: c_int,
}

#[repr(C)]
pub struct Version {
    major: u16,
    minor: u16,
    micro: u16,
    nano: u16,
    rc: *const c_char,
    describe: *const c_char,
}

#[repr(C)]
pub struct TimeVal {
    tv_sec: i64,
    tv_usec: i64,
}

fn leak<T>(v: T) -> *const T {
    Box::into_raw(Box::new(v))
}

fn leak_vec<T>(v: Vec<T>) -> *const T {
    if v.is_empty() {
        // calloc(0, ..) of glibc: a non-null pointer to nothing (rusb builds an empty slice from it)
        return std::ptr::NonNull::<T>::dangling().as_ptr();
    }
    Box::leak(v.into_boxed_slice()).as_ptr()
}

fn leak_bytes(v: &[u8]) -> (*const u8, c_int) {
    (leak_vec(v.to_vec()), v.len() as c_int)
}

fn build_config(c: &ConfD) -> *const ConfigDescriptor {
    let ifaces: Vec<Interface> = c
        .ifaces
        .iter()
        .map(|i| {
            let alts: Vec<InterfaceDescriptor> = i
                .alts
                .iter()
                .map(|a| {
                    let eps: Vec<EndpointDescriptor> = a
                        .eps
                        .iter()
                        .map(|e| {
                            let (x, xl) = leak_bytes(&e.extra);
                            EndpointDescriptor {
                                bLength: 7,
                                bDescriptorType: 5,
                                bEndpointAddress: e.addr,
                                bmAttributes: e.attrs,
                                wMaxPacketSize: 1024,
                                bInterval: 0,
                                bRefresh: 0,
                                bSynchAddress: 0,
                                extra: x,
                                extra_length: xl,
                            }
                        })
                        .collect();
                    let (x, xl) = leak_bytes(&a.extra);
                    InterfaceDescriptor {
                        bLength: 9,
                        bDescriptorType: 4,
                        bInterfaceNumber: a.num,
                        bAlternateSetting: a.setting,
                        bNumEndpoints: eps.len() as u8,
                        bInterfaceClass: a.cls,
                        bInterfaceSubClass: a.sub,
                        bInterfaceProtocol: a.proto,
                        iInterface: 0,
                        endpoint: leak_vec(eps),
                        extra: x,
                        extra_length: xl,
                    }
                })
                .collect();
            assert!(!alts.is_empty(), "libusb contract: an interface has an alternate setting");
            Interface {
                num_altsetting: alts.len() as c_int,
                altsetting: leak_vec(alts),
            }
        })
        .collect();
    let (x, xl) = leak_bytes(&c.extra);
    leak(ConfigDescriptor {
        bLength: 9,
        bDescriptorType: 2,
        wTotalLength: 0,
        bNumInterfaces: ifaces.len() as u8,
        bConfigurationValue: c.value,
        iConfiguration: 0,
        bmAttributes: 0x80,
        bMaxPower: 50,
        interface: leak_vec(ifaces),
        extra: x,
        extra_length: xl,
    })
}

fn dummy() -> *mut c_void {
    Box::into_raw(Box::new(0_u64)).cast()
}

struct DevObj {
    index: usize,
}
struct HandleObj {
    dev: usize,
}
unsafe fn dev_index(dev: *mut c_void) -> usize {
    (*(dev as *const DevObj)).index
}
unsafe fn handle_dev(h: *mut c_void) -> usize {
    (*(h as *const HandleObj)).dev
}

// ---- library / enumeration ---------------------------------------------------------------
#[no_mangle]
pub unsafe extern "C" fn libusb_init(ctx: *mut *mut c_void) -> c_int {
    if !ctx.is_null() {
        *ctx = dummy();
    }
    0
}
#[no_mangle]
pub extern "C" fn libusb_exit(_ctx: *mut c_void) {}
#[no_mangle]
pub extern "C" fn libusb_set_debug(_ctx: *mut c_void, _level: c_int) {}
#[no_mangle]
pub extern "C" fn libusb_set_option(_ctx: *mut c_void, _option: u32) -> c_int {
    0
}
#[no_mangle]
pub extern "C" fn libusb_get_version() -> *const Version {
    leak(Version {
        major: 1,
        minor: 0,
        micro: 26,
        nano: 0,
        rc: b"\0".as_ptr().cast(),
        describe: b"fake\0".as_ptr().cast(),
    })
}
#[no_mangle]
pub extern "C" fn libusb_has_capability(_cap: u32) -> c_int {
    0
}
#[no_mangle]
pub extern "C" fn libusb_error_name(_code: c_int) -> *const c_char {
    b"FAKE_ERROR\0".as_ptr().cast()
}
#[no_mangle]
pub unsafe extern "C" fn libusb_get_device_list(
    _ctx: *mut c_void,
    list: *mut *const *mut c_void,
) -> isize {
    with(|w| {
        log(w, &[13]);
        if w.list_code < 0 {
            return w.list_code;
        }
        let mut devs: Vec<*mut c_void> = (0..w.devs.len())
            .map(|index| Box::into_raw(Box::new(DevObj { index })).cast())
            .collect();
        devs.push(std::ptr::null_mut());
        let n = devs.len() - 1;
        *list = Box::leak(devs.into_boxed_slice()).as_ptr();
        n as isize
    })
}
#[no_mangle]
pub extern "C" fn libusb_free_device_list(_list: *const *mut c_void, _unref: c_int) {}
#[no_mangle]
pub extern "C" fn libusb_ref_device(dev: *mut c_void) -> *mut c_void {
    dev
}
#[no_mangle]
pub extern "C" fn libusb_unref_device(_dev: *mut c_void) {}
#[no_mangle]
pub unsafe extern "C" fn libusb_get_device_descriptor(
    dev: *mut c_void,
    desc: *mut DeviceDescriptor,
) -> c_int {
    let d = dev_index(dev);
    with(|w| {
        log(w, &[1, d as i64]);
        let dv = &w.devs[d];
        if dv.dd_err != 0 {
            return dv.dd_err;
        }
        *desc = DeviceDescriptor {
            bLength: 18,
            bDescriptorType: 1,
            bcdUSB: 0x0300,
            bDeviceClass: dv.cls,
            bDeviceSubClass: dv.sub,
            bDeviceProtocol: dv.proto,
            bMaxPacketSize0: 9,
            idVendor: 0x1234,
            idProduct: 0x5678,
            bcdDevice: 0x0100,
            iManufacturer: 2,
            iProduct: 3,
            iSerialNumber: 6,
            bNumConfigurations: dv.nconf,
        };
        0
    })
}
#[no_mangle]
pub unsafe extern "C" fn libusb_get_config_descriptor(
    dev: *mut c_void,
    index: u8,
    out: *mut *const ConfigDescriptor,
) -> c_int {
    let d = dev_index(dev);
    with(|w| {
        log(w, &[2, d as i64, i64::from(index)]);
        let dv = &w.devs[d];
        match dv.confs.get(index as usize) {
            None => ERROR_NOT_FOUND,
            Some(c) if c.err != 0 => c.err,
            Some(c) => {
                *out = build_config(c);
                0
            }
        }
    })
}
#[no_mangle]
pub unsafe extern "C" fn libusb_get_active_config_descriptor(
    dev: *mut c_void,
    out: *mut *const ConfigDescriptor,
) -> c_int {
    libusb_get_config_descriptor(dev, 0, out)
}
#[no_mangle]
pub extern "C" fn libusb_free_config_descriptor(_cfg: *const ConfigDescriptor) {}
#[no_mangle]
pub extern "C" fn libusb_get_ss_endpoint_companion_descriptor(
    _ctx: *mut c_void,
    _ep: *const EndpointDescriptor,
    _out: *mut *const c_void,
) -> c_int {
    ERROR_NOT_FOUND
}
#[no_mangle]
pub extern "C" fn libusb_free_ss_endpoint_companion_descriptor(_d: *mut c_void) {}

// ---- device handle -----------------------------------------------------------------------
fn pop(w: &mut World) -> Option<Resp> {
    if w.plan_on {
        w.plan.pop_front()
    } else {
        None
    }
}


/// run the installed backend (if any) on a handle-level call
fn via_backend(d: usize, call: HCall) -> Option<(c_int, c_int)> {
    let mut b = with(|w| w.backend.take())?;
    let r = b(d, call);
    with(|w| w.backend = Some(b));
    Some(r)
}

#[no_mangle]
pub unsafe extern "C" fn libusb_open(dev: *mut c_void, out: *mut *mut c_void) -> c_int {
    let d = dev_index(dev);
    with(|w| {
        log(w, &[3, d as i64]);
        let code = if w.plan_on {
            pop(w).map(|r| r.code).unwrap_or(0)
        } else if w.logging {
            w.devs[d].open_code
        } else {
            0
        };
        if code != 0 {
            return code;
        }
        w.opened.push(d);
        *out = Box::into_raw(Box::new(HandleObj { dev: d })).cast();
        0
    })
}
#[no_mangle]
pub extern "C" fn libusb_open_device_with_vid_pid(
    _ctx: *mut c_void,
    _vid: u16,
    _pid: u16,
) -> *mut c_void {
    std::ptr::null_mut()
}
#[no_mangle]
pub unsafe extern "C" fn libusb_close(handle: *mut c_void) {
    let d = handle_dev(handle);
    with(|w| log(w, &[7, d as i64]));
}
#[no_mangle]
pub unsafe extern "C" fn libusb_get_configuration(handle: *mut c_void, config: *mut c_int) -> c_int {
    let d = handle_dev(handle);
    with(|w| {
        log(w, &[4, d as i64]);
        let dv = &w.devs[d];
        if dv.getcfg_code != 0 {
            return dv.getcfg_code;
        }
        *config = dv.getcfg_val;
        0
    })
}
#[no_mangle]
pub unsafe extern "C" fn libusb_set_configuration(handle: *mut c_void, config: c_int) -> c_int {
    let d = handle_dev(handle);
    with(|w| {
        log(w, &[5, d as i64, i64::from(config)]);
        w.devs[d].setcfg_code
    })
}
#[no_mangle]
pub unsafe extern "C" fn libusb_claim_interface(handle: *mut c_void, iface: c_int) -> c_int {
    let d = handle_dev(handle);
    if let Some((code, _)) = via_backend(d, HCall::Claim(iface)) {
        return code;
    }
    with(|w| {
        log(w, &[8, d as i64, i64::from(iface)]);
        pop(w).map(|r| r.code).unwrap_or(0)
    })
}
#[no_mangle]
pub unsafe extern "C" fn libusb_release_interface(handle: *mut c_void, iface: c_int) -> c_int {
    let d = handle_dev(handle);
    if let Some((code, _)) = via_backend(d, HCall::Release(iface)) {
        return code;
    }
    with(|w| {
        log(w, &[9, d as i64, i64::from(iface)]);
        pop(w).map(|r| r.code).unwrap_or(0)
    })
}
#[no_mangle]
pub unsafe extern "C" fn libusb_clear_halt(handle: *mut c_void, ep: u8) -> c_int {
    let d = handle_dev(handle);
    if let Some((code, _)) = via_backend(d, HCall::ClearHalt(ep)) {
        return code;
    }
    with(|w| {
        log(w, &[10, d as i64, i64::from(ep)]);
        pop(w).map(|r| r.code).unwrap_or(0)
    })
}
#[no_mangle]
pub unsafe extern "C" fn libusb_get_string_descriptor_ascii(
    handle: *mut c_void,
    index: u8,
    data: *mut u8,
    length: c_int,
) -> c_int {
    let d = handle_dev(handle);
    with(|w| {
        log(w, &[6, d as i64, i64::from(index)]);
        match w.devs[d].strs.iter().find(|(i, _)| *i == index) {
            Some((_, StrRes::Bytes(s))) => {
                let n = s.len().min(length.max(0) as usize);
                std::ptr::copy_nonoverlapping(s.as_ptr(), data, n);
                n as c_int
            }
            Some((_, StrRes::Code(c))) => *c,
            None if index == 0 => -2, // LIBUSB_ERROR_INVALID_PARAM, as the real library
            None => -9,               // LIBUSB_ERROR_PIPE: the device stalls the request
        }
    })
}
#[no_mangle]
pub unsafe extern "C" fn libusb_control_transfer(
    handle: *mut c_void,
    request_type: u8,
    request: u8,
    value: u16,
    index: u16,
    _data: *mut u8,
    length: u16,
    timeout: c_uint,
) -> c_int {
    let d = handle_dev(handle);
    if let Some((code, n)) = via_backend(d, HCall::Control { index }) {
        return if code != 0 { code } else { n };
    }
    with(|w| {
        log(
            w,
            &[
                12,
                d as i64,
                i64::from(request_type),
                i64::from(request),
                i64::from(value),
                i64::from(index),
                i64::from(length),
                i64::from(timeout),
            ],
        );
        match pop(w) {
            Some(r) if r.code != 0 => r.code,
            Some(r) => r.n,
            None => c_int::from(length),
        }
    })
}
#[no_mangle]
pub unsafe extern "C" fn libusb_bulk_transfer(
    handle: *mut c_void,
    ep: u8,
    data: *mut u8,
    length: c_int,
    transferred: *mut c_int,
    timeout: c_uint,
) -> c_int {
    let d = handle_dev(handle);
    let len = length.max(0) as usize;
    if with(|w| w.backend.is_some()) {
        let buf = std::slice::from_raw_parts_mut(data, len);
        if let Some((code, n)) = via_backend(d, HCall::Bulk { ep, buf, timeout }) {
            *transferred = n;
            return code;
        }
    }
    with(|w| {
        log(w, &[11, d as i64, i64::from(ep), i64::from(length), i64::from(timeout)]);
        if ep & 0x80 == 0 {
            let out = std::slice::from_raw_parts(data, len);
            if w.logging {
                w.log.push(len as i64);
                w.log.extend(out.iter().map(|b| i64::from(*b)));
            }
        }
        match pop(w) {
            Some(r) => {
                if ep & 0x80 != 0 {
                    let n = r.data.len().min(len);
                    std::ptr::copy_nonoverlapping(r.data.as_ptr(), data, n);
                }
                *transferred = r.n;
                r.code
            }
            None => {
                if ep & 0x80 != 0 {
                    let p = pattern(len);
                    std::ptr::copy_nonoverlapping(p.as_ptr(), data, len);
                }
                *transferred = length;
                0
            }
        }
    })
}

// ---- asynchronous transfers: not used by these cases (refused) ---------------------------------
#[no_mangle]
pub extern "C" fn libusb_alloc_transfer(_iso_packets: c_int) -> *mut c_void {
    Box::into_raw(Box::new([0_u64; 16])).cast()
}
#[no_mangle]
pub unsafe extern "C" fn libusb_free_transfer(transfer: *mut c_void) {
    drop(Box::from_raw(transfer.cast::<[u64; 16]>()));
}
#[no_mangle]
pub extern "C" fn libusb_submit_transfer(_transfer: *mut c_void) -> c_int {
    -12
}
#[no_mangle]
pub extern "C" fn libusb_cancel_transfer(_transfer: *mut c_void) -> c_int {
    ERROR_NOT_FOUND
}
#[no_mangle]
pub extern "C" fn libusb_try_lock_events(_ctx: *mut c_void) -> c_int {
    0
}
#[no_mangle]
pub extern "C" fn libusb_lock_events(_ctx: *mut c_void) {}
#[no_mangle]
pub extern "C" fn libusb_unlock_events(_ctx: *mut c_void) {}
#[no_mangle]
pub extern "C" fn libusb_event_handling_ok(_ctx: *mut c_void) -> c_int {
    1
}
#[no_mangle]
pub extern "C" fn libusb_event_handler_active(_ctx: *mut c_void) -> c_int {
    0
}
#[no_mangle]
pub extern "C" fn libusb_lock_event_waiters(_ctx: *mut c_void) {}
#[no_mangle]
pub extern "C" fn libusb_unlock_event_waiters(_ctx: *mut c_void) {}
#[no_mangle]
pub extern "C" fn libusb_wait_for_event(_ctx: *mut c_void, _tv: *const TimeVal) -> c_int {
    0
}
#[no_mangle]
pub extern "C" fn libusb_handle_events_completed(_ctx: *mut c_void, _completed: *mut c_int) -> c_int {
    0
}
#[no_mangle]
pub extern "C" fn libusb_handle_events_locked(_ctx: *mut c_void, _tv: *const TimeVal) -> c_int {
    0
}
