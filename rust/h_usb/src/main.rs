//! The real `cameleon_device::u3v::{enumerate_devices, Device, ControlChannel, ReceiveChannel}` of
//! /repo/device (real rusb) over the SCRIPTED fake libusb of fake_usb.rs.  One case per line; a token is
//! a decimal integer or x<hex> (a byte string, "x" = empty).
//!
//!   enum LIST_CODE NDEV DEV*
//!     DEV   := DD_CODE CLASS SUB PROTO BNUMCONF NCONF CONF* OPEN_CODE GETCFG_CODE GETCFG_VALUE SETCFG_CODE NSTR STR*
//!     CONF  := ERR_CODE BCONFVALUE xEXTRA NIFACE IFACE*        IFACE := NALT ALT*   (NALT >= 1)
//!     ALT   := BIFNUM BALTSETTING CLASS SUB PROTO xEXTRA NEP EP*     EP := ADDR ATTRS xEXTRA
//!     STR   := INDEX 0 xBYTES | INDEX 1 CODE
//!   Output: 2 (panic) | 1 class (enumerate_devices failed) | 0 n DEVOUT*  then -7 and the libusb call log
//!     DEVOUT := position in the device list, gencp major minor patch, u3v major minor patch, guid, vendor, model,
//!               family?, device_version, manufacturer_info, serial, user_defined?, speed 0..4,
//!               control iface in-ep out-ep, event? (iface ep), stream? (iface ep)
//!               (string = len bytes*, optional = 0 | 1 string / 1 iface ep)
//!   log entries: 13 get_device_list | 1 d get_device_descriptor | 2 d i get_config_descriptor | 3 d open |
//!     4 d get_configuration | 5 d v set_configuration | 6 d i get_string_descriptor_ascii | 7 d close |
//!     8 d i claim | 9 d i release | 10 d ep clear_halt | 11 d ep len timeout [len bytes* for OUT] bulk |
//!     12 d type request value index len timeout control
//!
//!   chan DEV WHICH NPLAN (CODE N xDATA)* NOPS OP*      WHICH: 0 control, 1 event, 2 stream channel
//!     OP := 1 open | 2 close | 3 is_opened | 4 xDATA TIMEOUT_MS send | 5 BUFLEN TIMEOUT_MS recv |
//!           6 TIMEOUT_MS set_halt | 7 clear_halt | 8 drop the channel and take a new one from the Device
//!     The plan answers open / claim / release / clear_halt / bulk / control calls made after enumeration, in order.
//!   Output: -1 (device not enumerated) | -2 (no such channel) | results per op, -8 is_opened, -7 log
//!     (log: calls after the enumeration, the final drop of the channel included)
mod fake_usb;

use std::panic::{catch_unwind, AssertUnwindSafe};
use std::time::Duration;

use cameleon_device::u3v::{BusSpeed, ControlChannel, Device, Error, LibUsbError, ReceiveChannel};
use fake_usb::{AltD, ConfD, DevD, EpD, IfaceD, Resp, StrRes};

pub fn class(e: &Error) -> i64 {
    match e {
        Error::LibUsb(l) => match l {
            LibUsbError::Io => 0,
            LibUsbError::InvalidParam => 1,
            LibUsbError::Access => 2,
            LibUsbError::NoDevice => 3,
            LibUsbError::NotFound => 4,
            LibUsbError::Busy => 5,
            LibUsbError::Timeout => 6,
            LibUsbError::Overflow => 7,
            LibUsbError::Pipe => 8,
            LibUsbError::Interrupted => 9,
            LibUsbError::NoMem => 10,
            LibUsbError::NotSupported => 11,
            LibUsbError::BadDescriptor => 12,
            LibUsbError::Other => 13,
        },
        Error::BufferIo(_) => 20,
        Error::InvalidPacket(_) => 21,
        Error::InvalidDevice => 22,
    }
}

pub struct Cur<'a> {
    t: Vec<&'a str>,
    p: usize,
}
impl<'a> Cur<'a> {
    pub fn new(l: &'a str) -> Self {
        Cur { t: l.split_whitespace().collect(), p: 0 }
    }
    pub fn word(&mut self) -> &'a str {
        let w = self.t[self.p];
        self.p += 1;
        w
    }
    pub fn int(&mut self) -> i64 {
        self.word().parse().expect("integer token")
    }
    pub fn bytes(&mut self) -> Vec<u8> {
        let w = self.word();
        let h = w.strip_prefix('x').expect("hex token");
        (0..h.len() / 2).map(|i| u8::from_str_radix(&h[2 * i..2 * i + 2], 16).unwrap()).collect()
    }
    pub fn done(&self) -> bool {
        self.p >= self.t.len()
    }
}

pub fn parse_dev(c: &mut Cur) -> DevD {
    let mut d = DevD {
        dd_err: c.int() as i32,
        cls: c.int() as u8,
        sub: c.int() as u8,
        proto: c.int() as u8,
        nconf: c.int() as u8,
        ..DevD::default()
    };
    for _ in 0..c.int() {
        let mut cf = ConfD { err: c.int() as i32, value: c.int() as u8, extra: c.bytes(), ifaces: vec![] };
        for _ in 0..c.int() {
            let mut ifc = IfaceD { alts: vec![] };
            for _ in 0..c.int() {
                let mut a = AltD {
                    num: c.int() as u8,
                    setting: c.int() as u8,
                    cls: c.int() as u8,
                    sub: c.int() as u8,
                    proto: c.int() as u8,
                    extra: c.bytes(),
                    eps: vec![],
                };
                for _ in 0..c.int() {
                    a.eps.push(EpD { addr: c.int() as u8, attrs: c.int() as u8, extra: c.bytes() });
                }
                ifc.alts.push(a);
            }
            cf.ifaces.push(ifc);
        }
        d.confs.push(cf);
    }
    d.open_code = c.int() as i32;
    d.getcfg_code = c.int() as i32;
    d.getcfg_val = c.int() as i32;
    d.setcfg_code = c.int() as i32;
    for _ in 0..c.int() {
        let idx = c.int() as u8;
        let r = if c.int() == 0 { StrRes::Bytes(c.bytes()) } else { StrRes::Code(c.int() as i32) };
        d.strs.push((idx, r));
    }
    d
}

fn push_str(out: &mut Vec<i64>, s: &str) {
    out.push(s.len() as i64);
    out.extend(s.bytes().map(i64::from));
}
fn push_opt(out: &mut Vec<i64>, s: &Option<String>) {
    match s {
        None => out.push(0),
        Some(s) => {
            out.push(1);
            push_str(out, s);
        }
    }
}

/// Everything observable of an enumerated device (the fake is put into probe mode: opens succeed and are
/// not logged; the device index comes from the libusb_open call of `control_channel`).
fn describe(dev: &Device, out: &mut Vec<i64>) {
    fake_usb::with(|w| {
        w.logging = false;
        w.opened.clear();
    });
    let ctrl = dev.control_channel().expect("probe: control channel");
    let index = fake_usb::with(|w| w.opened[0]);
    out.push(index as i64);
    let di = dev.device_info();
    for v in [&di.gencp_version, &di.u3v_version] {
        out.extend([v.major as i64, v.minor as i64, v.patch as i64]);
    }
    push_str(out, &di.guid);
    push_str(out, &di.vendor_name);
    push_str(out, &di.model_name);
    push_opt(out, &di.family_name);
    push_str(out, &di.device_version);
    push_str(out, &di.manufacturer_info);
    push_str(out, &di.serial_number);
    push_opt(out, &di.user_defined_name);
    out.push(match di.supported_speed {
        BusSpeed::LowSpeed => 0,
        BusSpeed::FullSpeed => 1,
        BusSpeed::HighSpeed => 2,
        BusSpeed::SuperSpeed => 3,
        BusSpeed::SuperSpeedPlus => 4,
    });
    let i = &ctrl.iface_info;
    out.extend([i64::from(i.iface_number), i64::from(i.bulk_in_ep), i64::from(i.bulk_out_ep)]);
    for ch in [dev.event_channel().expect("probe: event channel"), dev.stream_channel().expect("probe: stream channel")] {
        match ch {
            None => out.push(0),
            Some(ch) => out.extend([1, i64::from(ch.iface_info.iface_number), i64::from(ch.iface_info.bulk_in_ep)]),
        }
    }
    drop(ctrl);
    fake_usb::with(|w| w.logging = true);
}

fn run_enum(c: &mut Cur) -> Vec<i64> {
    let list_code = c.int() as isize;
    let devs: Vec<DevD> = (0..c.int()).map(|_| parse_dev(c)).collect();
    fake_usb::install(list_code, devs);
    let mut out = vec![];
    match catch_unwind(cameleon_device::u3v::enumerate_devices) {
        Err(_) => return vec![2],
        Ok(Err(e)) => out.extend([1, class(&e)]),
        Ok(Ok(found)) => {
            out.extend([0, found.len() as i64]);
            for d in &found {
                describe(d, &mut out);
            }
        }
    }
    out.push(-7);
    out.extend(fake_usb::with(|w| w.log.clone()));
    out
}

enum Chan {
    Ctrl(ControlChannel),
    Recv(ReceiveChannel),
}

fn take_chan(dev: &Device, which: i64) -> Result<Option<Chan>, Error> {
    Ok(match which {
        0 => Some(Chan::Ctrl(dev.control_channel()?)),
        1 => dev.event_channel()?.map(Chan::Recv),
        _ => dev.stream_channel()?.map(Chan::Recv),
    })
}

fn unit(out: &mut Vec<i64>, r: Result<(), Error>) {
    match r {
        Ok(()) => out.push(0),
        Err(e) => out.extend([1, class(&e)]),
    }
}

fn run_chan(c: &mut Cur) -> Vec<i64> {
    let dev = parse_dev(c);
    let which = c.int();
    let plan: Vec<Resp> = (0..c.int())
        .map(|_| Resp { code: c.int() as i32, n: c.int() as i32, data: c.bytes() })
        .collect();
    fake_usb::install(1, vec![dev]);
    let found = match catch_unwind(cameleon_device::u3v::enumerate_devices) {
        Err(_) => return vec![2],
        Ok(Err(_)) => return vec![-1],
        Ok(Ok(f)) => f,
    };
    let dev = match found.into_iter().next() {
        Some(d) => d,
        None => return vec![-1],
    };
    fake_usb::with(|w| {
        w.log.clear();
        w.plan = plan.into_iter().collect();
        w.plan_on = true;
    });
    let mut out = vec![];
    let mut chan: Option<Chan> = match take_chan(&dev, which) {
        Ok(None) => return vec![-2],
        Ok(ch) => {
            out.push(0);
            ch
        }
        Err(e) => {
            out.extend([1, class(&e)]);
            None
        }
    };
    let nops = c.int();
    let r = catch_unwind(AssertUnwindSafe(|| {
        for _ in 0..nops {
            let op = c.int();
            // read the arguments first so that the token stream stays aligned when there is no channel
            let (data, a, b) = match op {
                4 => (c.bytes(), c.int(), 0),
                5 => (vec![], c.int(), c.int()),
                6 => (vec![], c.int(), 0),
                _ => (vec![], 0, 0),
            };
            if op == 8 {
                drop(chan.take());
                match take_chan(&dev, which) {
                    Ok(ch) => {
                        out.push(0);
                        chan = ch;
                    }
                    Err(e) => out.extend([1, class(&e)]),
                }
                continue;
            }
            let ch = match chan.as_mut() {
                Some(ch) => ch,
                None => {
                    out.push(-1);
                    continue;
                }
            };
            match (op, ch) {
                (1, Chan::Ctrl(ch)) => unit(&mut out, ch.open()),
                (1, Chan::Recv(ch)) => unit(&mut out, ch.open()),
                (2, Chan::Ctrl(ch)) => unit(&mut out, ch.close()),
                (2, Chan::Recv(ch)) => unit(&mut out, ch.close()),
                (3, Chan::Ctrl(ch)) => out.push(ch.is_opened() as i64),
                (3, Chan::Recv(ch)) => out.push(ch.is_opened() as i64),
                (4, Chan::Ctrl(ch)) => match ch.send(&data, Duration::from_millis(a as u64)) {
                    Ok(n) => out.extend([0, n as i64]),
                    Err(e) => out.extend([1, class(&e)]),
                },
                (5, ch) => {
                    let mut buf = vec![0xCD_u8; a as usize];
                    let r = match ch {
                        Chan::Ctrl(ch) => ch.recv(&mut buf, Duration::from_millis(b as u64)),
                        Chan::Recv(ch) => ch.recv(&mut buf, Duration::from_millis(b as u64)),
                    };
                    match r {
                        Ok(n) => {
                            out.extend([0, n as i64]);
                            out.push(buf.len() as i64);
                            out.extend(buf.iter().map(|x| i64::from(*x)));
                        }
                        Err(e) => out.extend([1, class(&e)]),
                    }
                }
                (6, Chan::Ctrl(ch)) => unit(&mut out, ch.set_halt(Duration::from_millis(a as u64))),
                (6, Chan::Recv(ch)) => unit(&mut out, ch.set_halt(Duration::from_millis(a as u64))),
                (7, Chan::Ctrl(ch)) => unit(&mut out, ch.clear_halt()),
                (7, Chan::Recv(ch)) => unit(&mut out, ch.clear_halt()),
                _ => out.push(-3),
            }
        }
    }));
    if r.is_err() {
        std::mem::forget(chan.take());
        return vec![2];
    }
    out.push(-8);
    out.push(match &chan {
        None => -1,
        Some(Chan::Ctrl(ch)) => ch.is_opened() as i64,
        Some(Chan::Recv(ch)) => ch.is_opened() as i64,
    });
    drop(chan.take());
    out.push(-7);
    out.extend(fake_usb::with(|w| w.log.clone()));
    out
}

fn main() {
    if std::env::var("H_USB_VERBOSE").is_err() { std::panic::set_hook(Box::new(|_| {})); }
    let stdin = std::io::stdin();
    let mut line = String::new();
    loop {
        line.clear();
        if stdin.read_line(&mut line).unwrap_or(0) == 0 {
            break;
        }
        let l = line.trim();
        if l.is_empty() {
            println!();
            continue;
        }
        let mut c = Cur::new(l);
        let out = match c.word() {
            "enum" => run_enum(&mut c),
            "chan" => run_chan(&mut c),
            _ => vec![-99],
        };
        let s: Vec<String> = out.iter().map(|v| v.to_string()).collect();
        println!("{}", s.join(" "));
    }
}
