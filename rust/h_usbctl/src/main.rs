//! `ctl` cases of rust/h_u3v (same line format, same output) run on the REAL stack:
//! cameleon::u3v::enumerate_cameras() -> real cameleon_device::u3v::enumerate_devices() over the fake libusb
//! (one well-formed U3V camera: control interface 0 with endpoints 0x81 / 0x01, event interface 1, stream
//! interface 2 when the world has a stream channel), real ControlChannel / rusb for every transfer; the device
//! side (memory, acknowledges, fault plans, wire log) is `shimdev::u3v::sim::World`, reached through the bulk
//! endpoints of the fake:
//!   claim(0) -> Ev::CtrlOpen (+ the scripted open error)      release(0) -> Ev::CtrlClose
//!   SET_FEATURE(HALT) to 0x81 -> Ev::SetHalt, to 0x01 -> nothing (the shim logs one event per set_halt call)
//!   clear_halt(0x81) -> Ev::ClearHalt, clear_halt(0x01) -> nothing
//!   bulk OUT 0x01 -> World::on_send      bulk IN 0x81 -> World::on_recv (time-out 0 with nothing to receive: never returns)
//! See rust/h_u3v/src/main.rs for the case format.
#[path = "../../h_usb/src/fake_usb.rs"]
mod fake_usb;

use std::panic::{catch_unwind, AssertUnwindSafe};
use std::sync::{Arc, Mutex};

use cameleon::u3v::{ControlHandle, StreamHandle};
use cameleon::{Camera, ControlError, DeviceControl};
use cameleon_device::u3v::{Error, LibUsbError};
use fake_usb::{AltD, ConfD, DevD, EpD, HCall, IfaceD, StrRes};
use shimdev::u3v::sim::{Edit, Ev, Reply, TxPlan, World};

pub enum Tok {
    I(i128),
    B(Vec<u8>),
}

pub fn toks(line: &str) -> Vec<Tok> {
    line.split_whitespace()
        .map(|t| {
            if let Some(h) = t.strip_prefix('x') {
                let b: Vec<u8> = (0..h.len() / 2).map(|i| u8::from_str_radix(&h[2 * i..2 * i + 2], 16).unwrap()).collect();
                Tok::B(b)
            } else {
                Tok::I(t.parse().unwrap())
            }
        })
        .collect()
}

pub struct Cur {
    pub t: Vec<Tok>,
    pub p: usize,
}
impl Cur {
    pub fn int(&mut self) -> i128 {
        let v = match &self.t[self.p] {
            Tok::I(v) => *v,
            Tok::B(_) => panic!("int expected"),
        };
        self.p += 1;
        v
    }
    pub fn bytes(&mut self) -> Vec<u8> {
        let v = match &self.t[self.p] {
            Tok::B(v) => v.clone(),
            Tok::I(_) => panic!("bytes expected"),
        };
        self.p += 1;
        v
    }
    pub fn done(&self) -> bool {
        self.p >= self.t.len()
    }
}

pub fn pattern(len: usize, seed: u64) -> Vec<u8> {
    (0..len).map(|i| ((seed as usize + 7 * i + (i >> 8)) & 255) as u8).collect()
}

pub fn cerr_class(e: &ControlError) -> i128 {
    match e {
        ControlError::Busy => 1,
        ControlError::Disconnected => 2,
        ControlError::Io(_) => 3,
        ControlError::Timeout => 4,
        ControlError::NotOpened => 5,
        ControlError::InvalidDevice(_) => 6,
        ControlError::BufferTooSmall => 7,
        ControlError::InvalidData(_) => 8,
    }
}

pub fn hash(bs: &[u8]) -> i128 {
    let mut h: u64 = 0;
    for b in bs {
        h = (h * 31 + *b as u64) & 0xffff_ffff;
    }
    h as i128
}

pub fn show_data(out: &mut Vec<i128>, d: &[u8]) {
    out.push(d.len() as i128);
    if d.len() <= 64 {
        out.extend(d.iter().map(|b| *b as i128));
    } else {
        out.push(hash(d));
        out.push(d[0] as i128);
        out.push(d[d.len() - 1] as i128);
    }
}

/// identical to rust/h_u3v build_world
pub fn build_world(c: &mut Cur) -> World {
    let mut w = World::new();
    while !c.done() {
        let k = match &c.t[c.p] {
            Tok::I(v) => *v,
            _ => break,
        };
        if k >= 10 {
            break;
        }
        c.p += 1;
        match k {
            1 => {
                let base = c.int() as u64;
                let b = c.bytes();
                w.segs.push((base, b));
            }
            2 => {
                let base = c.int() as u64;
                let len = c.int() as usize;
                let seed = c.int() as u64;
                w.segs.push((base, pattern(len, seed)));
            }
            4 => {
                let addr = c.int() as u64;
                let width = c.int() as usize;
                let v = c.int() as u128;
                let b: Vec<u8> = (0..width).map(|i| ((v >> (8 * i)) & 255) as u8).collect();
                w.mem_write(addr, &b);
            }
            5 => {
                let se = c.int();
                let n = c.int();
                let mut replies = vec![];
                for _ in 0..n {
                    match c.int() {
                        0 => replies.push(Reply::Pending(c.int() as u16)),
                        1 => {
                            let ne = c.int();
                            let mut edits = vec![];
                            for _ in 0..ne {
                                match c.int() {
                                    0 => {
                                        let o = c.int() as usize;
                                        edits.push(Edit::SetU8(o, c.int() as u8))
                                    }
                                    1 => {
                                        let o = c.int() as usize;
                                        edits.push(Edit::SetU16(o, c.int() as u16))
                                    }
                                    2 => edits.push(Edit::Truncate(c.int() as usize)),
                                    3 => edits.push(Edit::Extend(c.bytes())),
                                    _ => edits.push(Edit::ResizeScd(c.int() as usize)),
                                }
                            }
                            replies.push(Reply::Conform(edits))
                        }
                        2 => replies.push(Reply::Raw(c.bytes())),
                        4 => replies.push(Reply::Wait(c.int() as u32)),
                        _ => replies.push(Reply::RecvErr(c.int() as u8)),
                    }
                }
                w.plans.push_back(TxPlan { send_err: if se < 0 { None } else { Some(se as u8) }, replies });
            }
            6 => {
                for _ in 0..c.int() {
                    w.plans.push_back(TxPlan { send_err: None, replies: vec![Reply::Conform(vec![])] });
                }
            }
            7 => w.open_err = Some(c.int() as u8),
            8 => w.has_stream = c.int() != 0,
            _ => panic!("bad world item"),
        }
    }
    w
}

const CTRL_IN: u8 = 0x81;
const CTRL_OUT: u8 = 0x01;

/// the libusb return code that rusb turns back into this error
fn code_of(e: &Error) -> i32 {
    match e {
        Error::LibUsb(l) => match l {
            LibUsbError::Io => -1,
            LibUsbError::InvalidParam => -2,
            LibUsbError::Access => -3,
            LibUsbError::NoDevice => -4,
            LibUsbError::NotFound => -5,
            LibUsbError::Busy => -6,
            LibUsbError::Timeout => -7,
            LibUsbError::Overflow => -8,
            LibUsbError::Pipe => -9,
            LibUsbError::Interrupted => -10,
            LibUsbError::NoMem => -11,
            LibUsbError::NotSupported => -12,
            LibUsbError::BadDescriptor | LibUsbError::Other => -99,
        },
        _ => -99,
    }
}

fn camera_desc(has_stream: bool) -> DevD {
    let ep = |addr: u8| EpD { addr, attrs: 2, extra: vec![] };
    let mut info = vec![20_u8, 0x24, 0x01, 0, 0, 1, 0, 0, 0, 1, 0];
    info.extend_from_slice(&[1, 2, 3, 0, 4, 5, 6, 0, 0b1000]);
    let alt = |num: u8, proto: u8, extra: Vec<u8>, eps: Vec<EpD>| IfaceD {
        alts: vec![AltD { num, setting: 0, cls: 0xEF, sub: 5, proto, extra, eps }],
    };
    let mut ifaces = vec![alt(0, 0, info, vec![ep(CTRL_IN), ep(CTRL_OUT)]), alt(1, 1, vec![], vec![ep(0x82)])];
    if has_stream {
        ifaces.push(alt(2, 2, vec![], vec![ep(0x83)]));
    }
    let n = ifaces.len() as u8;
    DevD {
        cls: 0xEF,
        sub: 2,
        proto: 1,
        nconf: 1,
        confs: vec![ConfD { err: 0, value: 1, extra: vec![8, 0x0B, 0, n, 0xEF, 5, 0, 0], ifaces }],
        getcfg_val: 1,
        strs: (1..=6).map(|i| (i, StrRes::Bytes(format!("sim{}", i).into_bytes()))).collect(),
        ..DevD::default()
    }
}

pub fn make_camera(w: World) -> (Arc<Mutex<World>>, Camera<ControlHandle, StreamHandle>) {
    let has_stream = w.has_stream;
    let world = Arc::new(Mutex::new(w));
    fake_usb::install(1, vec![camera_desc(has_stream)]);
    let dev_side = world.clone();
    fake_usb::with(|f| {
        f.backend = Some(Box::new(move |_d, call| {
            let mut w = dev_side.lock().unwrap();
            match call {
                HCall::Claim(0) => {
                    w.log.push(Ev::CtrlOpen);
                    (w.open_err.map(|e| code_of(&shimdev::u3v::sim::usb_err(e))).unwrap_or(0), 0)
                }
                HCall::Release(0) => {
                    w.log.push(Ev::CtrlClose);
                    (0, 0)
                }
                HCall::Control { index } if index == u16::from(CTRL_IN) => {
                    w.log.push(Ev::SetHalt);
                    (w.halt_err.map(|e| code_of(&shimdev::u3v::sim::usb_err(e))).unwrap_or(0), 0)
                }
                HCall::ClearHalt(CTRL_IN) => {
                    w.log.push(Ev::ClearHalt);
                    (0, 0)
                }
                HCall::Bulk { ep: CTRL_OUT, buf, .. } => match w.on_send(buf) {
                    Ok(n) => (0, n as i32),
                    Err(e) => (code_of(&e), 0),
                },
                HCall::Bulk { ep: CTRL_IN, buf, timeout } => {
                    // libusb: a time-out of 0 waits without limit; when nothing will ever arrive the call never
                    // returns (the harness' watchdog reports the hang), exactly as the fake channel of rust/shim
                    match w.gate(std::time::Duration::from_millis(timeout as u64)) {
                        shimdev::u3v::sim::Gate::Forever => {
                            drop(w);
                            loop {
                                std::thread::sleep(std::time::Duration::from_secs(3600));
                            }
                        }
                        shimdev::u3v::sim::Gate::TimedOut => (-7, 0),
                        shimdev::u3v::sim::Gate::Go => match w.on_recv(buf) {
                            Ok(n) => (0, n as i32),
                            Err(e) => (code_of(&e), 0),
                        },
                    }
                }
                HCall::Bulk { .. } => (-7, 0),
                _ => (0, 0),
            }
        }));
    });
    let mut cams = cameleon::u3v::enumerate_cameras().expect("enumerate");
    (world, cams.pop().expect("one camera"))
}

fn res_unit(out: &mut Vec<i128>, r: Result<Result<(), ControlError>, ()>) {
    match r {
        Ok(Ok(())) => out.extend([1, 0]),
        Ok(Err(e)) => out.extend([2, 1, cerr_class(&e)]),
        Err(()) => out.extend([1, 2]),
    }
}

pub fn show_wire(out: &mut Vec<i128>, world: &Arc<Mutex<World>>) {
    let w = world.lock().unwrap();
    out.push(-7);
    for e in &w.log {
        match e {
            Ev::Send(b) => {
                let u16at = |o: usize| if b.len() >= o + 2 { u16::from_le_bytes([b[o], b[o + 1]]) as i128 } else { -1 };
                out.extend([1, b.len() as i128, u16at(6), u16at(10), u16at(8)]);
            }
            Ev::Recv(n) => out.extend([2, if *n == usize::MAX { -1 } else { *n as i128 }]),
            Ev::CtrlOpen => out.push(3),
            Ev::CtrlClose => out.push(4),
            Ev::SetHalt => out.push(5),
            Ev::ClearHalt => out.push(6),
            _ => {}
        }
    }
    out.push(-8);
    out.push(w.mem_writes.len() as i128);
    for (a, d) in &w.mem_writes {
        out.push(*a as i128);
        show_data(out, d);
    }
}

/// identical to rust/h_u3v run_ctl
fn run_ctl(c: &mut Cur) -> Vec<i128> {
    let w = build_world(c);
    let (world, mut cam) = make_camera(w);
    let mut out = vec![];
    let mut panicked = false;
    while !c.done() && !panicked {
        let op = c.int();
        let ctrl = &mut cam.ctrl;
        let before = out.len();
        match op {
            10 => res_unit(&mut out, catch_unwind(AssertUnwindSafe(|| ctrl.open())).map_err(|_| ())),
            11 => {
                let addr = c.int() as u64;
                let len = c.int() as usize;
                let mut buf = vec![0xCDu8; len];
                match catch_unwind(AssertUnwindSafe(|| ctrl.read(addr, &mut buf))) {
                    Ok(Ok(())) => {
                        let mut o = vec![0];
                        show_data(&mut o, &buf);
                        out.push(o.len() as i128);
                        out.extend(o);
                    }
                    Ok(Err(e)) => out.extend([2, 1, cerr_class(&e)]),
                    Err(_) => out.extend([1, 2]),
                }
            }
            12 | 19 => {
                let addr = c.int() as u64;
                let data = if op == 12 {
                    c.bytes()
                } else {
                    let len = c.int() as usize;
                    let seed = c.int() as u64;
                    pattern(len, seed)
                };
                res_unit(&mut out, catch_unwind(AssertUnwindSafe(|| ctrl.write(addr, &data))).map_err(|_| ()));
            }
            13 => res_unit(&mut out, catch_unwind(AssertUnwindSafe(|| ctrl.enable_streaming())).map_err(|_| ())),
            14 => res_unit(&mut out, catch_unwind(AssertUnwindSafe(|| ctrl.disable_streaming())).map_err(|_| ())),
            15 => match catch_unwind(AssertUnwindSafe(|| ctrl.genapi())) {
                Ok(Ok(s)) => {
                    let mut o = vec![0];
                    show_data(&mut o, s.as_bytes());
                    out.push(o.len() as i128);
                    out.extend(o);
                }
                Ok(Err(e)) => out.extend([2, 1, cerr_class(&e)]),
                Err(_) => out.extend([1, 2]),
            },
            16 => res_unit(&mut out, catch_unwind(AssertUnwindSafe(|| ctrl.close())).map_err(|_| ())),
            17 => {
                let n = c.int() as u16;
                ctrl.set_retry_count(n);
                out.extend([1, 0]);
            }
            18 => match catch_unwind(AssertUnwindSafe(|| cameleon::u3v::StreamParams::from_control(ctrl))) {
                Ok(Ok(p)) => out.extend([
                    7,
                    0,
                    p.leader_size as i128,
                    p.trailer_size as i128,
                    p.payload_size as i128,
                    p.payload_count as i128,
                    p.payload_final1_size as i128,
                    p.payload_final2_size as i128,
                ]),
                Ok(Err(e)) => out.extend([2, 1, cerr_class(&e)]),
                Err(_) => out.extend([1, 2]),
            },
            20 => {
                let addr = c.int() as u64;
                let len = c.int() as usize;
                let w = world.lock().unwrap();
                match w.mem_read(addr, len) {
                    Some(d) => {
                        let mut o = vec![0];
                        show_data(&mut o, &d);
                        out.push(o.len() as i128);
                        out.extend(o);
                    }
                    None => out.extend([2, 1, 99]),
                }
            }
            _ => panic!("bad op {}", op),
        }
        if out[before..] == [1, 2] {
            panicked = true;
        }
    }
    std::mem::forget(cam); // Drop would talk to the device again; the log is printed first anyway
    show_wire(&mut out, &world);
    out
}

fn main() {
    if std::env::var("H_USB_VERBOSE").is_err() {
        std::panic::set_hook(Box::new(|_| {}));
    }
    let stdin = std::io::stdin();
    let mut line = String::new();
    loop {
        line.clear();
        if stdin.read_line(&mut line).unwrap_or(0) == 0 {
            break;
        }
        let l = line.trim();
        if l.is_empty() {
            println!();
            continue;
        }
        let (kind, rest) = match l.find(' ') {
            Some(i) => (&l[..i], &l[i + 1..]),
            None => (l, ""),
        };
        let mut c = Cur { t: toks(rest), p: 0 };
        let r = catch_unwind(AssertUnwindSafe(|| match kind {
            "ctl" => run_ctl(&mut c),
            _ => vec![-99],
        }));
        let out = r.unwrap_or_else(|_| vec![-98]);
        let s: Vec<String> = out.iter().map(|v| v.to_string()).collect();
        println!("{}", s.join(" "));
    }
}
