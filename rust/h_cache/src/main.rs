// C04 harness: runs one operation history TWICE on the real /repo/genapi code - once with the context
// built by GenApiBuilder::default() (DefaultCacheStore) and once with .no_cache() (CacheSink) - against
// identical recording devices, and prints both observations.
//
// line:  c x<xml utf8 hex> <base> x<image hex> op op ...
//   device memory is [base, base + |image|); accesses outside fail with a device error (always).
//   ops (node by name):
//     v:N            value() through IInteger, else IFloat (f64 bits), else IString
//     s:N:i:<int>    set_value through IInteger (i64), else IFloat (the integer is the f64 bit pattern)
//     s:N:h:<hex>    set_value through IString
//     rr:N:len       IRegister::read into a buffer of len bytes
//     rw:N:<hex>     IRegister::write
//     ex:N  dn:N     ICommand::execute / is_done
//     cc             ValueCtxt::clear_cache
//     rej:k          the k-th next device WRITE access (0 = next) fails (transient)
// output: <cached run> -9 <uncached run>; a run is: for every op a length-prefixed result
//   (0 payload | 1 eclass | 2 panic), then -7, number of log entries, entries
//   (0 addr len | 1 addr len bytes... | 2 = start of the next operation), then -8, final image.
use cameleon_genapi::builder::GenApiBuilder;
use cameleon_genapi::interface::*;
use cameleon_genapi::store::{CacheStore, DefaultNodeStore, NodeId, NodeStore, ValueStore};
use cameleon_genapi::{Device, GenApiError, GenApiResult, ValueCtxt};
use std::io::{BufRead, Write};
use std::panic::{catch_unwind, AssertUnwindSafe};

struct Dev {
    base: i64,
    mem: Vec<u8>,
    log: Vec<Vec<i128>>,
    reject: Vec<usize>,
    wcount: usize,
}

type DevErr = Box<dyn std::error::Error + Send + Sync>;

impl Dev {
    fn range(&self, address: i64, len: usize) -> Result<usize, DevErr> {
        let off = (address as i128) - (self.base as i128);
        if off < 0 || off + len as i128 > self.mem.len() as i128 {
            return Err("address out of device memory".into());
        }
        Ok(off as usize)
    }
}

impl Device for Dev {
    fn read_mem(&mut self, address: i64, buf: &mut [u8]) -> Result<(), DevErr> {
        self.log.push(vec![0, address as i128, buf.len() as i128]);
        let off = self.range(address, buf.len())?;
        buf.copy_from_slice(&self.mem[off..off + buf.len()]);
        Ok(())
    }
    fn write_mem(&mut self, address: i64, data: &[u8]) -> Result<(), DevErr> {
        let mut e = vec![1, address as i128, data.len() as i128];
        e.extend(data.iter().map(|b| *b as i128));
        self.log.push(e);
        let idx = self.wcount;
        self.wcount += 1;
        if self.reject.contains(&idx) {
            return Err("scripted rejection".into());
        }
        let off = self.range(address, data.len())?;
        self.mem[off..off + data.len()].copy_from_slice(data);
        Ok(())
    }
}

fn eclass(e: &GenApiError) -> i128 {
    match e {
        GenApiError::Device(_) => 30,
        GenApiError::NotWritable => 31,
        GenApiError::InvalidNode(_) => 32,
        GenApiError::InvalidData(_) => 33,
        GenApiError::ChunkDataMissing => 34,
        GenApiError::InvalidBuffer(_) => 35,
    }
}

fn hex(s: &str) -> Vec<u8> {
    if s == "-" {
        return vec![];
    }
    (0..s.len() / 2).map(|i| u8::from_str_radix(&s[2 * i..2 * i + 2], 16).unwrap()).collect()
}

fn res<T>(r: GenApiResult<T>, sh: impl Fn(T) -> Vec<i128>) -> Vec<i128> {
    match r {
        Ok(x) => {
            let mut v = vec![0];
            v.extend(sh(x));
            v
        }
        Err(e) => vec![1, eclass(&e)],
    }
}

const NO_IFACE: i128 = 90;
const NO_NODE: i128 = 91;

fn fbits(x: f64) -> i128 {
    if x.is_nan() {
        0x7ff8_0000_0000_0000
    } else {
        x.to_bits() as i128
    }
}

fn run_op<T: ValueStore, U: CacheStore>(
    op: &str,
    dev: &mut Dev,
    store: &DefaultNodeStore,
    cx: &mut ValueCtxt<T, U>,
) -> Vec<i128> {
    let p: Vec<&str> = op.split(':').collect();
    if p[0] == "cc" {
        cx.clear_cache();
        return vec![0];
    }
    if p[0] == "rej" {
        let k: usize = p[1].parse().unwrap();
        dev.reject.push(dev.wcount + k);
        return vec![0];
    }
    let nid: NodeId = match store.id_by_name(p[1]) {
        Some(n) if store.node_opt(n).is_some() => n,
        _ => return vec![1, NO_NODE],
    };
    let unit = |_: ()| vec![];
    match p[0] {
        "v" => {
            if let Some(n) = nid.as_iinteger_kind(store) {
                res(n.value(dev, store, cx), |x| vec![x as i128])
            } else if let Some(n) = nid.as_ifloat_kind(store) {
                res(n.value(dev, store, cx), |x| vec![fbits(x)])
            } else if let Some(n) = nid.as_istring_kind(store) {
                res(n.value(dev, store, cx), |x| {
                    let mut v = vec![x.len() as i128];
                    v.extend(x.bytes().map(|b| b as i128));
                    v
                })
            } else {
                vec![1, NO_IFACE]
            }
        }
        "s" => {
            if p[2] == "i" {
                let x: i64 = p[3].parse().unwrap();
                if let Some(n) = nid.as_iinteger_kind(store) {
                    res(n.set_value(x, dev, store, cx), unit)
                } else if let Some(n) = nid.as_ifloat_kind(store) {
                    res(n.set_value(f64::from_bits(x as u64), dev, store, cx), unit)
                } else {
                    vec![1, NO_IFACE]
                }
            } else if let Some(n) = nid.as_istring_kind(store) {
                let s = String::from_utf8(hex(p[3])).unwrap();
                res(n.set_value(s, dev, store, cx), unit)
            } else {
                vec![1, NO_IFACE]
            }
        }
        "rr" => match nid.as_iregister_kind(store) {
            Some(n) => {
                let mut buf = vec![0u8; p[2].parse().unwrap()];
                let r = n.read(&mut buf, dev, store, cx);
                res(r, |_| buf.iter().map(|b| *b as i128).collect())
            }
            None => vec![1, NO_IFACE],
        },
        "rw" => match nid.as_iregister_kind(store) {
            Some(n) => res(n.write(&hex(p[2]), dev, store, cx), unit),
            None => vec![1, NO_IFACE],
        },
        "ex" => match nid.as_icommand_kind(store) {
            Some(n) => res(n.execute(dev, store, cx), unit),
            None => vec![1, NO_IFACE],
        },
        // the other feature interfaces (the cached / uncached comparison needs no model of them)
        "vb" => match nid.as_iboolean_kind(store) {
            Some(n) => res(n.value(dev, store, cx), |x| vec![x as i128]),
            None => vec![1, NO_IFACE],
        },
        "sb" => match nid.as_iboolean_kind(store) {
            Some(n) => res(n.set_value(p[2] == "1", dev, store, cx), unit),
            None => vec![1, NO_IFACE],
        },
        "ve" => match nid.as_ienumeration_kind(store) {
            Some(n) => res(n.current_value(dev, store, cx), |x| vec![x as i128]),
            None => vec![1, NO_IFACE],
        },
        "se" => match nid.as_ienumeration_kind(store) {
            Some(n) => res(n.set_entry_by_value(p[2].parse().unwrap(), dev, store, cx), unit),
            None => vec![1, NO_IFACE],
        },
        "sn" => match nid.as_ienumeration_kind(store) {
            Some(n) => res(n.set_entry_by_symbolic(p[2], dev, store, cx), unit),
            None => vec![1, NO_IFACE],
        },
        "dn" => match nid.as_icommand_kind(store) {
            Some(n) => res(n.is_done(dev, store, cx), |x| vec![x as i128]),
            None => vec![1, NO_IFACE],
        },
        k => panic!("unknown op {}", k),
    }
}

fn run_history<T: ValueStore, U: CacheStore>(
    ops: &[&str],
    dev: &mut Dev,
    store: &DefaultNodeStore,
    cx: &mut ValueCtxt<T, U>,
) -> Vec<i128> {
    let mut out = vec![];
    for op in ops {
        dev.log.push(vec![2]); // operation boundary
        let r = catch_unwind(AssertUnwindSafe(|| run_op(op, dev, store, cx))).unwrap_or_else(|_| vec![2]);
        out.push(r.len() as i128);
        out.extend(r);
    }
    out
}

fn show_dev(out: &mut Vec<i128>, dev: &Dev) {
    out.push(-7);
    out.push(dev.log.len() as i128);
    for e in &dev.log {
        out.extend(e.iter());
    }
    out.push(-8);
    out.extend(dev.mem.iter().map(|b| *b as i128));
}

fn run(t: &[&str]) -> Vec<i128> {
    let xml = String::from_utf8(hex(&t[1][1..])).unwrap();
    let base: i64 = t[2].parse().unwrap();
    let image = hex(&t[3][1..]);
    let ops = &t[4..];
    let mut out = vec![];
    {
        let mut dev = Dev { base, mem: image.clone(), log: vec![], reject: vec![], wcount: 0 };
        match GenApiBuilder::<DefaultNodeStore>::default().build(&xml) {
            Err(_) => return vec![1, 99],
            Ok((_, store, mut cx)) => out.extend(run_history(ops, &mut dev, &store, &mut cx)),
        }
        show_dev(&mut out, &dev);
    }
    out.push(-9);
    {
        let mut dev = Dev { base, mem: image, log: vec![], reject: vec![], wcount: 0 };
        match GenApiBuilder::<DefaultNodeStore>::default().no_cache().build(&xml) {
            Err(_) => return vec![1, 99],
            Ok((_, store, mut cx)) => out.extend(run_history(ops, &mut dev, &store, &mut cx)),
        }
        show_dev(&mut out, &dev);
    }
    out
}

fn main() {
    std::panic::set_hook(Box::new(|_| {}));
    let stdin = std::io::stdin();
    let stdout = std::io::stdout();
    let mut out = std::io::BufWriter::new(stdout.lock());
    for line in stdin.lock().lines() {
        let line = line.unwrap();
        let t: Vec<&str> = line.split_whitespace().collect();
        if t.is_empty() {
            continue;
        }
        let r = catch_unwind(AssertUnwindSafe(|| run(&t))).unwrap_or_else(|_| vec![2]);
        let s: Vec<String> = r.iter().map(|x| x.to_string()).collect();
        writeln!(out, "{}", s.join(" ")).unwrap();
        out.flush().unwrap();
    }
}
