//! An in-memory fake of libusb for rust/h_async: the binary defines every `libusb_*` symbol that
//! `rusb` / `cameleon-device` reference (#[no_mangle] extern "C"), so the linker never takes the
//! real libusb objects.  The real `cameleon_device::u3v::{enumerate_devices, ReceiveChannel,
//! async_read::AsyncPool}` of /repo/device run unmodified on top of it.
//!
//! Enumeration / descriptor part: one U3V device (control + stream interface), everything succeeds.
//! Asynchronous part: a scripted device.  Every `libusb_submit_transfer` call takes the next plan
//! entry: refuse with a libusb error code, or accept with a completion (status, length, number of
//! harness poll operations it stays in flight, cancellation latency).  Every
//! `libusb_handle_events_locked` call (the only event-handling entry point `poll_completed` of
//! async_read.rs uses) takes the next entry of the event plan: a libusb error code is returned at
//! once and nothing is handled (LIBUSB_ERROR_INTERRUPTED = -10 is what a signal gives); 0 (also past
//! the end of the plan) handles events: every in-flight transfer that is due completes, a transfer
//! whose cancellation was requested completes with status CANCELLED once `clat` successful
//! event-handling calls have gone by since (clat = 0: at the next one), and the callbacks run.
//! `libusb_cancel_transfer` succeeds on in-flight transfers only.
//!
//! The events lock: what the OTHER threads of the process do with it is scripted per round of
//! `poll_completed`'s loop (one `libusb_try_lock_events` call = one round = the next entry of the
//! lock plan; past the end: `Own`).
//!  * `Own`: `libusb_try_lock_events` returns 0, the code handles events itself (above).
//!  * `HeldActive(n)`: it returns 1 (another thread is handling events), `libusb_event_handler_active`
//!    answers 1, and `libusb_wait_for_event(tv)` returns 0 after `n` virtual microseconds if n < tv:
//!    the other thread has handled events by then - every transfer of OUR pool that is due or whose
//!    cancellation latency has run out completes exactly as in a successful
//!    `libusb_handle_events_locked` call (the callbacks run on the other thread's behalf) - and has
//!    woken the waiters; with n >= tv the wait times out (returns 1, the clock moves by tv + 1 us,
//!    nothing of ours was handled).
//!  * `HeldGone`: it returns 1 because the lock was taken at that instant, but the holder has left
//!    by the time the waiters lock is held: `libusb_event_handler_active` answers 0.  The protocol
//!    (libusb_mtasync "threadwait") says: do not wait, go round again.  A `libusb_wait_for_event`
//!    call in this situation finds nobody to wake it and nobody handling events: it sleeps for the
//!    whole timeval (the clock moves by tv + 1 us) and nothing is handled; counted in
//!    `waits_no_handler`.
//!
//! Time: the process runs on a VIRTUAL monotonic clock (`clock_gettime(CLOCK_MONOTONIC)` is defined
//! here, so `std::time::Instant` of the code under test reads it).  It only moves when an
//! event-handling call finds nothing to complete: like libusb, the call then blocks for the whole
//! timeval it was given - here by advancing the clock by that timeval (+ 1 us), without sleeping -,
//! and in `libusb_wait_for_event` (above).
//! `poll_completed`'s deadline therefore passes after exactly one such call, the 1 s time-out of
//! `Drop for AsyncPool` costs nothing, and every case is deterministic.
#![allow(non_camel_case_types, non_snake_case, dead_code, clippy::all)]
use std::collections::VecDeque;
use std::os::raw::{c_char, c_int, c_uint, c_void};
use std::sync::atomic::{AtomicU64, Ordering};
use std::sync::Mutex;

pub const TRANSFER_COMPLETED: c_int = 0;
pub const TRANSFER_CANCELLED: c_int = 3;
pub const ERROR_NOT_FOUND: c_int = -5;
pub const ERROR_TIMEOUT: c_int = -7;

#[repr(C)]
pub struct Transfer {
    dev_handle: *mut c_void,
    flags: u8,
    endpoint: u8,
    transfer_type: u8,
    timeout: c_uint,
    pub status: c_int,
    pub length: c_int,
    pub actual_length: c_int,
    callback: Option<extern "system" fn(*mut Transfer)>,
    user_data: *mut c_void,
    pub buffer: *mut u8,
    num_iso_packets: c_int,
}

#[repr(C)]
pub struct TimeVal {
    tv_sec: i64,
    tv_usec: i64,
}

/// What happens to one `libusb_submit_transfer` call.
#[derive(Clone, Copy, Debug)]
pub enum Plan {
    /// refused with this libusb error code (negative)
    Refuse(c_int),
    /// accepted; completes with (status, length) once `delay` further poll operations of the
    /// harness have begun (0: at the first event handling); when cancelled it completes with
    /// CANCELLED after `clat` further successful event-handling calls
    Accept { status: c_int, len: usize, delay: u64, clat: u64 },
}

pub struct InFlight {
    pub ptr: usize,
    pub index: usize, // number of the accepted transfer (0 based): seeds its data
    pub status: c_int,
    pub len: usize,
    pub due: u64, // poll epoch at which it completes
    pub clat: u64, // successful event-handling calls a requested cancellation still takes
    pub cancel: bool,
}

/// What the other threads do with the events lock during one round of `poll_completed`.
#[derive(Clone, Copy, Debug, PartialEq)]
pub enum Lock {
    Own,
    HeldGone,
    /// the other handler handles events `n` virtual microseconds after the wait began
    HeldActive(u64),
}

pub struct State {
    pub plan: VecDeque<Plan>,
    /// return codes of the coming `libusb_handle_events_locked` calls (past the end: 0)
    pub evplan: VecDeque<c_int>,
    pub event_calls: usize,
    /// the coming rounds of `poll_completed` (past the end: Own)
    pub lockplan: VecDeque<Lock>,
    /// the round that is under way (set by `libusb_try_lock_events`)
    pub round: Lock,
    pub trylock_calls: usize,
    pub trylock_failed: usize,
    pub waits: usize,
    /// `libusb_wait_for_event` calls made while no event handler was active
    pub waits_no_handler: usize,
    pub inflight: Vec<InFlight>,
    pub submit_calls: usize,
    pub accepted: usize,
    pub refused: usize,
    pub completed: usize,
    pub cancel_not_found: usize,
    pub freed_while_inflight: usize,
}

pub static STATE: Mutex<State> = Mutex::new(State {
    plan: VecDeque::new(),
    evplan: VecDeque::new(),
    event_calls: 0,
    lockplan: VecDeque::new(),
    round: Lock::Own,
    trylock_calls: 0,
    trylock_failed: 0,
    waits: 0,
    waits_no_handler: 0,
    inflight: Vec::new(),
    submit_calls: 0,
    accepted: 0,
    refused: 0,
    completed: 0,
    cancel_not_found: 0,
    freed_while_inflight: 0,
});

/// Number of poll operations the harness has begun.
pub static EPOCH: AtomicU64 = AtomicU64::new(0);

pub fn state() -> std::sync::MutexGuard<'static, State> {
    STATE.lock().unwrap_or_else(|e| e.into_inner())
}

/// an entry of the lock plan as the case line gives it: 1 = HeldGone, 2 + n = HeldActive(n), else Own
pub fn lock_of(tok: i64) -> Lock {
    if tok == 1 {
        Lock::HeldGone
    } else if tok >= 2 {
        Lock::HeldActive((tok - 2) as u64)
    } else {
        Lock::Own
    }
}

pub fn reset(plan: Vec<Plan>, evplan: Vec<c_int>, lockplan: Vec<Lock>) {
    let mut st = state();
    st.plan = plan.into_iter().collect();
    st.evplan = evplan.into_iter().collect();
    st.event_calls = 0;
    st.lockplan = lockplan.into_iter().collect();
    st.round = Lock::Own;
    st.trylock_calls = 0;
    st.trylock_failed = 0;
    st.waits = 0;
    st.waits_no_handler = 0;
    CLOCK0_NS.store(VCLOCK_NS.load(Ordering::SeqCst), Ordering::SeqCst);
    st.inflight.clear();
    st.submit_calls = 0;
    st.accepted = 0;
    st.refused = 0;
    st.completed = 0;
    st.cancel_not_found = 0;
    st.freed_while_inflight = 0;
    EPOCH.store(0, Ordering::SeqCst);
}

/// bytes the device puts into the buffer of the accepted transfer number `index`
pub fn pattern(index: usize, len: usize) -> Vec<u8> {
    (0..len).map(|i| ((index * 37 + 11 + 3 * i) & 255) as u8).collect()
}

// ---- descriptors -------------------------------------------------------------------------
#[repr(C)]
pub struct DeviceDescriptor {
    bLength: u8,
    bDescriptorType: u8,
    bcdUSB: u16,
    bDeviceClass: u8,
    bDeviceSubClass: u8,
    bDeviceProtocol: u8,
    bMaxPacketSize0: u8,
    idVendor: u16,
    idProduct: u16,
    bcdDevice: u16,
    iManufacturer: u8,
    iProduct: u8,
    iSerialNumber: u8,
    bNumConfigurations: u8,
}

#[repr(C)]
pub struct ConfigDescriptor {
    bLength: u8,
    bDescriptorType: u8,
    wTotalLength: u16,
    bNumInterfaces: u8,
    bConfigurationValue: u8,
    iConfiguration: u8,
    bmAttributes: u8,
    bMaxPower: u8,
    interface: *const Interface,
    extra: *const u8,
    extra_length: c_int,
}

#[repr(C)]
pub struct Interface {
    altsetting: *const InterfaceDescriptor,
    num_altsetting: c_int,
}

#[repr(C)]
pub struct InterfaceDescriptor {
    bLength: u8,
    bDescriptorType: u8,
    bInterfaceNumber: u8,
    bAlternateSetting: u8,
    bNumEndpoints: u8,
    bInterfaceClass: u8,
    bInterfaceSubClass: u8,
    bInterfaceProtocol: u8,
    iInterface: u8,
    endpoint: *const EndpointDescriptor,
    extra: *const u8,
    extra_length: c_int,
}

#[repr(C)]
pub struct EndpointDescriptor {
    bLength: u8,
    bDescriptorType: u8,
    bEndpointAddress: u8,
    bmAttributes: u8,
    wMaxPacketSize: u16,
    bInterval: u8,
    bRefresh: u8,
    bSynchAddress: u8,
    extra: *const u8,
    extra_length: c_int,
}

#[repr(C)]
pub struct Version {
    major: u16,
    minor: u16,
    micro: u16,
    nano: u16,
    rc: *const c_char,
    describe: *const c_char,
}

fn leak<T>(v: T) -> *const T {
    Box::into_raw(Box::new(v))
}

fn leak_bytes(v: Vec<u8>) -> (*const u8, c_int) {
    let len = v.len() as c_int;
    (Box::leak(v.into_boxed_slice()).as_ptr(), len)
}

fn endpoint(addr: u8) -> EndpointDescriptor {
    EndpointDescriptor {
        bLength: 7,
        bDescriptorType: 5,
        bEndpointAddress: addr,
        bmAttributes: 0x02, // bulk
        wMaxPacketSize: 1024,
        bInterval: 0,
        bRefresh: 0,
        bSynchAddress: 0,
        extra: std::ptr::null(),
        extra_length: 0,
    }
}

fn build_config() -> *const ConfigDescriptor {
    // Interface association descriptor of a U3V function: interfaces 0..2.
    let (iad, iad_len) = leak_bytes(vec![8, 0x0B, 0, 2, 0xEF, 0x05, 0x00, 0]);
    // U3V device info descriptor, embedded after the control interface descriptor.
    let mut info = vec![20_u8, 0x24, 0x01];
    info.extend_from_slice(&1_u16.to_le_bytes()); // gencp minor
    info.extend_from_slice(&1_u16.to_le_bytes()); // gencp major
    info.extend_from_slice(&0_u16.to_le_bytes()); // u3v minor
    info.extend_from_slice(&1_u16.to_le_bytes()); // u3v major
    info.extend_from_slice(&[1, 2, 3, 0, 4, 5, 6, 0]); // string indices
    info.push(0b1000); // super speed
    let (info, info_len) = leak_bytes(info);

    let ctrl_eps = Box::leak(Box::new([endpoint(0x81), endpoint(0x01)])).as_ptr();
    let strm_eps = Box::leak(Box::new([endpoint(0x82)])).as_ptr();

    let ctrl_alt = leak(InterfaceDescriptor {
        bLength: 9,
        bDescriptorType: 4,
        bInterfaceNumber: 0,
        bAlternateSetting: 0,
        bNumEndpoints: 2,
        bInterfaceClass: 0xEF,
        bInterfaceSubClass: 0x05,
        bInterfaceProtocol: 0x00,
        iInterface: 0,
        endpoint: ctrl_eps,
        extra: info,
        extra_length: info_len,
    });
    let strm_alt = leak(InterfaceDescriptor {
        bLength: 9,
        bDescriptorType: 4,
        bInterfaceNumber: 1,
        bAlternateSetting: 0,
        bNumEndpoints: 1,
        bInterfaceClass: 0xEF,
        bInterfaceSubClass: 0x05,
        bInterfaceProtocol: 0x02,
        iInterface: 0,
        endpoint: strm_eps,
        extra: std::ptr::null(),
        extra_length: 0,
    });
    let ifaces = Box::leak(Box::new([
        Interface {
            altsetting: ctrl_alt,
            num_altsetting: 1,
        },
        Interface {
            altsetting: strm_alt,
            num_altsetting: 1,
        },
    ]))
    .as_ptr();

    leak(ConfigDescriptor {
        bLength: 9,
        bDescriptorType: 2,
        wTotalLength: 0,
        bNumInterfaces: 2,
        bConfigurationValue: 1,
        iConfiguration: 0,
        bmAttributes: 0x80,
        bMaxPower: 50,
        interface: ifaces,
        extra: iad,
        extra_length: iad_len,
    })
}

fn dummy() -> *mut c_void {
    Box::into_raw(Box::new(0_u64)).cast()
}

// ---- library / enumeration ---------------------------------------------------------------
#[no_mangle]
pub unsafe extern "C" fn libusb_init(ctx: *mut *mut c_void) -> c_int {
    if !ctx.is_null() {
        *ctx = dummy();
    }
    0
}
#[no_mangle]
pub extern "C" fn libusb_exit(_ctx: *mut c_void) {}
#[no_mangle]
pub extern "C" fn libusb_set_debug(_ctx: *mut c_void, _level: c_int) {}
#[no_mangle]
pub extern "C" fn libusb_set_option(_ctx: *mut c_void, _option: u32) -> c_int {
    0
}
#[no_mangle]
pub extern "C" fn libusb_get_version() -> *const Version {
    leak(Version {
        major: 1,
        minor: 0,
        micro: 26,
        nano: 0,
        rc: b"\0".as_ptr().cast(),
        describe: b"fake\0".as_ptr().cast(),
    })
}
#[no_mangle]
pub extern "C" fn libusb_has_capability(_cap: u32) -> c_int {
    0
}
#[no_mangle]
pub extern "C" fn libusb_error_name(_code: c_int) -> *const c_char {
    b"FAKE_ERROR\0".as_ptr().cast()
}
#[no_mangle]
pub unsafe extern "C" fn libusb_get_device_list(
    _ctx: *mut c_void,
    list: *mut *const *mut c_void,
) -> isize {
    let devs = Box::leak(Box::new([dummy(), std::ptr::null_mut()]));
    *list = devs.as_ptr();
    1
}
#[no_mangle]
pub extern "C" fn libusb_free_device_list(_list: *const *mut c_void, _unref: c_int) {}
#[no_mangle]
pub extern "C" fn libusb_ref_device(dev: *mut c_void) -> *mut c_void {
    dev
}
#[no_mangle]
pub extern "C" fn libusb_unref_device(_dev: *mut c_void) {}
#[no_mangle]
pub unsafe extern "C" fn libusb_get_device_descriptor(
    _dev: *mut c_void,
    desc: *mut DeviceDescriptor,
) -> c_int {
    *desc = DeviceDescriptor {
        bLength: 18,
        bDescriptorType: 1,
        bcdUSB: 0x0300,
        bDeviceClass: 0xEF,
        bDeviceSubClass: 0x02,
        bDeviceProtocol: 0x01,
        bMaxPacketSize0: 9,
        idVendor: 0x1234,
        idProduct: 0x5678,
        bcdDevice: 0x0100,
        iManufacturer: 2,
        iProduct: 3,
        iSerialNumber: 6,
        bNumConfigurations: 1,
    };
    0
}
#[no_mangle]
pub unsafe extern "C" fn libusb_get_config_descriptor(
    _dev: *mut c_void,
    _index: u8,
    out: *mut *const ConfigDescriptor,
) -> c_int {
    *out = build_config();
    0
}
#[no_mangle]
pub unsafe extern "C" fn libusb_get_active_config_descriptor(
    _dev: *mut c_void,
    out: *mut *const ConfigDescriptor,
) -> c_int {
    *out = build_config();
    0
}
#[no_mangle]
pub extern "C" fn libusb_free_config_descriptor(_cfg: *const ConfigDescriptor) {}
#[no_mangle]
pub extern "C" fn libusb_get_ss_endpoint_companion_descriptor(
    _ctx: *mut c_void,
    _ep: *const EndpointDescriptor,
    _out: *mut *const c_void,
) -> c_int {
    ERROR_NOT_FOUND
}
#[no_mangle]
pub extern "C" fn libusb_free_ss_endpoint_companion_descriptor(_d: *mut c_void) {}

// ---- device handle -----------------------------------------------------------------------
#[no_mangle]
pub unsafe extern "C" fn libusb_open(_dev: *mut c_void, out: *mut *mut c_void) -> c_int {
    *out = dummy();
    0
}
#[no_mangle]
pub extern "C" fn libusb_open_device_with_vid_pid(
    _ctx: *mut c_void,
    _vid: u16,
    _pid: u16,
) -> *mut c_void {
    dummy()
}
#[no_mangle]
pub extern "C" fn libusb_close(_handle: *mut c_void) {}
#[no_mangle]
pub unsafe extern "C" fn libusb_get_configuration(
    _handle: *mut c_void,
    config: *mut c_int,
) -> c_int {
    *config = 1;
    0
}
#[no_mangle]
pub extern "C" fn libusb_set_configuration(_handle: *mut c_void, _config: c_int) -> c_int {
    0
}
#[no_mangle]
pub extern "C" fn libusb_claim_interface(_handle: *mut c_void, _iface: c_int) -> c_int {
    0
}
#[no_mangle]
pub extern "C" fn libusb_release_interface(_handle: *mut c_void, _iface: c_int) -> c_int {
    0
}
#[no_mangle]
pub extern "C" fn libusb_clear_halt(_handle: *mut c_void, _ep: u8) -> c_int {
    0
}
#[no_mangle]
pub unsafe extern "C" fn libusb_get_string_descriptor_ascii(
    _handle: *mut c_void,
    index: u8,
    data: *mut u8,
    length: c_int,
) -> c_int {
    let s = format!("fake-string-{}", index);
    let n = s.len().min(length as usize);
    std::ptr::copy_nonoverlapping(s.as_ptr(), data, n);
    n as c_int
}
#[no_mangle]
pub extern "C" fn libusb_control_transfer(
    _handle: *mut c_void,
    _request_type: u8,
    _request: u8,
    _value: u16,
    _index: u16,
    _data: *mut u8,
    length: u16,
    _timeout: c_uint,
) -> c_int {
    c_int::from(length)
}
#[no_mangle]
pub extern "C" fn libusb_bulk_transfer(
    _handle: *mut c_void,
    _ep: u8,
    _data: *mut u8,
    _length: c_int,
    _transferred: *mut c_int,
    _timeout: c_uint,
) -> c_int {
    ERROR_TIMEOUT
}

// ---- asynchronous transfers ------------------------------------------------------------------
#[no_mangle]
pub extern "C" fn libusb_alloc_transfer(_iso_packets: c_int) -> *mut Transfer {
    // zeroed and a bit larger than needed
    Box::into_raw(Box::new([0_u64; 16])).cast()
}
#[no_mangle]
pub unsafe extern "C" fn libusb_free_transfer(transfer: *mut Transfer) {
    let mut st = state();
    let before = st.inflight.len();
    st.inflight.retain(|t| t.ptr != transfer as usize);
    st.freed_while_inflight += before - st.inflight.len();
    drop(st);
    drop(Box::from_raw(transfer.cast::<[u64; 16]>()));
}
#[no_mangle]
pub unsafe extern "C" fn libusb_submit_transfer(transfer: *mut Transfer) -> c_int {
    let mut st = state();
    st.submit_calls += 1;
    let plan = st.plan.pop_front().unwrap_or(Plan::Accept {
        status: TRANSFER_COMPLETED,
        len: (*transfer).length as usize,
        delay: 0,
        clat: 0,
    });
    match plan {
        Plan::Refuse(code) => {
            st.refused += 1;
            code
        }
        Plan::Accept { status, len, delay, clat } => {
            let index = st.accepted;
            st.accepted += 1;
            st.inflight.push(InFlight {
                ptr: transfer as usize,
                index,
                status,
                len: len.min((*transfer).length as usize),
                due: EPOCH.load(Ordering::SeqCst).saturating_add(delay),
                clat,
                cancel: false,
            });
            0
        }
    }
}
#[no_mangle]
pub extern "C" fn libusb_cancel_transfer(transfer: *mut Transfer) -> c_int {
    let mut st = state();
    match st.inflight.iter_mut().find(|t| t.ptr == transfer as usize) {
        Some(t) => {
            t.cancel = true;
            0
        }
        None => {
            st.cancel_not_found += 1;
            ERROR_NOT_FOUND
        }
    }
}

#[no_mangle]
pub extern "C" fn libusb_try_lock_events(_ctx: *mut c_void) -> c_int {
    let mut st = state();
    st.trylock_calls += 1;
    let round = st.lockplan.pop_front().unwrap_or(Lock::Own);
    st.round = round;
    if round == Lock::Own {
        0
    } else {
        st.trylock_failed += 1;
        1
    }
}
#[no_mangle]
pub extern "C" fn libusb_lock_events(_ctx: *mut c_void) {}
#[no_mangle]
pub extern "C" fn libusb_unlock_events(_ctx: *mut c_void) {}
#[no_mangle]
pub extern "C" fn libusb_event_handling_ok(_ctx: *mut c_void) -> c_int {
    1
}
#[no_mangle]
pub extern "C" fn libusb_event_handler_active(_ctx: *mut c_void) -> c_int {
    match state().round {
        Lock::HeldActive(_) => 1,
        _ => 0,
    }
}
#[no_mangle]
pub extern "C" fn libusb_lock_event_waiters(_ctx: *mut c_void) {}
#[no_mangle]
pub extern "C" fn libusb_unlock_event_waiters(_ctx: *mut c_void) {}

fn timeval_us(tv: *const TimeVal) -> u64 {
    if tv.is_null() {
        0
    } else {
        unsafe { ((*tv).tv_sec.max(0) as u64).saturating_mul(1_000_000).saturating_add((*tv).tv_usec.max(0) as u64) }
    }
}

/// Returns 0 when the waiters were woken (the other event handler has handled events), 1 when the
/// timeval ran out.  With no active event handler nobody wakes the waiters and nobody handles events.
#[no_mangle]
pub unsafe extern "C" fn libusb_wait_for_event(_ctx: *mut c_void, tv: *const TimeVal) -> c_int {
    let us = timeval_us(tv);
    let round = {
        let mut st = state();
        st.waits += 1;
        st.round
    };
    match round {
        Lock::HeldActive(n) if n < us => {
            advance_clock_ns(n.saturating_mul(1000));
            let done = complete_ready();
            for t in done {
                if let Some(cb) = (*t).callback {
                    cb(t);
                }
            }
            0
        }
        Lock::HeldActive(_) => {
            advance_clock_ns(us.saturating_add(1).saturating_mul(1000));
            1
        }
        _ => {
            state().waits_no_handler += 1;
            advance_clock_ns(us.saturating_add(1).saturating_mul(1000));
            1
        }
    }
}
#[no_mangle]
pub extern "C" fn libusb_handle_events_completed(_ctx: *mut c_void, _completed: *mut c_int) -> c_int {
    0
}

/// Events are handled (by this thread or by the other event handler): every in-flight transfer that
/// is due or whose cancellation latency has run out completes; the caller runs the callbacks.
unsafe fn complete_ready() -> Vec<*mut Transfer> {
    let mut done: Vec<*mut Transfer> = Vec::new();
    let mut st = state();
    let now = EPOCH.load(Ordering::SeqCst);
    let mut i = 0;
    while i < st.inflight.len() {
        let cancelled = st.inflight[i].cancel && st.inflight[i].clat == 0;
        if cancelled || st.inflight[i].due < now {
            let f = st.inflight.remove(i);
            let t = f.ptr as *mut Transfer;
            if cancelled {
                (*t).status = TRANSFER_CANCELLED;
                (*t).actual_length = 0;
            } else {
                (*t).status = f.status;
                if f.status == TRANSFER_COMPLETED {
                    let bytes = pattern(f.index, f.len);
                    std::ptr::copy_nonoverlapping(bytes.as_ptr(), (*t).buffer, bytes.len());
                    (*t).actual_length = f.len as c_int;
                } else {
                    (*t).actual_length = 0;
                }
            }
            st.completed += 1;
            done.push(t);
        } else {
            if st.inflight[i].cancel {
                st.inflight[i].clat -= 1;
            }
            i += 1;
        }
    }
    done
}

/// One event-handling call: the next entry of the event plan; when it is 0 complete every in-flight
/// transfer that is due or whose cancellation latency has run out, then run the callbacks.
#[no_mangle]
pub unsafe extern "C" fn libusb_handle_events_locked(_ctx: *mut c_void, tv: *const TimeVal) -> c_int {
    {
        let mut st = state();
        st.event_calls += 1;
        let code = st.evplan.pop_front().unwrap_or(0);
        if code != 0 {
            return code;
        }
    }
    let done = complete_ready();
    if done.is_empty() {
        // nothing happened: libusb would have blocked for the whole timeval
        advance_clock_ns(timeval_us(tv).saturating_add(1).saturating_mul(1000));
    }
    for t in done {
        if let Some(cb) = (*t).callback {
            cb(t);
        }
    }
    0
}

// ---- the virtual monotonic clock ---------------------------------------------------------------
#[repr(C)]
pub struct TimeSpec {
    tv_sec: i64,
    tv_nsec: i64,
}

extern "C" {
    fn syscall(num: std::os::raw::c_long, ...) -> std::os::raw::c_long;
}

#[cfg(target_arch = "x86_64")]
const SYS_CLOCK_GETTIME: std::os::raw::c_long = 228;
#[cfg(target_arch = "aarch64")]
const SYS_CLOCK_GETTIME: std::os::raw::c_long = 113;
const CLOCK_MONOTONIC: c_int = 1;

/// nanoseconds of the virtual CLOCK_MONOTONIC
static VCLOCK_NS: AtomicU64 = AtomicU64::new(1_000_000_000_000);

/// the virtual clock when the current case began
static CLOCK0_NS: AtomicU64 = AtomicU64::new(1_000_000_000_000);

/// virtual microseconds gone by since the case began
pub fn case_clock_us() -> u64 {
    (VCLOCK_NS.load(Ordering::SeqCst) - CLOCK0_NS.load(Ordering::SeqCst)) / 1000
}

pub fn advance_clock_ns(ns: u64) {
    VCLOCK_NS.fetch_add(ns, Ordering::SeqCst);
}

/// `std::time::Instant::now()` of everything linked into this binary ends here.
#[no_mangle]
pub unsafe extern "C" fn clock_gettime(clk: c_int, ts: *mut TimeSpec) -> c_int {
    if clk == CLOCK_MONOTONIC {
        let v = VCLOCK_NS.load(Ordering::SeqCst);
        (*ts).tv_sec = (v / 1_000_000_000) as i64;
        (*ts).tv_nsec = (v % 1_000_000_000) as i64;
        0
    } else {
        syscall(SYS_CLOCK_GETTIME, clk as std::os::raw::c_long, ts) as c_int
    }
}

/// real milliseconds (CLOCK_MONOTONIC of the kernel), for the watchdog of the harness
pub fn real_ms() -> u64 {
    let mut ts = TimeSpec { tv_sec: 0, tv_nsec: 0 };
    unsafe {
        syscall(SYS_CLOCK_GETTIME, CLOCK_MONOTONIC as std::os::raw::c_long, &mut ts as *mut TimeSpec);
    }
    ts.tv_sec as u64 * 1000 + ts.tv_nsec as u64 / 1_000_000
}
