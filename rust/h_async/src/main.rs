//! `pool` / `pool2` / `pool3` cases (C12): operation sequences on the real `AsyncPool` of /repo/device
//! over the fake libusb of fake_usb.rs.  One case per line:
//!   pool  nplan { 0 code | 1 status len delay }*       nops { op arg }*
//!   pool2 nplan { 0 code | 1 status len delay clat }*  nev { code }*  nops { op arg }*
//!   pool3 nplan { 0 code | 1 status len delay clat }*  nev { code }*  nlk { lock }*  nops { op arg }*
//!     plan entry per libusb_submit_transfer call: 0 = refused with libusb error `code` (negative),
//!       1 = accepted, completes with libusb_transfer_status `status` and `len` bytes once `delay`
//!       further poll operations have begun; once cancelled it completes with CANCELLED after `clat`
//!       further successful event-handling calls (`pool`: 0); past the end of the plan: accepted,
//!       completes at once with a full buffer
//!     event plan: return code of each libusb_handle_events_locked call in turn (0 = events are
//!       handled, otherwise a libusb error code, nothing is handled); past the end: 0
//!     lock plan (`pool3`; `pool` / `pool2`: empty): what the other threads of the process do with libusb's
//!       events lock in each round of poll_completed's loop in turn: 0 = nothing (libusb_try_lock_events
//!       succeeds), 1 = the lock is taken but its holder has left when libusb_event_handler_active is asked,
//!       2 + n = another thread handles events, a wait for it returns after n virtual microseconds with the
//!       events handled (see fake_usb.rs); past the end: 0
//!     ops: 1 len submit | 2 ms poll | 3 0 pending | 4 0 cancel_all | 5 0 drop the pool |
//!          6 0 new pool | 7 0 is_empty | 9 code append `code` to the event plan | 10 lock append to the lock plan
//! Output: per op  1 -> 0 | 1 class ;
//!   2 -> 0 len data_ok pending_after trylock_calls event_calls | 1 class pending_after trylock_calls event_calls |
//!        -1 (empty pool)    (the two call counts: since the case began) ;
//!   3 -> n ;  4 -> (nothing) ;  5 -> in_flight_after freed_while_in_flight event_calls trylock_calls ;
//!   6, 9, 10 -> (nothing) ;  7 -> 0|1 ;  a panic -> 2 -9 -1 and the case ends;
//!   then -9 submit_calls accepted refused completed cancel_not_found in_flight freed_while_in_flight event_calls
//!           trylock_calls trylock_failed waits_for_event waits_with_no_active_handler virtual_us_gone_by
//! Time is virtual (see fake_usb.rs): no operation sleeps.  A case that does not end (a drop / poll
//! waiting for a transfer that was never submitted) makes the process exit with status 3 after 6 real
//! seconds (vplib marks the case [4]).
mod fake_usb;

use std::collections::VecDeque;
use std::panic::{catch_unwind, AssertUnwindSafe};
use std::sync::atomic::{AtomicU64, Ordering};
use std::time::Duration;

use cameleon_device::u3v::async_read::AsyncPool;
use cameleon_device::u3v::{Error, LibUsbError};
use fake_usb::Plan;

static CASE_START_MS: AtomicU64 = AtomicU64::new(0);

fn class(e: &Error) -> i64 {
    match e {
        Error::LibUsb(l) => match l {
            LibUsbError::Io => 0,
            LibUsbError::InvalidParam => 1,
            LibUsbError::Access => 2,
            LibUsbError::NoDevice => 3,
            LibUsbError::NotFound => 4,
            LibUsbError::Busy => 5,
            LibUsbError::Timeout => 6,
            LibUsbError::Overflow => 7,
            LibUsbError::Pipe => 8,
            LibUsbError::Interrupted => 9,
            LibUsbError::NoMem => 10,
            LibUsbError::NotSupported => 11,
            LibUsbError::BadDescriptor => 12,
            LibUsbError::Other => 13,
        },
        Error::BufferIo(_) => 20,
        Error::InvalidPacket(_) => 21,
        Error::InvalidDevice => 22,
    }
}

fn main() {
    std::panic::set_hook(Box::new(|_| {}));
    // the watchdog runs on the kernel's clock: Instant is virtual in this process
    let t0 = fake_usb::real_ms();
    std::thread::spawn(move || loop {
        std::thread::sleep(Duration::from_millis(50));
        let s = CASE_START_MS.load(Ordering::SeqCst);
        if s != 0 && fake_usb::real_ms() - t0 + 1 > s + 6000 {
            std::process::exit(3);
        }
    });
    let devices = cameleon_device::u3v::enumerate_devices().expect("enumerate");
    let dev = devices.into_iter().next().expect("one fake device");
    let mut chan = dev.stream_channel().expect("stream channel").expect("has stream channel");
    chan.open().expect("open");

    let stdin = std::io::stdin();
    let mut line = String::new();
    loop {
        line.clear();
        if stdin.read_line(&mut line).unwrap_or(0) == 0 {
            break;
        }
        let l = line.trim();
        if l.is_empty() {
            println!();
            continue;
        }
        let mut it = l.split_whitespace();
        let ver = match it.next() {
            Some("pool") => 1,
            Some("pool2") => 2,
            Some("pool3") => 3,
            _ => {
                println!("-99");
                continue;
            }
        };
        let toks: Vec<i64> = it.map(|t| t.parse().unwrap()).collect();
        CASE_START_MS.store(fake_usb::real_ms() - t0 + 1, Ordering::SeqCst);
        let out = run_case(&chan, &toks, ver);
        CASE_START_MS.store(0, Ordering::SeqCst);
        let s: Vec<String> = out.iter().map(|v| v.to_string()).collect();
        println!("{}", s.join(" "));
    }
}

/// libusb_try_lock_events and libusb_handle_events_locked calls since the case began
fn counts() -> [i64; 2] {
    let st = fake_usb::state();
    [st.trylock_calls as i64, st.event_calls as i64]
}

fn run_case(chan: &cameleon_device::u3v::ReceiveChannel, t: &[i64], ver: u32) -> Vec<i64> {
    let v2 = ver >= 2;
    let mut p = 0;
    let mut next = || {
        let v = t[p];
        p += 1;
        v
    };
    let mut plan = vec![];
    for _ in 0..next() {
        match next() {
            0 => plan.push(Plan::Refuse(next() as i32)),
            _ => {
                let status = next() as i32;
                let len = next() as usize;
                let delay = next() as u64;
                let clat = if v2 { next() as u64 } else { 0 };
                plan.push(Plan::Accept { status, len, delay, clat });
            }
        }
    }
    let mut evplan = vec![];
    if v2 {
        for _ in 0..next() {
            evplan.push(next() as i32);
        }
    }
    let mut lockplan = vec![];
    if ver >= 3 {
        for _ in 0..next() {
            lockplan.push(fake_usb::lock_of(next()));
        }
    }
    let nops = next();
    let mut ops = vec![];
    for _ in 0..nops {
        ops.push((next(), next()));
    }
    fake_usb::reset(plan, evplan, lockplan);

    let mut out: Vec<i64> = vec![];
    // the buffers outlive every pool of the case; (buffer, number of the accepted transfer) of the
    // transfers the harness expects in the pool, in submission order
    let mut buffers: Vec<Box<[u8]>> = vec![];
    let mut expect: VecDeque<(usize, usize)> = VecDeque::new();
    let mut pool: Option<AsyncPool> = Some(AsyncPool::new(chan));
    let mut panicked = false;
    for (op, arg) in ops {
        if panicked {
            break;
        }
        let r = catch_unwind(AssertUnwindSafe(|| match op {
            1 => {
                if let Some(pl) = pool.as_mut() {
                    buffers.push(vec![0xCD_u8; arg as usize].into_boxed_slice());
                    let ix = buffers.len() - 1;
                    let before = fake_usb::state().accepted;
                    // Safety: buffers[ix] is never moved or dropped before the pool is
                    let slice: &mut [u8] = unsafe { &mut *(buffers[ix].as_mut() as *mut [u8]) };
                    match pl.submit(slice) {
                        Ok(()) => {
                            expect.push_back((ix, before));
                            out.push(0);
                        }
                        Err(e) => out.extend([1, class(&e)]),
                    }
                }
            }
            2 => {
                if let Some(pl) = pool.as_mut() {
                    if pl.is_empty() {
                        out.push(-1); // poll on an empty pool panics by contract: not exercised
                    } else {
                        fake_usb::EPOCH.fetch_add(1, Ordering::SeqCst);
                        match pl.poll(Duration::from_millis(arg as u64)) {
                            Ok(len) => {
                                let ok = match expect.pop_front() {
                                    Some((ix, acc)) => {
                                        len <= buffers[ix].len() && buffers[ix][..len] == fake_usb::pattern(acc, len)[..]
                                    }
                                    None => false,
                                };
                                out.extend([0, len as i64, ok as i64, pl.pending() as i64]);
                                out.extend(counts());
                            }
                            Err(e) => {
                                let c = class(&e);
                                // the error of a completed transfer reaped it; a time-out or a failure of
                                // the event handling leaves it pending
                                if pl.pending() < expect.len() {
                                    expect.pop_front();
                                }
                                out.extend([1, c, pl.pending() as i64]);
                                out.extend(counts());
                            }
                        }
                    }
                }
            }
            3 => out.push(pool.as_ref().map(|p| p.pending() as i64).unwrap_or(-1)),
            4 => {
                if let Some(pl) = pool.as_mut() {
                    pl.cancel_all()
                }
            }
            5 => {
                if let Some(pl) = pool.take() {
                    drop(pl);
                    expect.clear();
                    let st = fake_usb::state();
                    out.extend([st.inflight.len() as i64, st.freed_while_inflight as i64, st.event_calls as i64, st.trylock_calls as i64]);
                }
            }
            6 => {
                if pool.is_none() {
                    pool = Some(AsyncPool::new(chan));
                }
            }
            7 => out.push(pool.as_ref().map(|p| p.is_empty() as i64).unwrap_or(-1)),
            9 => fake_usb::state().evplan.push_back(arg as i32),
            10 => fake_usb::state().lockplan.push_back(fake_usb::lock_of(arg)),
            _ => panic!("bad op"),
        }));
        if r.is_err() {
            out.push(2);
            panicked = true;
        }
    }
    if panicked {
        // the pool may be in an undefined state: leak it
        std::mem::forget(pool.take());
        out.extend([-9, -1]);
        drop(buffers);
        return out;
    }
    drop(pool.take());
    let st = fake_usb::state();
    out.extend([
        -9,
        st.submit_calls as i64,
        st.accepted as i64,
        st.refused as i64,
        st.completed as i64,
        st.cancel_not_found as i64,
        st.inflight.len() as i64,
        st.freed_while_inflight as i64,
        st.event_calls as i64,
        st.trylock_calls as i64,
        st.trylock_failed as i64,
        st.waits as i64,
        st.waits_no_handler as i64,
        fake_usb::case_clock_us() as i64,
    ]);
    drop(st);
    drop(buffers);
    out
}
