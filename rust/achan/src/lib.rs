//! Thin tracing wrapper around the real `async-channel` (same surface as far as /repo/cameleon
//! uses it).  When tracing is off (the default) every call is forwarded unchanged.
//!
//! `trace`: a global, totally ordered event log shared with the fake USB layer (rust/shim logs
//! its AsyncPool operations here) and with the harness (controller / receiver marks).  An
//! operation and its log entry happen under the same lock; blocking operations are never
//! executed under the lock.  `yield_point` injects seeded sleeps / yields before operations.
pub use real::{RecvError, SendError, TryRecvError, TrySendError};

pub mod trace {
    use std::cell::Cell;
    use std::sync::atomic::{AtomicBool, AtomicU64, Ordering};
    use std::sync::{Mutex, MutexGuard};

    /// (role, kind, a, b); role: 0 controller (harness main thread), 2 receiver thread,
    /// >= 100 any other thread (the streaming loops spawned by the code under test).
    pub type Ev = [i64; 4];

    pub const POOL_NEW: i64 = 1;
    pub const SUBMIT: i64 = 2; // a = length
    pub const SUBMIT_ERR: i64 = 3; // a = libusb code
    pub const POLL: i64 = 4; // a = length, or -1-code for an error (timeout: code 6), b = pending after
    pub const POOL_DROP: i64 = 5; // a = transfers still pending (cancelled and reaped)
    pub const TRY_SEND: i64 = 10; // a = channel, b = 0 ok | 1 full | 2 closed
    pub const TRY_RECV: i64 = 11; // a = channel, b = 0 got | 1 empty | 2 closed
    pub const SENDER_DROP: i64 = 12; // a = channel, b = senders left
    pub const RECEIVER_DROP: i64 = 13; // a = channel, b = receivers left
    pub const STRM_OPEN: i64 = 24;
    pub const STRM_CLOSE: i64 = 25;

    pub struct T {
        pub ev: Vec<Ev>,
        pub chans: i64,
    }

    static ON: AtomicBool = AtomicBool::new(false);
    static SEED: AtomicU64 = AtomicU64::new(0);
    static PERMILLE: AtomicU64 = AtomicU64::new(0);
    static MAX_US: AtomicU64 = AtomicU64::new(0);
    static TR: Mutex<T> = Mutex::new(T { ev: Vec::new(), chans: 0 });

    static NEXT_TID: std::sync::atomic::AtomicI64 = std::sync::atomic::AtomicI64::new(100);

    thread_local! {
        // threads that were not given a role (those spawned by the code under test: the streaming
        // loops) are numbered 100, 101, ... in the order of their first traced operation
        static ROLE: Cell<i64> = Cell::new(-1);
        static RNG: Cell<u64> = Cell::new(0);
        static LAST: Cell<i64> = Cell::new(-1);
    }

    /// Result code of the last traced channel operation of this thread (TRY_SEND / TRY_RECV).
    pub fn last_result() -> i64 {
        LAST.with(|c| c.get())
    }

    pub fn set_role(r: i64) {
        ROLE.with(|c| c.set(r));
    }
    pub fn role() -> i64 {
        ROLE.with(|c| {
            if c.get() < 0 {
                c.set(NEXT_TID.fetch_add(1, Ordering::SeqCst));
            }
            c.get()
        })
    }
    pub fn on() -> bool {
        ON.load(Ordering::SeqCst)
    }

    pub fn lock() -> MutexGuard<'static, T> {
        TR.lock().unwrap_or_else(|e| e.into_inner())
    }

    /// Start a fresh trace.  `permille`: probability of disturbing a yield point; `max_us`: longest sleep.
    pub fn begin(seed: u64, permille: u64, max_us: u64) {
        let mut t = lock();
        t.ev.clear();
        t.chans = 0;
        SEED.store(seed, Ordering::SeqCst);
        PERMILLE.store(permille, Ordering::SeqCst);
        MAX_US.store(max_us, Ordering::SeqCst);
        ON.store(true, Ordering::SeqCst);
    }

    pub fn end() -> Vec<Ev> {
        ON.store(false, Ordering::SeqCst);
        std::mem::take(&mut lock().ev)
    }

    pub fn snapshot_len() -> usize {
        lock().ev.len()
    }

    /// Number of logged events of the given kind and first argument by threads without a role.
    pub fn count_loop_events(kind: i64, a: i64) -> usize {
        lock().ev.iter().filter(|e| e[0] >= 100 && e[1] == kind && e[2] == a).count()
    }

    /// Log an event that is not tied to an operation performed under the lock.
    pub fn mark(kind: i64, a: i64, b: i64) {
        if on() {
            let r = role();
            lock().ev.push([r, kind, a, b]);
        }
    }

    pub fn push(t: &mut T, kind: i64, a: i64, b: i64) {
        if kind == TRY_SEND || kind == TRY_RECV {
            LAST.with(|c| c.set(b));
        }
        if on() {
            t.ev.push([role(), kind, a, b]);
        }
    }

    fn next() -> u64 {
        RNG.with(|c| {
            let mut s = c.get();
            if s == 0 {
                s = SEED.load(Ordering::SeqCst) ^ (role() as u64 + 1).wrapping_mul(0x9E37_79B9_7F4A_7C15);
            }
            s = s.wrapping_add(0x9E37_79B9_7F4A_7C15);
            c.set(s);
            let mut z = s;
            z = (z ^ (z >> 30)).wrapping_mul(0xBF58_476D_1CE4_E5B9);
            z = (z ^ (z >> 27)).wrapping_mul(0x94D0_49BB_1331_11EB);
            z ^ (z >> 31)
        })
    }

    /// Forget the per-thread generator (call at the start of a case in long-lived threads).
    pub fn reseed() {
        RNG.with(|c| c.set(0));
    }

    /// Seeded disturbance of the schedule; never called with the trace lock held.
    pub fn yield_point() {
        if !on() {
            return;
        }
        let p = PERMILLE.load(Ordering::Relaxed);
        if p == 0 {
            return;
        }
        let r = next();
        if r % 1000 < p {
            let m = MAX_US.load(Ordering::Relaxed);
            let k = (r >> 20) % 4;
            if k == 0 || m == 0 {
                std::thread::yield_now();
            } else {
                std::thread::sleep(std::time::Duration::from_micros((r >> 24) % (m + 1)));
            }
        }
    }
}

use std::mem::ManuallyDrop;

pub struct Sender<T> {
    inner: ManuallyDrop<real::Sender<T>>,
    id: i64,
}

pub struct Receiver<T> {
    inner: ManuallyDrop<real::Receiver<T>>,
    id: i64,
}

pub fn bounded<T>(cap: usize) -> (Sender<T>, Receiver<T>) {
    let (s, r) = real::bounded(cap);
    let id = {
        let mut t = trace::lock();
        let id = t.chans;
        t.chans += 1;
        id
    };
    (Sender { inner: ManuallyDrop::new(s), id }, Receiver { inner: ManuallyDrop::new(r), id })
}

impl<T> Sender<T> {
    pub fn try_send(&self, msg: T) -> Result<(), TrySendError<T>> {
        if !trace::on() {
            return self.inner.try_send(msg);
        }
        trace::yield_point();
        let mut t = trace::lock();
        let r = self.inner.try_send(msg);
        let code = match &r {
            Ok(()) => 0,
            Err(TrySendError::Full(_)) => 1,
            Err(TrySendError::Closed(_)) => 2,
        };
        trace::push(&mut t, trace::TRY_SEND, self.id, code);
        r
    }

    pub async fn send(&self, msg: T) -> Result<(), SendError<T>> {
        self.inner.send(msg).await
    }

    /// The rest of async-channel's surface passes straight through (untraced): code under test that starts using
    /// it must still build and run - a blocking send on a full channel then blocks exactly as the real one does.
    pub fn send_blocking(&self, msg: T) -> Result<(), SendError<T>> {
        self.inner.send_blocking(msg)
    }
    pub fn close(&self) -> bool {
        self.inner.close()
    }
    pub fn is_full(&self) -> bool {
        self.inner.is_full()
    }
    pub fn capacity(&self) -> Option<usize> {
        self.inner.capacity()
    }
    pub fn receiver_count(&self) -> usize {
        self.inner.receiver_count()
    }
    pub fn sender_count(&self) -> usize {
        self.inner.sender_count()
    }

    pub fn is_closed(&self) -> bool {
        self.inner.is_closed()
    }
    pub fn len(&self) -> usize {
        self.inner.len()
    }
    pub fn is_empty(&self) -> bool {
        self.inner.is_empty()
    }
}

impl<T> Receiver<T> {
    pub fn try_recv(&self) -> Result<T, TryRecvError> {
        if !trace::on() {
            return self.inner.try_recv();
        }
        trace::yield_point();
        let mut t = trace::lock();
        let r = self.inner.try_recv();
        let code = match &r {
            Ok(_) => 0,
            Err(TryRecvError::Empty) => 1,
            Err(TryRecvError::Closed) => 2,
        };
        trace::push(&mut t, trace::TRY_RECV, self.id, code);
        r
    }

    pub async fn recv(&self) -> Result<T, RecvError> {
        self.inner.recv().await
    }
    pub fn close(&self) -> bool {
        self.inner.close()
    }
    pub fn is_full(&self) -> bool {
        self.inner.is_full()
    }
    pub fn capacity(&self) -> Option<usize> {
        self.inner.capacity()
    }
    pub fn receiver_count(&self) -> usize {
        self.inner.receiver_count()
    }
    pub fn sender_count(&self) -> usize {
        self.inner.sender_count()
    }

    /// Blocking receive.  While tracing it is a polling loop of traced `try_recv`s in which only the
    /// final (successful or closed) one is logged, i.e. the completion of the blocking call is the
    /// atomic event.
    pub fn recv_blocking(&self) -> Result<T, RecvError> {
        if !trace::on() {
            return self.inner.recv_blocking();
        }
        loop {
            trace::yield_point();
            {
                let mut t = trace::lock();
                match self.inner.try_recv() {
                    Ok(v) => {
                        trace::push(&mut t, trace::TRY_RECV, self.id, 0);
                        return Ok(v);
                    }
                    Err(TryRecvError::Closed) => {
                        trace::push(&mut t, trace::TRY_RECV, self.id, 2);
                        return Err(RecvError);
                    }
                    Err(TryRecvError::Empty) => {}
                }
            }
            if !trace::on() {
                return self.inner.recv_blocking();
            }
            std::thread::sleep(std::time::Duration::from_micros(50));
        }
    }

    pub fn is_closed(&self) -> bool {
        self.inner.is_closed()
    }
    pub fn len(&self) -> usize {
        self.inner.len()
    }
    pub fn is_empty(&self) -> bool {
        self.inner.is_empty()
    }
}

impl<T> Clone for Sender<T> {
    fn clone(&self) -> Self {
        Sender { inner: ManuallyDrop::new((*self.inner).clone()), id: self.id }
    }
}
impl<T> Clone for Receiver<T> {
    fn clone(&self) -> Self {
        Receiver { inner: ManuallyDrop::new((*self.inner).clone()), id: self.id }
    }
}
impl<T> std::fmt::Debug for Sender<T> {
    fn fmt(&self, f: &mut std::fmt::Formatter<'_>) -> std::fmt::Result {
        self.inner.fmt(f)
    }
}
impl<T> std::fmt::Debug for Receiver<T> {
    fn fmt(&self, f: &mut std::fmt::Formatter<'_>) -> std::fmt::Result {
        self.inner.fmt(f)
    }
}

impl<T> Drop for Sender<T> {
    fn drop(&mut self) {
        // the real handle is released and the event logged under the same lock
        if trace::on() {
            trace::yield_point();
            let mut t = trace::lock();
            let left = self.inner.sender_count() as i64 - 1;
            unsafe { ManuallyDrop::drop(&mut self.inner) };
            trace::push(&mut t, trace::SENDER_DROP, self.id, left);
        } else {
            unsafe { ManuallyDrop::drop(&mut self.inner) };
        }
    }
}
impl<T> Drop for Receiver<T> {
    fn drop(&mut self) {
        if trace::on() {
            trace::yield_point();
            let mut t = trace::lock();
            let left = self.inner.receiver_count() as i64 - 1;
            unsafe { ManuallyDrop::drop(&mut self.inner) };
            trace::push(&mut t, trace::RECEIVER_DROP, self.id, left);
        } else {
            unsafe { ManuallyDrop::drop(&mut self.inner) };
        }
    }
}
