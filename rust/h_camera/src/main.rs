// Correspondence harness for C16: the real `cameleon::Camera<Ctrl, Strm, DefaultGenApiCtxt>` of
// /repo/cameleon/src/camera.rs driven over a recording fake DeviceControl + PayloadStream.
//
// One case per stdin line:
//   cam  <n> <call>{n} <m> (<call index> <op index> <fault class>){m}     Camera<FakeCtrl, FakeStrm, DefaultGenApiCtxt>
//   cams <n> <call>{n} <m> (<call index> <op index> <fault class>){m}     Camera<FakeCtrl, FakeStrm, SharedDefaultGenApiCtxt>
//        (the sharable context: node store / value context behind Arc / Arc<Mutex>; same calls, same output)
// calls:  0 open | 3 stop_streaming | 4 close | 5 params access (params_ctxt + TLParamsLocked.value)
//         10+cap start_streaming(cap) | 20+v load_context, the device serves XML variant v
//         v = t + 3*s + 9*p with t/s/p in {0 good, 1 missing, 2 wrong interface} for TLParamsLocked /
//         AcquisitionStart / AcquisitionStop; v = 27: the device serves text that is not a GenApi document;
//         48 load_context, the device serves the conforming description in which TLParamsLocked is an Integer
//            with <pValue>TLParamsLockedReg</pValue> AND <pValueCopy>TLParamsLockedMirrorReg</pValueCopy>
//         49 load_context, the conforming description in which AcquisitionStart / AcquisitionStop carry
//            <pIsAvailable>StartAvailReg</pIsAvailable> / <pIsAvailable>StopAvailReg</pIsAvailable>, two NoCache RO
//            registers at words 4 / 5 of the device memory at 0x2000 (0 = the command is not available at the moment)
//         50 load_context, TLParamsLocked is a HOST-side variable (<Integer><Value>0</Value><Min>0</Min><Max>1</Max>),
//            AcquisitionStart <CommandValue>1</CommandValue>, AcquisitionStop <CommandValue>0</CommandValue>
//         51 load_context, conforming (TLParamsLocked backed by its register), AcquisitionStop <CommandValue>0</CommandValue>
//         52 load_context, conforming, TLParamsLocked is declared as <MaskedIntReg> (LSB 0 / MSB 0 of the 4-byte register at
//            0x1000 whose other bits belong to another feature): set_value is a read-modify-write, the READ of the old
//            register value (operation / effect 15, served from the cache when the register is cached) precedes the write
//         81 the APPLICATION takes a second handle of the camera's context (`camera.ctxt.clone()`) and keeps it;
//         82 it drops the handles it keeps.  No camera method is called.  (Only the sharable context can be cloned;
//            with `cam` lines the two calls do nothing.)
//         70+v (v = 0..9) params write: params_ctxt, UserVar.set_value(v)   (every description that parses defines
//            UserVar = <Integer><Value>1</Value></Integer>, a variable of the context: no device access)
//         60+k (k = 0..3) bank access: params_ctxt, BankSelector.set_value(k), BankReg.value()   (every
//            description that parses defines BankReg = <IntReg> at 0x2000 + <pIndex Offset="4">BankSelector</pIndex>,
//            4 bytes, WriteThrough: one cache block per slot); the value read is the call's <value>
//         1000 + 256*k + v (k = 0..5, v = 0..255): the ENVIRONMENT: word k of the device's own memory at 0x2000 becomes
//            v (k = 0..3: bank slot k, behind the host's cache; k = 4 / 5: the availability status of AcquisitionStart /
//            AcquisitionStop; k = 6: the bits 1..7 of the TLParamsLocked register, which belong to another feature:
//            they become v & 0xFE; they exist only while the description loaded last is 52); no camera method is called, nothing is logged
// failure plan: the <op index>-th fallible fake operation (0-based, counted per call, in execution
// order; EVERY invocation of a fake method counts, so a repeated access is a second operation) of
// call <call index> returns an error of the given fault class WITHOUT having any effect.
// fault class k: DeviceControl methods -> ControlError  0 Io 1 Timeout 2 Disconnected 3 Busy 4 NotOpened
//                                                        5 InvalidData 6 InvalidDevice 7 BufferTooSmall
//                PayloadStream methods -> StreamError    0 Io 1 Timeout 2 Disconnected 3 ReceiveError 4 SendError
//                                                        5 InvalidPayload 6 Poisoned 7 BufferTooSmall
// Fallible fake operations = every DeviceControl / PayloadStream method the camera calls:
//   ctrl.open ctrl.close ctrl.genapi ctrl.enable_streaming ctrl.disable_streaming ctrl.read ctrl.write
//   strm.open strm.close strm.start_streaming_loop strm.stop_streaming_loop
// One result line per case: 0 then per call
//   <res> <failed op code or 0> <a> <attempted op code>{a} <k> <effect>{k} <value or -1> <flags>
//   attempted op codes: every invocation of a fake method during the call, in order (the device log)
// res: 0 Ok | 2 panic | 12 Stream(InStreaming) 13 GenApiContextMissing 14 InvalidGenApiXml
//      16 GenApiError other than Device | 100+k ControlError of class k | 200+k StreamError of class k |
//      300+k GenApiError::Device carrying a ControlError of class k | 399 GenApiError::Device other
// effect codes: 1 CtrlOpen 2 StrmOpen 3 GenApiFetch 4 EnableStreaming 5 SetTLParamsLocked(1)
//   6 SetTLParamsLocked(0)   (5 / 6: bit 0 written as 1 / 0 with the other bits of the register as the device holds them;
//   or as the host read / wrote them last; a write with other bits is 90 a w v) 7 AcquisitionStart 8 AcquisitionStop 9 LoopStart 10 LoopStop
//   11 DisableStreaming 12 CtrlClose 13 StrmClose 15 read of the TLParamsLocked register
//   7 / 19 write of 1 / 0 to the AcquisitionStart register, 8 / 18 write of 1 / 0 to the AcquisitionStop register (the
//      code carries the VALUE written; any other value: 90 a w v); the device starts / stops acquiring when the value
//      is the CommandValue of the description loaded last
//   16 / 17 write of 1 / 0 to the mirror register of TLParamsLocked (its <pValueCopy>)
//   30+k device read of word k of the memory at 0x2000 (k = 0..3 bank slot k, 34 / 35 the availability registers)
//   90 a w v: unexpected register write, 91 a n: unexpected register read
// flags (state after the call): 1 strm.is_loop_running() | 2 camera.ctxt is Some | 4/8/16 a value of the
//   TLParamsLocked / AcquisitionStart / AcquisitionStop register is cached in the context |
//   32 ctrl opened | 64 strm opened | 128 stream enabled on the device | 256 TLParamsLocked register != 0 |
//   512 device is acquiring | 1024 mirror register != 0 | 2048 a value of the mirror register is cached |
//   4096 << k a block of bank slot k is cached (ValueCtxt::get_cache)
use std::any::Any;
use std::cell::RefCell;
use std::io::{BufRead, Write};
use std::panic::{catch_unwind, AssertUnwindSafe};
use std::rc::Rc;

use cameleon::genapi::{DefaultGenApiCtxt, FromXml, GenApiCtxt, SharedDefaultGenApiCtxt};
use cameleon::payload::PayloadSender;
use cameleon::{
    Camera, CameleonError, CameraInfo, ControlError, ControlResult, DeviceControl, PayloadStream,
    StreamError, StreamResult,
};
use cameleon_genapi::store::NodeStore;
use cameleon_genapi::GenApiError;

const A_TL: u64 = 0x1000;
const A_START: u64 = 0x1004;
const A_STOP: u64 = 0x1008;
const A_MIRROR: u64 = 0x100C;
const A_BANK: u64 = 0x2000;
const NBANK: usize = 4;
const NMEM: usize = 6; // words 4 / 5: availability status of AcquisitionStart / AcquisitionStop

#[derive(Default)]
struct World {
    ctrl_opened: bool,
    strm_opened: bool,
    enabled: bool,
    tl: u32,
    tl_hi: u32, // the bits 1..7 of the TLParamsLocked register (another feature's)
    tl_seen: u32, // those bits as the host saw them last (read or written): a cached copy may be written back
    masked: bool, // the description loaded last declares TLParamsLocked as bit 0 of that register (else the
    // whole register is TLParamsLocked and the other feature does not exist)
    mirror: u32,
    bank: [u32; NMEM],
    stop_value: u32, // CommandValue of AcquisitionStop in the description loaded last
    acquiring: bool,
    alive: bool,
    variant: usize,
    effects: Vec<i128>,
    neff: i128,
    nops: i128,
    fail: Vec<(i128, i128)>,
    attempts: Vec<i128>,
    failed: i128,
}

impl World {
    // returns the fault class when this operation is planned to fail
    fn op(&mut self, code: i128) -> Option<i128> {
        let k = self.nops;
        self.nops += 1;
        self.attempts.push(code);
        match self.fail.iter().find(|p| p.0 == k) {
            Some(p) => {
                self.failed = code;
                Some(p.1)
            }
            None => None,
        }
    }
    fn eff(&mut self, e: &[i128]) {
        self.neff += 1;
        self.effects.extend_from_slice(e);
    }
}

fn cerr(k: i128) -> ControlError {
    match k {
        1 => ControlError::Timeout,
        2 => ControlError::Disconnected,
        3 => ControlError::Busy,
        4 => ControlError::NotOpened,
        5 => ControlError::InvalidData("planned".into()),
        6 => ControlError::InvalidDevice("planned".into()),
        7 => ControlError::BufferTooSmall,
        _ => ControlError::Io(anyhow::Error::msg("planned")),
    }
}
fn serr(k: i128) -> StreamError {
    match k {
        1 => StreamError::Timeout,
        2 => StreamError::Disconnected,
        3 => StreamError::ReceiveError("planned".into()),
        4 => StreamError::SendError("planned".into()),
        5 => StreamError::InvalidPayload("planned".into()),
        6 => StreamError::Poisoned("planned".into()),
        7 => StreamError::BufferTooSmall,
        _ => StreamError::Io(anyhow::Error::msg("planned")),
    }
}
fn cclass(e: &ControlError) -> i128 {
    match e {
        ControlError::Io(_) => 0,
        ControlError::Timeout => 1,
        ControlError::Disconnected => 2,
        ControlError::Busy => 3,
        ControlError::NotOpened => 4,
        ControlError::InvalidData(_) => 5,
        ControlError::InvalidDevice(_) => 6,
        ControlError::BufferTooSmall => 7,
    }
}
fn sclass(e: &StreamError) -> i128 {
    match e {
        StreamError::Io(_) => 200,
        StreamError::Timeout => 201,
        StreamError::Disconnected => 202,
        StreamError::ReceiveError(_) => 203,
        StreamError::SendError(_) => 204,
        StreamError::InvalidPayload(_) => 205,
        StreamError::Poisoned(_) => 206,
        StreamError::BufferTooSmall => 207,
        StreamError::InStreaming => 12,
    }
}

struct FakeCtrl(Rc<RefCell<World>>);
struct FakeStrm(Rc<RefCell<World>>, Option<PayloadSender>);

fn feature(name: &str, kind: usize, good_is_command: bool, reg: &str) -> String {
    // kind: 0 good, 1 missing, 2 wrong interface
    let as_command = match kind {
        0 => good_is_command,
        2 => !good_is_command,
        _ => return String::new(),
    };
    if as_command {
        format!(
            "<Command Name=\"{}\"><pValue>{}</pValue><CommandValue>1</CommandValue></Command>",
            name, reg
        )
    } else {
        format!("<Integer Name=\"{}\"><pValue>{}</pValue></Integer>", name, reg)
    }
}

fn int_reg(name: &str, addr: u64, access: &str) -> String {
    format!(
        "<IntReg Name=\"{}\"><Address>{}</Address><Length>4</Length><AccessMode>{}</AccessMode>\
         <pPort>Device</pPort><Sign>Unsigned</Sign><Endianess>LittleEndian</Endianess></IntReg>",
        name, addr, access
    )
}

fn stop_value_of(variant: usize) -> u32 {
    if variant == 30 || variant == 31 {
        0
    } else {
        1
    }
}

fn command(name: &str, avail: Option<&str>, reg: &str, value: u32) -> String {
    format!(
        "<Command Name=\"{}\">{}<pValue>{}</pValue><CommandValue>{}</CommandValue></Command>",
        name,
        avail.map(|a| format!("<pIsAvailable>{}</pIsAvailable>", a)).unwrap_or_default(),
        reg,
        value
    )
}

fn xml(variant: usize) -> String {
    if variant == 27 || variant > 32 {
        return "this is not a GenApi document".into();
    }
    // 28: the conforming description with a <pValueCopy> mirror of TLParamsLocked
    // 29: conforming, the two commands carry <pIsAvailable> backed by device registers
    // 30: TLParamsLocked is a host-side variable, AcquisitionStop has CommandValue 0
    // 31: conforming, AcquisitionStop has CommandValue 0
    // 32: conforming, TLParamsLocked is a <MaskedIntReg> (bit 0 of the register at A_TL)
    let copy = variant == 28;
    let avail = variant == 29;
    let host = variant == 30;
    let masked = variant == 32;
    let (t, s, p) = if variant >= 28 { (0, 0, 0) } else { (variant % 3, (variant / 3) % 3, (variant / 9) % 3) };
    let mut x = String::from(
        "<RegisterDescription ModelName=\"M\" VendorName=\"V\" StandardNameSpace=\"None\" \
         SchemaMajorVersion=\"1\" SchemaMinorVersion=\"1\" SchemaSubMinorVersion=\"0\" MajorVersion=\"1\" \
         MinorVersion=\"2\" SubMinorVersion=\"3\" ToolTip=\"t\" \
         ProductGuid=\"01234567-0123-0123-0123-0123456789ab\" \
         VersionGuid=\"76543210-3210-3210-3210-ba9876543210\" \
         xmlns=\"http://www.genicam.org/GenApi/Version_1_0\" \
         xmlns:xsi=\"http://www.w3.org/2001/XMLSchema-instance\" \
         xsi:schemaLocation=\"http://www.genicam.org/GenApi/Version_1_0 GenApiSchema.xsd\">",
    );
    if copy {
        x += "<Integer Name=\"TLParamsLocked\"><pValue>TLParamsLockedReg</pValue>\
              <pValueCopy>TLParamsLockedMirrorReg</pValueCopy></Integer>";
        x += &int_reg("TLParamsLockedMirrorReg", A_MIRROR, "RW");
    } else if host {
        x += "<Integer Name=\"TLParamsLocked\"><Value>0</Value><Min>0</Min><Max>1</Max></Integer>";
    } else if masked {
        x += &format!(
            "<MaskedIntReg Name=\"TLParamsLocked\"><Address>{}</Address><Length>4</Length><AccessMode>RW</AccessMode>\
             <pPort>Device</pPort><LSB>0</LSB><MSB>0</MSB><Sign>Unsigned</Sign><Endianess>LittleEndian</Endianess>\
             </MaskedIntReg>",
            A_TL
        );
    } else {
        x += &feature("TLParamsLocked", t, false, "TLParamsLockedReg");
    }
    if variant >= 29 {
        let (a0, a1) = if avail { (Some("StartAvailReg"), Some("StopAvailReg")) } else { (None, None) };
        x += &command("AcquisitionStart", a0, "AcquisitionStartReg", 1);
        x += &command("AcquisitionStop", a1, "AcquisitionStopReg", stop_value_of(variant));
        if avail {
            for (name, k) in [("StartAvailReg", 4u64), ("StopAvailReg", 5u64)] {
                x += &format!(
                    "<IntReg Name=\"{}\"><Address>{}</Address><Length>4</Length><AccessMode>RO</AccessMode>\
                     <pPort>Device</pPort><Cachable>NoCache</Cachable><Sign>Unsigned</Sign>\
                     <Endianess>LittleEndian</Endianess></IntReg>",
                    name,
                    A_BANK + 4 * k
                );
            }
        }
    } else {
        x += &feature("AcquisitionStart", s, true, "AcquisitionStartReg");
        x += &feature("AcquisitionStop", p, true, "AcquisitionStopReg");
    }
    if !masked {
        x += &int_reg("TLParamsLockedReg", A_TL, "RW");
    }
    x += &int_reg("AcquisitionStartReg", A_START, "RW");
    x += &int_reg("AcquisitionStopReg", A_STOP, "RW");
    // a selector-addressed register bank: BankReg[BankSelector] at A_BANK + 4 * BankSelector
    x += "<Integer Name=\"BankSelector\"><Value>0</Value><Min>0</Min><Max>3</Max></Integer>";
    x += &format!(
        "<IntReg Name=\"BankReg\"><Address>{}</Address><pIndex Offset=\"4\">BankSelector</pIndex>\
         <Length>4</Length><AccessMode>RW</AccessMode><pPort>Device</pPort><Cachable>WriteThrough</Cachable>\
         <Sign>Unsigned</Sign><Endianess>LittleEndian</Endianess></IntReg>",
        A_BANK
    );
    // a variable of the context (value store), written by the "params write" call
    x += "<Integer Name=\"UserVar\"><Value>1</Value></Integer>";
    x += "<Port Name=\"Device\"></Port></RegisterDescription>";
    x
}

impl DeviceControl for FakeCtrl {
    fn open(&mut self) -> ControlResult<()> {
        let mut w = self.0.borrow_mut();
        if let Some(k) = w.op(1) {
            return Err(cerr(k));
        }
        w.ctrl_opened = true;
        w.eff(&[1]);
        Ok(())
    }
    fn close(&mut self) -> ControlResult<()> {
        let mut w = self.0.borrow_mut();
        if let Some(k) = w.op(12) {
            return Err(cerr(k));
        }
        w.ctrl_opened = false;
        w.eff(&[12]);
        Ok(())
    }
    fn is_opened(&self) -> bool {
        self.0.borrow().ctrl_opened
    }
    fn read(&mut self, address: u64, buf: &mut [u8]) -> ControlResult<()> {
        let mut w = self.0.borrow_mut();
        if address == A_TL && buf.len() == 4 {
            if let Some(k) = w.op(15) {
                return Err(cerr(k));
            }
            let v = w.tl | if w.masked { w.tl_hi } else { 0 };
            w.tl_seen = w.tl_hi;
            buf.copy_from_slice(&v.to_le_bytes());
            w.eff(&[15]);
        } else if address >= A_BANK
            && address < A_BANK + 4 * NMEM as u64
            && (address - A_BANK) % 4 == 0
            && buf.len() == 4
        {
            let k = ((address - A_BANK) / 4) as usize;
            if let Some(c) = w.op(30 + k as i128) {
                return Err(cerr(c));
            }
            let v = w.bank[k];
            buf.copy_from_slice(&v.to_le_bytes());
            w.eff(&[30 + k as i128]);
        } else {
            if let Some(k) = w.op(91) {
                return Err(cerr(k));
            }
            for b in buf.iter_mut() {
                *b = 0;
            }
            w.eff(&[91, address as i128, buf.len() as i128]);
        }
        Ok(())
    }
    fn write(&mut self, address: u64, data: &[u8]) -> ControlResult<()> {
        let mut w = self.0.borrow_mut();
        let v = if data.len() == 4 {
            u32::from_le_bytes([data[0], data[1], data[2], data[3]]) as i128
        } else {
            -1
        };
        // the other bits of the TLParamsLocked register must be written as the device holds them, or as the host read /
        // wrote them last (a cached copy of the register is legitimately written back)
        let (hi, seen) = if w.masked { (w.tl_hi as i128, w.tl_seen as i128) } else { (0, 0) };
        let code: i128 = match (address, v) {
            (A_TL, x) if x == hi | 1 || x == seen | 1 => 5,
            (A_TL, x) if x == hi || x == seen => 6,
            (A_START, 1) => 7,
            (A_START, 0) => 19,
            (A_STOP, 1) => 8,
            (A_STOP, 0) => 18,
            (A_MIRROR, 1) => 16,
            (A_MIRROR, 0) => 17,
            _ => 90,
        };
        if let Some(k) = w.op(code) {
            return Err(cerr(k));
        }
        match code {
            5 | 6 => {
                w.tl = v as u32 & 1;
                if w.masked {
                    w.tl_hi = v as u32 & !1;
                    w.tl_seen = w.tl_hi;
                }
                w.eff(&[code]);
            }
            7 | 19 => {
                // the CommandValue of AcquisitionStart is 1 in every description
                if code == 7 {
                    w.acquiring = true;
                }
                w.eff(&[code]);
            }
            8 | 18 => {
                if w.stop_value == v as u32 {
                    w.acquiring = false;
                }
                w.eff(&[code]);
            }
            16 => {
                w.mirror = 1;
                w.eff(&[16]);
            }
            17 => {
                w.mirror = 0;
                w.eff(&[17]);
            }
            _ => {
                if address == A_TL && data.len() == 4 {
                    if w.masked {
                        w.tl = v as u32 & 1;
                        w.tl_hi = v as u32 & !1;
                        w.tl_seen = w.tl_hi;
                    } else {
                        w.tl = v as u32;
                    }
                }
                w.eff(&[90, address as i128, data.len() as i128, v]);
            }
        }
        Ok(())
    }
    fn genapi(&mut self) -> ControlResult<String> {
        let mut w = self.0.borrow_mut();
        if let Some(k) = w.op(3) {
            return Err(cerr(k));
        }
        w.eff(&[3]);
        Ok(xml(w.variant))
    }
    fn enable_streaming(&mut self) -> ControlResult<()> {
        let mut w = self.0.borrow_mut();
        if let Some(k) = w.op(4) {
            return Err(cerr(k));
        }
        w.enabled = true;
        w.eff(&[4]);
        Ok(())
    }
    fn disable_streaming(&mut self) -> ControlResult<()> {
        let mut w = self.0.borrow_mut();
        if let Some(k) = w.op(11) {
            return Err(cerr(k));
        }
        w.enabled = false;
        w.eff(&[11]);
        Ok(())
    }
}

impl PayloadStream for FakeStrm {
    fn open(&mut self) -> StreamResult<()> {
        let mut w = self.0.borrow_mut();
        if let Some(k) = w.op(2) {
            return Err(serr(k));
        }
        w.strm_opened = true;
        w.eff(&[2]);
        Ok(())
    }
    fn close(&mut self) -> StreamResult<()> {
        let mut w = self.0.borrow_mut();
        if let Some(k) = w.op(13) {
            return Err(serr(k));
        }
        w.strm_opened = false;
        w.eff(&[13]);
        Ok(())
    }
    fn start_streaming_loop(
        &mut self,
        sender: PayloadSender,
        _ctrl: &mut dyn DeviceControl,
    ) -> StreamResult<()> {
        let mut w = self.0.borrow_mut();
        if let Some(k) = w.op(9) {
            return Err(serr(k));
        }
        if w.alive {
            // what StreamHandle does; never reached through Camera (it checks the flag first)
            return Err(StreamError::InStreaming);
        }
        w.alive = true;
        self.1 = Some(sender);
        w.eff(&[9]);
        Ok(())
    }
    fn stop_streaming_loop(&mut self) -> StreamResult<()> {
        let mut w = self.0.borrow_mut();
        if let Some(k) = w.op(10) {
            return Err(serr(k));
        }
        if w.alive {
            w.alive = false;
            self.1 = None;
            w.eff(&[10]);
        }
        Ok(())
    }
    fn is_loop_running(&self) -> bool {
        self.0.borrow().alive
    }
}

fn eclass(e: &CameleonError) -> i128 {
    match e {
        CameleonError::ControlError(c) => 100 + cclass(c),
        CameleonError::StreamError(s) => sclass(s),
        CameleonError::GenApiContextMissing => 13,
        CameleonError::InvalidGenApiXml(_) => 14,
        CameleonError::GenApiError(GenApiError::Device(inner)) => match inner.downcast_ref::<ControlError>() {
            Some(c) => 300 + cclass(c),
            None => 399,
        },
        CameleonError::GenApiError(_) => 16,
    }
}

type Cam<C> = Camera<FakeCtrl, FakeStrm, C>;

// what the harness needs of a context type beyond GenApiCtxt + FromXml: a look into the register cache, and (the
// sharable context only) a second handle
trait Probe: GenApiCtxt + FromXml {
    fn is_cached(&self, reg: &str, addr: u64) -> bool;
    fn second_handle(&self) -> Option<Box<dyn Any>>;
}

impl Probe for DefaultGenApiCtxt {
    fn is_cached(&self, reg: &str, addr: u64) -> bool {
        match self.node_store.id_by_name(reg) {
            None => false,
            Some(nid) => self.value_ctxt.get_cache(nid, addr as i64, 4).is_some(),
        }
    }
    fn second_handle(&self) -> Option<Box<dyn Any>> {
        None
    }
}

impl Probe for SharedDefaultGenApiCtxt {
    fn is_cached(&self, reg: &str, addr: u64) -> bool {
        match self.node_store.id_by_name(reg) {
            None => false,
            Some(nid) => self.value_ctxt.lock().unwrap().get_cache(nid, addr as i64, 4).is_some(),
        }
    }
    fn second_handle(&self) -> Option<Box<dyn Any>> {
        Some(Box::new(self.clone()))
    }
}

// the "params access" call: what an application does to read a feature
fn params_access<C: Probe>(cam: &mut Cam<C>) -> Result<i64, CameleonError> {
    let mut ctxt = cam.params_ctxt()?;
    let node = ctxt
        .node("TLParamsLocked")
        .ok_or_else(|| CameleonError::InvalidGenApiXml("missing TLParamsLocked".into()))?
        .as_integer(&ctxt)
        .ok_or_else(|| CameleonError::InvalidGenApiXml("TLParamsLocked has invalid interface".into()))?;
    Ok(node.value(&mut ctxt)?)
}

// the "bank access" call: select slot k, read the bank register through the camera's params context
fn bank_access<C: Probe>(cam: &mut Cam<C>, k: i64) -> Result<i64, CameleonError> {
    let mut ctxt = cam.params_ctxt()?;
    let sel = ctxt
        .node("BankSelector")
        .ok_or_else(|| CameleonError::InvalidGenApiXml("missing BankSelector".into()))?
        .as_integer(&ctxt)
        .ok_or_else(|| CameleonError::InvalidGenApiXml("BankSelector has invalid interface".into()))?;
    sel.set_value(&mut ctxt, k)?;
    let bank = ctxt
        .node("BankReg")
        .ok_or_else(|| CameleonError::InvalidGenApiXml("missing BankReg".into()))?
        .as_integer(&ctxt)
        .ok_or_else(|| CameleonError::InvalidGenApiXml("BankReg has invalid interface".into()))?;
    Ok(bank.value(&mut ctxt)?)
}

// the "params write" call: a variable of the context is written through the camera's params context
fn user_write<C: Probe>(cam: &mut Cam<C>, v: i64) -> Result<i64, CameleonError> {
    let mut ctxt = cam.params_ctxt()?;
    let var = ctxt
        .node("UserVar")
        .ok_or_else(|| CameleonError::InvalidGenApiXml("missing UserVar".into()))?
        .as_integer(&ctxt)
        .ok_or_else(|| CameleonError::InvalidGenApiXml("UserVar has invalid interface".into()))?;
    var.set_value(&mut ctxt, v)?;
    Ok(-1)
}

fn cached<C: Probe>(cam: &Cam<C>, reg: &str, addr: u64) -> bool {
    match cam.ctxt.as_ref() {
        None => false,
        Some(c) => c.is_cached(reg, addr),
    }
}

fn run_case<C: Probe>(toks: &[&str]) -> Option<Vec<i128>> {
    let nums: Vec<i128> = toks.iter().map(|t| t.parse::<i128>()).collect::<Result<_, _>>().ok()?;
    let n = *nums.get(0)? as usize;
    let calls = nums.get(1..1 + n)?.to_vec();
    let m = *nums.get(1 + n)? as usize;
    let plan = nums.get(2 + n..2 + n + 3 * m)?.to_vec();
    let world = Rc::new(RefCell::new(World::default()));
    let info = CameraInfo {
        vendor_name: "V".into(),
        model_name: "M".into(),
        serial_number: "S".into(),
    };
    let mut held: Vec<Box<dyn Any>> = Vec::new(); // handles of the context kept by the application
    let mut cam: Cam<C> = Camera::new(FakeCtrl(world.clone()), FakeStrm(world.clone(), None), None, info);
    let mut out: Vec<i128> = vec![0];
    for (ci, &c) in calls.iter().enumerate() {
        {
            let mut w = world.borrow_mut();
            w.effects.clear();
            w.neff = 0;
            w.nops = 0;
            w.failed = 0;
            w.attempts.clear();
            w.fail = plan
                .chunks(3)
                .filter(|p| p[0] == ci as i128)
                .map(|p| (p[1], p[2]))
                .collect();
            if (20..=52).contains(&c) {
                w.variant = (c - 20) as usize;
            }
            if (1000 + 256 * NMEM as i128..1000 + 256 * (NMEM as i128 + 1)).contains(&c) {
                w.tl_hi = ((c - 1000) % 256) as u32 & 0xFE;
            }
            if (1000..1000 + 256 * NMEM as i128).contains(&c) {
                // the environment changes the device's memory behind the host's cache
                let k = ((c - 1000) / 256) as usize;
                w.bank[k] = ((c - 1000) % 256) as u32;
            }
        }
        let mut val: i128 = -1;
        let r = catch_unwind(AssertUnwindSafe(|| -> Result<i128, CameleonError> {
            match c {
                0 => cam.open().map(|_| -1),
                3 => cam.stop_streaming().map(|_| -1),
                4 => cam.close().map(|_| -1),
                5 => params_access(&mut cam).map(|v| v as i128),
                10..=19 => cam.start_streaming((c - 10) as usize).map(|_| -1),
                20..=52 => cam.load_context().map(|_| -1),
                81 => {
                    if let Some(h) = cam.ctxt.as_ref().and_then(|c| c.second_handle()) {
                        held.push(h);
                    }
                    Ok(-1)
                }
                82 => {
                    held.clear();
                    Ok(-1)
                }
                70..=79 => user_write(&mut cam, (c - 70) as i64).map(|v| v as i128),
                60..=63 => bank_access(&mut cam, (c - 60) as i64).map(|v| v as i128),
                _ => Ok(-1),
            }
        }));
        let res = match r {
            Err(_) => 2,
            Ok(Ok(v)) => {
                val = v;
                0
            }
            Ok(Err(e)) => eclass(&e),
        };
        if res == 0 && (20..=52).contains(&c) {
            // the description the camera holds from now on
            let mut w = world.borrow_mut();
            w.stop_value = stop_value_of((c - 20) as usize);
            w.masked = c == 52;
        }
        let w = world.borrow();
        out.push(res);
        out.push(w.failed);
        out.push(w.attempts.len() as i128);
        out.extend_from_slice(&w.attempts);
        out.push(w.neff);
        out.extend_from_slice(&w.effects);
        out.push(val);
        let mut flags: i128 = 0;
        if cam.strm.is_loop_running() {
            flags |= 1;
        }
        if cam.ctxt.is_some() {
            flags |= 2;
        }
        if cached(&cam, "TLParamsLockedReg", A_TL) || cached(&cam, "TLParamsLocked", A_TL) {
            flags |= 4;
        }
        if cached(&cam, "AcquisitionStartReg", A_START) {
            flags |= 8;
        }
        if cached(&cam, "AcquisitionStopReg", A_STOP) {
            flags |= 16;
        }
        if w.ctrl_opened {
            flags |= 32;
        }
        if w.strm_opened {
            flags |= 64;
        }
        if w.enabled {
            flags |= 128;
        }
        if w.tl != 0 {
            flags |= 256;
        }
        if w.acquiring {
            flags |= 512;
        }
        if w.mirror != 0 {
            flags |= 1024;
        }
        if cached(&cam, "TLParamsLockedMirrorReg", A_MIRROR) {
            flags |= 2048;
        }
        for k in 0..NBANK {
            if cached(&cam, "BankReg", A_BANK + 4 * k as u64) {
                flags |= 4096 << k;
            }
        }
        out.push(flags);
    }
    Some(out)
}

fn main() {
    std::panic::set_hook(Box::new(|_| {}));
    let stdin = std::io::stdin();
    let stdout = std::io::stdout();
    let mut o = std::io::BufWriter::new(stdout.lock());
    for line in stdin.lock().lines() {
        let line = match line {
            Ok(l) => l,
            Err(_) => break,
        };
        let toks: Vec<&str> = line.split_whitespace().collect();
        if toks.is_empty() {
            writeln!(o).unwrap();
            continue;
        }
        let r = if toks[0] == "cam" {
            catch_unwind(AssertUnwindSafe(|| run_case::<DefaultGenApiCtxt>(&toks[1..])))
        } else if toks[0] == "cams" {
            catch_unwind(AssertUnwindSafe(|| run_case::<SharedDefaultGenApiCtxt>(&toks[1..])))
        } else {
            Ok(None)
        };
        let v = match r {
            Err(_) => vec![2],
            Ok(None) => vec![9],
            Ok(Some(v)) => v,
        };
        let s: Vec<String> = v.iter().map(|x| x.to_string()).collect();
        writeln!(o, "{}", s.join(" ")).unwrap();
    }
    o.flush().unwrap();
}
