// Correspondence harness for C13: the U3V bootstrap register accessors of
// /repo/cameleon/src/u3v/register_map.rs driven through a recording in-memory DeviceControl.
//
// One case per stdin line:
//   rm <op> <base> <fail> <seed> <k> (<addr> x<hex>){k} <args...>
// memory(a) = explicit cell if given (later segments / writes win) else (seed + 131*a) mod 256;
// the <fail>-th device access (0-based, constructor reads included) fails with an Io error (-1: none);
// an access whose range leaves the 64-bit address space fails with an Io error.
// One result line per case: <result integers> -7 <number of accesses> <accesses...>
//   access = 0 addr len | 1 addr len bytes...
use std::collections::HashMap;
use std::io::{BufRead, Write};
use std::panic::{catch_unwind, AssertUnwindSafe};

use cameleon::genapi::CompressionType;
use cameleon::u3v::register_map::{
    Abrm, GenICamFileType, ManifestEntry, ManifestTable, Sbrm, Sirm,
};
use cameleon::{ControlError, ControlResult, DeviceControl};
use cameleon_device::u3v::BusSpeed;

struct Dev {
    cells: HashMap<u64, u8>,
    seed: u64,
    fail: i128,
    count: i128,
    log: Vec<i128>,
    nlog: i128,
}

impl Dev {
    fn byte(&self, a: u64) -> u8 {
        match self.cells.get(&a) {
            Some(b) => *b,
            None => (self.seed.wrapping_add(a.wrapping_mul(131)) & 0xff) as u8,
        }
    }
    fn check(&mut self, a: u64, n: usize) -> ControlResult<()> {
        let k = self.count;
        self.count += 1;
        if k == self.fail {
            return Err(ControlError::Io(std::io::Error::new(std::io::ErrorKind::Other, "planned").into()));
        }
        if (a as u128) + (n as u128) > (1u128 << 64) {
            return Err(ControlError::Io(std::io::Error::new(std::io::ErrorKind::Other, "range").into()));
        }
        Ok(())
    }
}

impl DeviceControl for Dev {
    fn open(&mut self) -> ControlResult<()> {
        Ok(())
    }
    fn close(&mut self) -> ControlResult<()> {
        Ok(())
    }
    fn is_opened(&self) -> bool {
        true
    }
    fn read(&mut self, address: u64, buf: &mut [u8]) -> ControlResult<()> {
        self.nlog += 1;
        self.log.extend_from_slice(&[0, address as i128, buf.len() as i128]);
        self.check(address, buf.len())?;
        for (i, b) in buf.iter_mut().enumerate() {
            *b = self.byte(address + i as u64);
        }
        Ok(())
    }
    fn write(&mut self, address: u64, data: &[u8]) -> ControlResult<()> {
        self.nlog += 1;
        self.log.extend_from_slice(&[1, address as i128, data.len() as i128]);
        self.log.extend(data.iter().map(|b| *b as i128));
        self.check(address, data.len())?;
        for (i, b) in data.iter().enumerate() {
            self.cells.insert(address + i as u64, *b);
        }
        Ok(())
    }
    fn genapi(&mut self) -> ControlResult<String> {
        Err(ControlError::NotOpened)
    }
    fn enable_streaming(&mut self) -> ControlResult<()> {
        Err(ControlError::NotOpened)
    }
    fn disable_streaming(&mut self) -> ControlResult<()> {
        Err(ControlError::NotOpened)
    }
}

fn eclass(e: &ControlError) -> i128 {
    match e {
        ControlError::Busy => 40,
        ControlError::Disconnected => 41,
        ControlError::Io(_) => 42,
        ControlError::Timeout => 43,
        ControlError::NotOpened => 44,
        ControlError::InvalidDevice(_) => 45,
        ControlError::BufferTooSmall => 46,
        ControlError::InvalidData(_) => 47,
    }
}

type Out = Vec<i128>;

fn res<T>(r: ControlResult<T>, f: impl FnOnce(T) -> Out) -> Out {
    match r {
        Ok(v) => {
            let mut o = vec![0];
            o.extend(f(v));
            o
        }
        Err(e) => vec![1, eclass(&e)],
    }
}

fn opt<T>(v: Option<T>, f: impl FnOnce(T) -> Out) -> Out {
    match v {
        None => vec![0],
        Some(x) => {
            let mut o = vec![1];
            o.extend(f(x));
            o
        }
    }
}

fn int<T: Into<i128>>(v: T) -> Out {
    vec![v.into()]
}
fn ver(v: semver::Version) -> Out {
    vec![v.major as i128, v.minor as i128, v.patch as i128]
}
fn string(s: String) -> Out {
    let mut o = vec![s.len() as i128];
    o.extend(s.as_bytes().iter().map(|b| *b as i128));
    o
}
fn boolean(b: bool) -> Out {
    vec![b as i128]
}
fn speed(s: BusSpeed) -> Out {
    vec![match s {
        BusSpeed::LowSpeed => 0,
        BusSpeed::FullSpeed => 1,
        BusSpeed::HighSpeed => 2,
        BusSpeed::SuperSpeed => 3,
        BusSpeed::SuperSpeedPlus => 4,
    }]
}

macro_rules! tryo {
    ($e:expr) => {
        match $e {
            Ok(v) => v,
            Err(e) => return vec![1, eclass(&e)],
        }
    };
}

fn run(op: u64, base: u64, dev: &mut Dev, args: &[Tok]) -> Out {
    let argi = |i: usize| -> u64 {
        match args.get(i) {
            Some(Tok::Int(v)) => *v as u64,
            _ => 0,
        }
    };
    match op {
        1..=16 | 32 | 33 | 70..=72 => {
            let abrm = tryo!(Abrm::new(dev));
            match op {
                1 => res(abrm.gencp_version(dev), ver),
                2 => res(abrm.manufacturer_name(dev), string),
                3 => res(abrm.model_name(dev), string),
                4 => res(abrm.family_name(dev), |o| opt(o, string)),
                5 => res(abrm.device_version(dev), string),
                6 => res(abrm.manufacturer_info(dev), string),
                7 => res(abrm.serial_number(dev), string),
                8 => res(abrm.user_defined_name(dev), |o| opt(o, string)),
                9 => res(abrm.manifest_table_address(dev), int),
                10 => res(abrm.sbrm_address(dev), int),
                11 => res(abrm.timestamp(dev), int),
                12 => res(abrm.timestamp_increment(dev), int),
                13 => res(abrm.device_software_interface_version(dev), |o| opt(o, string)),
                14 => res(abrm.maximum_device_response_time(dev), |d| vec![d.as_millis() as i128, d.subsec_nanos() as i128 % 1_000_000]),
                15 => res(abrm.device_configuration(dev), |c| boolean(c.is_multi_event_enabled())),
                16 => res(abrm.device_capability(), |c| {
                    vec![
                        c.is_user_defined_name_supported() as i128,
                        c.is_family_name_supported() as i128,
                        c.is_multi_event_supported() as i128,
                        c.is_stacked_commands_supported() as i128,
                        c.is_device_software_interface_version_supported() as i128,
                    ]
                }),
                32 => res(abrm.sbrm(dev), |s| {
                    let c = s.u3v_capability().unwrap();
                    vec![c.is_sirm_available() as i128, c.is_eirm_available() as i128, c.is_iidc2_available() as i128]
                }),
                33 => {
                    let t = tryo!(abrm.manifest_table(dev));
                    entries(&t, dev)
                }
                70 => {
                    let name = match args.get(0) {
                        Some(Tok::Bytes(b)) => match std::str::from_utf8(b) {
                            Ok(s) => s.to_string(),
                            Err(_) => return vec![9],
                        },
                        _ => return vec![9],
                    };
                    tryo!(abrm.set_user_defined_name(dev, &name));
                    let mut o = vec![0];
                    o.extend(res(abrm.user_defined_name(dev), |o| opt(o, string)));
                    o
                }
                71 => res(abrm.set_timestamp_latch_bit(dev), |_| vec![]),
                72 => {
                    let mut c = tryo!(abrm.device_configuration(dev));
                    let before = c.is_multi_event_enabled();
                    match argi(0) {
                        1 => c.set_multi_event_enable_bit(),
                        2 => c.disable_multi_event(),
                        _ => {}
                    }
                    let mid = c.is_multi_event_enabled();
                    tryo!(abrm.write_device_configuration(dev, c));
                    let mut o = vec![0, before as i128, mid as i128];
                    o.extend(res(abrm.device_configuration(dev), |c| boolean(c.is_multi_event_enabled())));
                    o
                }
                _ => vec![9],
            }
        }
        20..=31 => {
            let s = tryo!(Sbrm::new(dev, base));
            match op {
                20 => res(s.u3v_version(dev), ver),
                21 => res(s.maximum_command_transfer_length(dev), int),
                22 => res(s.maximum_acknowledge_trasfer_length(dev), int),
                23 => res(s.number_of_stream_channel(dev), int),
                24 => res(s.sirm_address(dev), |o| opt(o, int)),
                25 => res(s.sirm_length(dev), |o| opt(o, int)),
                26 => res(s.eirm_address(dev), |o| opt(o, int)),
                27 => res(s.eirm_length(dev), |o| opt(o, int)),
                28 => res(s.iidc2_address(dev), |o| opt(o, int)),
                29 => res(s.current_speed(dev), speed),
                30 => res(s.u3v_capability(), |c| {
                    vec![c.is_sirm_available() as i128, c.is_eirm_available() as i128, c.is_iidc2_available() as i128]
                }),
                31 => {
                    let o = tryo!(s.sirm(dev));
                    let mut out = vec![0];
                    match o {
                        None => out.push(0),
                        Some(sirm) => {
                            out.push(1);
                            out.extend(res(sirm.required_leader_size(dev), int));
                        }
                    }
                    out
                }
                _ => vec![9],
            }
        }
        40..=50 | 80..=87 => {
            let s = Sirm::new(base);
            let v = argi(0) as u32;
            match op {
                40 => res(s.payload_size_alignment(dev), |x| vec![x as i128]),
                41 => res(s.is_stream_enable(dev), boolean),
                42 => res(s.required_payload_size(dev), int),
                43 => res(s.required_leader_size(dev), int),
                44 => res(s.required_trailer_size(dev), int),
                45 => res(s.maximum_leader_size(dev), int),
                46 => res(s.maximum_trailer_size(dev), int),
                47 => res(s.payload_transfer_size(dev), int),
                48 => res(s.payload_transfer_count(dev), int),
                49 => res(s.payload_final_transfer1_size(dev), int),
                50 => res(s.payload_final_transfer2_size(dev), int),
                80 | 81 => {
                    if op == 80 {
                        tryo!(s.enable_stream(dev));
                    } else {
                        tryo!(s.disable_stream(dev));
                    }
                    let mut o = vec![0];
                    o.extend(res(s.is_stream_enable(dev), boolean));
                    o
                }
                82..=87 => {
                    match op {
                        82 => tryo!(s.set_maximum_leader_size(dev, v)),
                        83 => tryo!(s.set_maximum_trailer_size(dev, v)),
                        84 => tryo!(s.set_payload_transfer_size(dev, v)),
                        85 => tryo!(s.set_payload_transfer_count(dev, v)),
                        86 => tryo!(s.set_payload_final_transfer1_size(dev, v)),
                        _ => tryo!(s.set_payload_final_transfer2_size(dev, v)),
                    }
                    let mut o = vec![0];
                    o.extend(match op {
                        82 => res(s.maximum_leader_size(dev), int),
                        83 => res(s.maximum_trailer_size(dev), int),
                        84 => res(s.payload_transfer_size(dev), int),
                        85 => res(s.payload_transfer_count(dev), int),
                        86 => res(s.payload_final_transfer1_size(dev), int),
                        _ => res(s.payload_final_transfer2_size(dev), int),
                    });
                    o
                }
                _ => vec![9],
            }
        }
        60 => entries(&ManifestTable::new(base), dev),
        61..=65 => {
            let e = ManifestEntry::new(base);
            match op {
                61 => res(e.genicam_file_version(dev), ver),
                62 => res(e.file_address(dev), int),
                63 => res(e.file_size(dev), int),
                64 => res(e.file_info(dev), |fi| {
                    let mut o = vec![];
                    match fi.file_type() {
                        Ok(GenICamFileType::DeviceXml) => o.extend_from_slice(&[0, 0]),
                        Ok(GenICamFileType::BufferXml) => o.extend_from_slice(&[0, 1]),
                        Err(e) => o.extend_from_slice(&[1, eclass(&e)]),
                    }
                    match fi.compression_type() {
                        Ok(CompressionType::Uncompressed) => o.extend_from_slice(&[0, 0]),
                        Ok(CompressionType::Zip) => o.extend_from_slice(&[0, 1]),
                        Err(e) => o.extend_from_slice(&[1, eclass(&e)]),
                    }
                    o.extend(ver(fi.schema_version()));
                    o
                }),
                _ => res(e.sha1_hash(dev), |o| opt(o, |h| h.iter().map(|b| *b as i128).collect())),
            }
        }
        _ => vec![9],
    }
}

// entry count, then the file_size accessor of the first (at most three) entries: the access log
// shows where each entry was placed.
fn entries(t: &ManifestTable, dev: &mut Dev) -> Out {
    let it = tryo!(t.entries(dev));
    let mut n: i128 = 0;
    let mut first = vec![];
    for (i, e) in it.enumerate() {
        if i < 3 {
            first.push(e);
        }
        n += 1;
        if n >= 1000 {
            break;
        }
    }
    let mut o = vec![0, n];
    for e in first {
        o.extend(res(e.file_size(dev), int));
    }
    o
}

enum Tok {
    Int(i128),
    Bytes(Vec<u8>),
}

fn unhex(s: &str) -> Vec<u8> {
    (0..s.len() / 2).map(|i| u8::from_str_radix(&s[2 * i..2 * i + 2], 16).unwrap()).collect()
}

fn one(line: &str) -> Out {
    let toks: Vec<Tok> = line
        .split_whitespace()
        .skip(1)
        .map(|t| if let Some(h) = t.strip_prefix('x') { Tok::Bytes(unhex(h)) } else { Tok::Int(t.parse().unwrap()) })
        .collect();
    let int = |i: usize| match &toks[i] {
        Tok::Int(v) => *v,
        _ => panic!("integer expected"),
    };
    let (op, base, fail, seed, k) = (int(0) as u64, int(1) as u64, int(2), int(3) as u64, int(4) as usize);
    let mut dev = Dev { cells: HashMap::new(), seed, fail, count: 0, log: vec![], nlog: 0 };
    for j in 0..k {
        let a = int(5 + 2 * j) as u64;
        if let Tok::Bytes(bs) = &toks[6 + 2 * j] {
            for (i, b) in bs.iter().enumerate() {
                dev.cells.insert(a.wrapping_add(i as u64), *b);
            }
        }
    }
    let args = &toks[5 + 2 * k..];
    let r = catch_unwind(AssertUnwindSafe(|| run(op, base, &mut dev, args)));
    let mut out = r.unwrap_or_else(|_| vec![2]);
    out.push(-7);
    out.push(dev.nlog);
    out.extend(dev.log.iter());
    out
}

fn main() {
    std::panic::set_hook(Box::new(|_| {}));
    let stdin = std::io::stdin();
    let stdout = std::io::stdout();
    let mut w = std::io::BufWriter::new(stdout.lock());
    for line in stdin.lock().lines() {
        let line = line.unwrap();
        if line.trim().is_empty() {
            writeln!(w).unwrap();
            continue;
        }
        let out = catch_unwind(AssertUnwindSafe(|| one(&line))).unwrap_or_else(|_| vec![8]);
        let s: Vec<String> = out.iter().map(|x| x.to_string()).collect();
        writeln!(w, "{}", s.join(" ")).unwrap();
        w.flush().unwrap();
    }
}
