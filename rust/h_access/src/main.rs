// C18 correspondence harness for /repo/genapi: access verdicts of every node after every step of
// a history that flips the controlling nodes.
//
// line:  a <flags> x<xml utf8 hex> <base> x<image hex> <n> op op ...
//   flags: bit0 = build with .no_cache()
//   the device memory is [base, base + |image|); accesses outside fail with a device error
//   nodes are named N0 .. N<n-1>
//   ops:  s:N:val   IInteger::set_value        bs:N:0|1   IBoolean::set_value
//         sev:N:val IEnumeration::set_entry_by_value      fs:N:val IFloat::set_value (val integral)
//         cc        clear_cache                           nop      nothing
// output: one flat list of codes: the 2n verdicts (is_readable, is_writable of N0, N1, ...) of the
//   initial state, then per op: its result code followed by the 2n verdicts after it.
//   verdict / result codes: 0 = Ok(false) / Ok(()), 1 = Ok(true), 2 = panic, 100 + class = Err,
//   190 = the node has no interface offering the query.
use cameleon_genapi::builder::GenApiBuilder;
use cameleon_genapi::interface::*;
use cameleon_genapi::store::{CacheStore, DefaultNodeStore, NodeId, NodeStore, ValueStore};
use cameleon_genapi::{Device, GenApiError, GenApiResult, ValueCtxt};
use std::io::{BufRead, Write};
use std::panic::{catch_unwind, AssertUnwindSafe};

struct Dev {
    base: i64,
    mem: Vec<u8>,
}

impl Dev {
    fn check(&mut self, address: i64, len: usize) -> Result<usize, Box<dyn std::error::Error + Send + Sync>> {
        let off = (address as i128) - (self.base as i128);
        if off < 0 || off + len as i128 > self.mem.len() as i128 {
            return Err("address out of device memory".into());
        }
        Ok(off as usize)
    }
}

impl Device for Dev {
    fn read_mem(&mut self, address: i64, buf: &mut [u8]) -> Result<(), Box<dyn std::error::Error + Send + Sync>> {
        let off = self.check(address, buf.len())?;
        buf.copy_from_slice(&self.mem[off..off + buf.len()]);
        Ok(())
    }
    fn write_mem(&mut self, address: i64, data: &[u8]) -> Result<(), Box<dyn std::error::Error + Send + Sync>> {
        let off = self.check(address, data.len())?;
        self.mem[off..off + data.len()].copy_from_slice(data);
        Ok(())
    }
}

fn eclass(e: &GenApiError) -> i64 {
    match e {
        GenApiError::Device(_) => 30,
        GenApiError::NotWritable => 31,
        GenApiError::InvalidNode(_) => 32,
        GenApiError::InvalidData(_) => 33,
        GenApiError::ChunkDataMissing => 34,
        GenApiError::InvalidBuffer(_) => 35,
    }
}

const NO_IFACE: i64 = 190;
const PANIC: i64 = 2;

fn code_b(r: GenApiResult<bool>) -> i64 {
    match r {
        Ok(b) => b as i64,
        Err(e) => 100 + eclass(&e),
    }
}

fn code_u(r: GenApiResult<()>) -> i64 {
    match r {
        Ok(()) => 0,
        Err(e) => 100 + eclass(&e),
    }
}

fn verdict<T: ValueStore, U: CacheStore>(
    rd: bool,
    nid: NodeId,
    dev: &mut Dev,
    store: &DefaultNodeStore,
    cx: &mut ValueCtxt<T, U>,
) -> i64 {
    macro_rules! rw {
        ($n:expr) => {
            if rd {
                code_b($n.is_readable(dev, store, cx))
            } else {
                code_b($n.is_writable(dev, store, cx))
            }
        };
    }
    if let Some(n) = nid.as_iinteger_kind(store) {
        rw!(n)
    } else if let Some(n) = nid.as_ifloat_kind(store) {
        rw!(n)
    } else if let Some(n) = nid.as_istring_kind(store) {
        rw!(n)
    } else if let Some(n) = nid.as_iboolean_kind(store) {
        rw!(n)
    } else if let Some(n) = nid.as_ienumeration_kind(store) {
        rw!(n)
    } else if let Some(n) = nid.as_icommand_kind(store) {
        if rd {
            NO_IFACE
        } else {
            code_b(n.is_writable(dev, store, cx))
        }
    } else {
        NO_IFACE
    }
}

fn verdicts<T: ValueStore, U: CacheStore>(
    ids: &[Option<NodeId>],
    dev: &mut Dev,
    store: &DefaultNodeStore,
    cx: &mut ValueCtxt<T, U>,
    out: &mut Vec<i64>,
) {
    for id in ids {
        for rd in [true, false] {
            let c = match id {
                None => NO_IFACE + 1,
                Some(nid) => catch_unwind(AssertUnwindSafe(|| verdict(rd, *nid, dev, store, cx))).unwrap_or(PANIC),
            };
            out.push(c);
        }
    }
}

fn run_op<T: ValueStore, U: CacheStore>(
    op: &str,
    dev: &mut Dev,
    store: &DefaultNodeStore,
    cx: &mut ValueCtxt<T, U>,
) -> i64 {
    let p: Vec<&str> = op.split(':').collect();
    match p[0] {
        "cc" => {
            cx.clear_cache();
            return 0;
        }
        "nop" => return 0,
        _ => {}
    }
    let nid: NodeId = match store.id_by_name(p[1]) {
        Some(n) if store.node_opt(n).is_some() => n,
        _ => return NO_IFACE + 1,
    };
    macro_rules! iface {
        ($m:ident) => {
            match nid.$m(store) {
                Some(n) => n,
                None => return NO_IFACE,
            }
        };
    }
    match p[0] {
        "s" => code_u(iface!(as_iinteger_kind).set_value(p[2].parse().unwrap(), dev, store, cx)),
        "bs" => code_u(iface!(as_iboolean_kind).set_value(p[2] == "1", dev, store, cx)),
        "sev" => code_u(iface!(as_ienumeration_kind).set_entry_by_value(p[2].parse().unwrap(), dev, store, cx)),
        "fs" => code_u(iface!(as_ifloat_kind).set_value(p[2].parse::<i64>().unwrap() as f64, dev, store, cx)),
        k => panic!("unknown op {}", k),
    }
}

fn run_history<T: ValueStore, U: CacheStore>(
    n: usize,
    ops: &[&str],
    dev: &mut Dev,
    store: &DefaultNodeStore,
    cx: &mut ValueCtxt<T, U>,
) -> Vec<i64> {
    let ids: Vec<Option<NodeId>> = (0..n)
        .map(|i| match store.id_by_name(&format!("N{}", i)) {
            Some(nid) if store.node_opt(nid).is_some() => Some(nid),
            _ => None,
        })
        .collect();
    let mut out = vec![];
    verdicts(&ids, dev, store, cx, &mut out);
    for op in ops {
        let r = catch_unwind(AssertUnwindSafe(|| run_op(op, dev, store, cx))).unwrap_or(PANIC);
        out.push(r);
        verdicts(&ids, dev, store, cx, &mut out);
    }
    out
}

fn hex(s: &str) -> Vec<u8> {
    (0..s.len() / 2).map(|i| u8::from_str_radix(&s[2 * i..2 * i + 2], 16).unwrap()).collect()
}

fn run(t: &[&str]) -> Vec<i64> {
    let flags: u32 = t[1].parse().unwrap();
    let xml = String::from_utf8(hex(&t[2][1..])).unwrap();
    let base: i64 = t[3].parse().unwrap();
    let mut dev = Dev { base, mem: hex(&t[4][1..]) };
    let n: usize = t[5].parse().unwrap();
    let ops = &t[6..];
    if flags & 1 == 1 {
        match GenApiBuilder::<DefaultNodeStore>::default().no_cache().build(&xml) {
            Err(_) => vec![1, 99],
            Ok((_, store, mut cx)) => run_history(n, ops, &mut dev, &store, &mut cx),
        }
    } else {
        match GenApiBuilder::<DefaultNodeStore>::default().build(&xml) {
            Err(_) => vec![1, 99],
            Ok((_, store, mut cx)) => run_history(n, ops, &mut dev, &store, &mut cx),
        }
    }
}

fn main() {
    std::panic::set_hook(Box::new(|_| {}));
    let stdin = std::io::stdin();
    let stdout = std::io::stdout();
    let mut out = std::io::BufWriter::new(stdout.lock());
    for line in stdin.lock().lines() {
        let line = line.unwrap();
        let t: Vec<&str> = line.split_whitespace().collect();
        if t.is_empty() {
            continue;
        }
        let r = catch_unwind(AssertUnwindSafe(|| run(&t))).unwrap_or_else(|_| vec![2]);
        let s: Vec<String> = r.iter().map(|x| x.to_string()).collect();
        writeln!(out, "{}", s.join(" ")).unwrap();
        out.flush().unwrap();
    }
}
