// C08: AckPacket / EventPacket decoding; prints every exposed field.
use crate::{eclass, hex};
use cameleon_device::u3v::protocol::{ack, event};
use cameleon_device::u3v::Result;
use std::panic::{catch_unwind, AssertUnwindSafe};

fn status_kind(k: ack::StatusKind) -> i128 {
    use ack::GenCpStatus::*;
    use ack::UsbSpecificStatus::*;
    match k {
        ack::StatusKind::GenCp(s) => match s {
            Success => 0,
            NotImplemented => 1,
            InvalidParameter => 2,
            InvalidAddress => 3,
            WriteProtect => 4,
            BadAlignment => 5,
            AccessDenied => 6,
            Busy => 7,
            Timeout => 8,
            InvalidHeader => 9,
            WrongConfig => 10,
            GenericError => 11,
        },
        ack::StatusKind::UsbSpecific(s) => match s {
            ResendNotSupported => 100,
            StreamEndpointHalted => 101,
            PayloadSizeNotAligned => 102,
            InvalidSiState => 103,
            EventEndpointHalted => 104,
        },
        ack::StatusKind::DeviceSpecific => 200,
    }
}

fn view<T>(r: std::thread::Result<Result<T>>, sh: impl Fn(T) -> Vec<i128>) -> Vec<i128> {
    let v = match r {
        Err(_) => vec![2],
        Ok(Err(e)) => vec![1, eclass(&e)],
        Ok(Ok(x)) => {
            let mut v = vec![0];
            v.extend(sh(x));
            v
        }
    };
    let mut out = vec![v.len() as i128];
    out.extend(v);
    out
}

fn bytes(d: &[u8]) -> Vec<i128> {
    let mut v = vec![d.len() as i128];
    v.extend(d.iter().map(|b| *b as i128));
    v
}

fn run_ack(buf: &[u8]) -> Vec<i128> {
    let a = match ack::AckPacket::parse(buf) {
        Err(e) => return vec![1, eclass(&e)],
        Ok(a) => a,
    };
    let kind = match a.scd_kind() {
        ack::ScdKind::ReadMem => 0,
        ack::ScdKind::WriteMem => 1,
        ack::ScdKind::ReadMemStacked => 2,
        ack::ScdKind::WriteMemStacked => 3,
        ack::ScdKind::Pending => 4,
    };
    let st = a.status();
    let mut out = vec![
        0,
        st.code() as i128,
        status_kind(st.kind()),
        st.is_fatal() as i128,
        st.is_success() as i128,
        kind,
        a.ccd().scd_len() as i128,
        a.request_id() as i128,
        a.raw_scd().len() as i128,
    ];
    // the raw SCD must be the tail of the input
    assert!(buf.ends_with(a.raw_scd()));
    out.extend(view(catch_unwind(AssertUnwindSafe(|| a.scd_as::<ack::ReadMem>())), |x| bytes(x.data)));
    out.extend(view(catch_unwind(AssertUnwindSafe(|| a.scd_as::<ack::WriteMem>())), |x| vec![x.length as i128]));
    out.extend(view(catch_unwind(AssertUnwindSafe(|| a.scd_as::<ack::Pending>())), |x| {
        vec![x.timeout.as_millis() as i128]
    }));
    out.extend(view(catch_unwind(AssertUnwindSafe(|| a.scd_as::<ack::ReadMemStacked>())), |x| bytes(x.data)));
    out.extend(view(catch_unwind(AssertUnwindSafe(|| a.scd_as::<ack::WriteMemStacked>())), |x| {
        let mut v = vec![x.lengths.len() as i128];
        v.extend(x.lengths.iter().map(|l| *l as i128));
        v
    }));
    out
}

fn run_event(buf: &[u8]) -> Vec<i128> {
    match event::EventPacket::parse(buf) {
        Err(e) => vec![1, eclass(&e)],
        Ok(p) => {
            let mut out = vec![0, p.request_id() as i128, p.scd.len() as i128];
            for e in &p.scd {
                out.push(e.event_size as i128);
                out.push(e.event_id as i128);
                out.push(e.timestamp as i128);
                out.extend(bytes(e.data));
            }
            out
        }
    }
}

pub fn run(t: &[&str]) -> Vec<i128> {
    let buf = hex(&t[1][1..]);
    match t[0] {
        "c08a" => run_ack(&buf),
        "c08e" => run_event(&buf),
        k => panic!("unknown kind {}", k),
    }
}
