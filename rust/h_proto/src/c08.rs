pub fn run(_t: &[&str]) -> Vec<i128> { unimplemented!() }
