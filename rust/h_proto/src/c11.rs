// C11 (codec part): stream leader / trailer decoding and the pixel-format table.
use crate::{eclass, hex, parse};
use cameleon_device::u3v::protocol::stream;
use cameleon_device::u3v::Result;
use cameleon_device::PixelFormat;
use std::convert::TryFrom;
use std::panic::{catch_unwind, AssertUnwindSafe};

fn view<T>(r: std::thread::Result<Result<T>>, sh: impl Fn(T) -> Vec<i128>) -> Vec<i128> {
    let v = match r {
        Err(_) => vec![2],
        Ok(Err(e)) => vec![1, eclass(&e)],
        Ok(Ok(x)) => {
            let mut v = vec![0];
            v.extend(sh(x));
            v
        }
    };
    let mut out = vec![v.len() as i128];
    out.extend(v);
    out
}

fn ptype(t: stream::PayloadType) -> i128 {
    match t {
        stream::PayloadType::Image => 0,
        stream::PayloadType::ImageExtendedChunk => 1,
        stream::PayloadType::Chunk => 2,
    }
}

fn run_leader(buf: &[u8]) -> Vec<i128> {
    let l = match stream::Leader::parse(buf) {
        Err(e) => return vec![1, eclass(&e)],
        Ok(l) => l,
    };
    // length of the type specific part = what is left after the 20-byte generic leader
    let mut out = vec![0, l.leader_size() as i128, l.block_id() as i128, ptype(l.payload_type()), buf.len() as i128 - 20];
    out.extend(view(catch_unwind(AssertUnwindSafe(|| l.specific_leader_as::<stream::ImageLeader>())), |x| {
        vec![
            x.timestamp().as_nanos() as i128,
            x.pixel_format() as u32 as i128,
            x.width() as i128,
            x.height() as i128,
            x.x_offset() as i128,
            x.y_offset() as i128,
            x.x_padding() as i128,
        ]
    }));
    // ImageExtendedChunkLeader must decode exactly like ImageLeader
    let a = catch_unwind(AssertUnwindSafe(|| l.specific_leader_as::<stream::ImageExtendedChunkLeader>()));
    let b = catch_unwind(AssertUnwindSafe(|| l.specific_leader_as::<stream::ImageLeader>()));
    match (a, b) {
        (Ok(Ok(x)), Ok(Ok(y))) => assert!(
            x.timestamp() == y.timestamp()
                && x.pixel_format() == y.pixel_format()
                && x.width() == y.width()
                && x.height() == y.height()
                && x.x_offset() == y.x_offset()
                && x.y_offset() == y.y_offset()
                && x.x_padding() == y.x_padding()
        ),
        (Ok(Err(x)), Ok(Err(y))) => assert_eq!(eclass(&x), eclass(&y)),
        (Err(_), Err(_)) => {}
        _ => panic!("ImageExtendedChunkLeader differs from ImageLeader"),
    }
    out.extend(view(catch_unwind(AssertUnwindSafe(|| l.specific_leader_as::<stream::ChunkLeader>())), |x| {
        vec![x.timestamp().as_nanos() as i128]
    }));
    out
}

fn pstatus(s: stream::PayloadStatus) -> i128 {
    match s {
        stream::PayloadStatus::Success => 0,
        stream::PayloadStatus::DataDiscarded => 1,
        stream::PayloadStatus::DataOverrun => 2,
    }
}

fn run_trailer(buf: &[u8]) -> Vec<i128> {
    let t = match stream::Trailer::parse(buf) {
        Err(e) => return vec![1, eclass(&e)],
        Ok(t) => t,
    };
    let mut out = vec![
        0,
        t.trailer_size() as i128,
        t.block_id() as i128,
        pstatus(t.payload_status()),
        t.valid_payload_size() as i128,
        buf.len() as i128 - 28,
    ];
    out.extend(view(catch_unwind(AssertUnwindSafe(|| t.specific_trailer_as::<stream::ImageTrailer>())), |x| {
        vec![x.actual_height() as i128]
    }));
    out.extend(view(
        catch_unwind(AssertUnwindSafe(|| t.specific_trailer_as::<stream::ImageExtendedChunkTrailer>())),
        |x| vec![x.actual_height() as i128, x.chunk_layout_id() as i128],
    ));
    out.extend(view(catch_unwind(AssertUnwindSafe(|| t.specific_trailer_as::<stream::ChunkTrailer>())), |x| {
        vec![x.chunk_layout_id() as i128]
    }));
    out
}

fn run_pixel(code: u32) -> Vec<i128> {
    match PixelFormat::try_from(code) {
        Ok(pf) => vec![0, pf as u32 as i128, u32::from(pf) as i128],
        Err(_) => vec![1, 10],
    }
}

// sweep a range of codes: count of accepted codes, count of accepted codes that do not map back
fn sweep_pixel(lo: u64, hi: u64) -> Vec<i128> {
    let (mut acc, mut bad, mut first_bad) = (0i128, 0i128, -1i128);
    let mut sum: u128 = 0;
    for c in lo..hi {
        if let Ok(pf) = PixelFormat::try_from(c as u32) {
            acc += 1;
            sum += c as u128 * 31 + pf as u32 as u128;
            if u32::from(pf) != c as u32 {
                bad += 1;
                if first_bad < 0 {
                    first_bad = c as i128;
                }
            }
        }
    }
    vec![0, acc, bad, first_bad, sum as i128]
}

pub fn run(t: &[&str]) -> Vec<i128> {
    match t[0] {
        "c11l" => run_leader(&hex(&t[1][1..])),
        "c11t" => run_trailer(&hex(&t[1][1..])),
        "c11p" => run_pixel(parse(t[1])),
        "c11sweep" => sweep_pixel(parse(t[1]), parse(t[2])),
        k => panic!("unknown kind {}", k),
    }
}
