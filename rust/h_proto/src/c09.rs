// C09: command construction and serialization into a Vec or a fixed slice.
use crate::{eclass, parse, pat_data};
use cameleon_device::u3v::prelude::*;
use cameleon_device::u3v::protocol::cmd::{self, CommandPacket};

fn show<T: CommandScd>(p: CommandPacket<T>, cap: i64) -> Vec<i128> {
    let mut out = vec![0, p.cmd_len() as i128, p.maximum_ack_len() as i128];
    if cap < 0 {
        let mut buf = vec![];
        let r = p.serialize(&mut buf);
        out.push(r.as_ref().err().map(eclass).unwrap_or(0));
        out.push(buf.len() as i128);
        out.extend(buf.iter().map(|b| *b as i128));
    } else {
        let mut buf = vec![0u8; cap as usize];
        let rem;
        let r;
        {
            let mut cur = &mut buf[..];
            r = p.serialize(&mut cur);
            rem = cur.len();
        }
        let written = cap as usize - rem;
        out.push(r.as_ref().err().map(eclass).unwrap_or(0));
        out.push(written as i128);
        out.extend(buf[..written].iter().map(|b| *b as i128));
    }
    out
}

pub fn run(t: &[&str]) -> Vec<i128> {
    match t[0] {
        "c09r" => {
            let (a, n, id, cap): (u64, u16, u16, i64) = (parse(t[1]), parse(t[2]), parse(t[3]), parse(t[4]));
            show(cmd::ReadMem::new(a, n).finalize(id), cap)
        }
        "c09w" => {
            let (a, n, seed, id, cap): (u64, usize, u64, u16, i64) =
                (parse(t[1]), parse(t[2]), parse(t[3]), parse(t[4]), parse(t[5]));
            let data = pat_data(seed, n);
            match cmd::WriteMem::new(a, &data) {
                Err(e) => vec![1, eclass(&e)],
                Ok(w) => show(w.finalize(id), cap),
            }
        }
        "c09rs" => {
            let (id, cap): (u16, i64) = (parse(t[1]), parse(t[2]));
            let es: Vec<cmd::ReadMem> =
                t[3..].chunks(2).map(|c| cmd::ReadMem::new(parse(c[0]), parse(c[1]))).collect();
            match cmd::ReadMemStacked::new(es) {
                Err(e) => vec![1, eclass(&e)],
                Ok(c) => show(c.finalize(id), cap),
            }
        }
        "c09ws" => {
            let (id, cap): (u16, i64) = (parse(t[1]), parse(t[2]));
            let datas: Vec<(u64, Vec<u8>)> = t[3..]
                .chunks(3)
                .map(|c| (parse::<u64>(c[0]), pat_data(parse(c[2]), parse(c[1]))))
                .collect();
            let mut es = vec![];
            for (a, d) in &datas {
                match cmd::WriteMem::new(*a, d) {
                    Err(e) => return vec![1, eclass(&e)],
                    Ok(w) => es.push(w),
                }
            }
            match cmd::WriteMemStacked::new(es) {
                Err(e) => vec![1, eclass(&e)],
                Ok(c) => show(c.finalize(id), cap),
            }
        }
        "c09wc" | "c09rc" => {
            // every command produced by chunks(): its own cmd_len / maximum_ack_len / serialization
            // (length-prefixed per chunk), request ids id, id+1, ...
            let (a, n, seed, id, budget): (u64, usize, u64, u16, usize) =
                (parse(t[1]), parse(t[2]), parse(t[3]), parse(t[4]), parse(t[5]));
            let mut out = vec![0];
            if t[0] == "c09wc" {
                let data = pat_data(seed, n);
                let w = match cmd::WriteMem::new(a, &data) {
                    Err(e) => return vec![1, eclass(&e)],
                    Ok(w) => w,
                };
                match w.chunks(budget) {
                    Err(e) => return vec![1, eclass(&e)],
                    Ok(it) => {
                        for (i, c) in it.enumerate() {
                            let one = show(c.finalize(id.wrapping_add(i as u16)), -1);
                            out.push(one.len() as i128);
                            out.extend(one);
                        }
                    }
                }
            } else {
                match cmd::ReadMem::new(a, n as u16).chunks(budget) {
                    Err(e) => return vec![1, eclass(&e)],
                    Ok(it) => {
                        for (i, c) in it.enumerate() {
                            let one = show(c.finalize(id.wrapping_add(i as u16)), -1);
                            out.push(one.len() as i128);
                            out.extend(one);
                        }
                    }
                }
            }
            out
        }
        k => panic!("unknown kind {}", k),
    }
}
