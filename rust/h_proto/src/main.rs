// Correspondence harness for the pure protocol codecs of /repo/device.
// One case per stdin line; one result line (space separated integers) per case.
use std::io::{BufRead, Write};
use std::panic::{catch_unwind, AssertUnwindSafe};

use cameleon_device::u3v::prelude::*;
use cameleon_device::u3v::protocol::cmd;
use cameleon_device::u3v::Error;

mod c08;
mod c09;
mod c11;

pub fn eclass(e: &Error) -> i128 {
    match e {
        Error::InvalidPacket(_) => 10,
        Error::BufferIo(_) => 11,
        Error::LibUsb(_) => 12,
        Error::InvalidDevice => 13,
    }
}

pub fn le(bs: &[u8]) -> i128 {
    let mut v: i128 = 0;
    for (i, b) in bs.iter().enumerate() {
        v |= (*b as i128) << (8 * i);
    }
    v
}

pub fn pat_data(seed: u64, n: usize) -> Vec<u8> {
    (0..n).map(|i| ((seed + i as u64) % 256) as u8).collect()
}

fn c10r(a: u64, n: u16, b: usize) -> Vec<i128> {
    match cmd::ReadMem::new(a, n).chunks(b) {
        Err(e) => vec![1, eclass(&e)],
        Ok(it) => {
            let mut out = vec![0];
            for c in it {
                let mut buf = vec![];
                let len = c.read_length();
                c.finalize(0).serialize(&mut buf).unwrap();
                out.push(le(&buf[12..20]));
                out.push(len as i128);
            }
            out
        }
    }
}

fn c10w(a: u64, n: usize, seed: u64, b: usize) -> Vec<i128> {
    let data = pat_data(seed, n);
    let w = match cmd::WriteMem::new(a, &data) {
        Err(e) => return vec![1, eclass(&e)],
        Ok(w) => w,
    };
    match w.chunks(b) {
        Err(e) => vec![1, eclass(&e)],
        Ok(it) => {
            let mut out = vec![0];
            for c in it {
                let mut buf = vec![];
                let dl = c.data_len();
                c.finalize(0).serialize(&mut buf).unwrap();
                out.push(le(&buf[12..20]));
                out.push(dl as i128);
                let d = &buf[20..];
                assert_eq!(d.len(), dl);
                out.push(d.first().map(|x| *x as i128).unwrap_or(-1));
                out.push(d.last().map(|x| *x as i128).unwrap_or(-1));
            }
            out
        }
    }
}

// The property's own predicate, evaluated on the implementation alone over a
// full grid (failing-input search; independent of the model).
fn read_pred(a: u64, n: u16, b: usize) -> bool {
    let r = catch_unwind(AssertUnwindSafe(|| c10r(a, n, b))).unwrap_or_else(|_| vec![2]);
    if b <= 12 {
        return r == vec![1, 10];
    }
    if r[0] != 0 {
        return false;
    }
    let cs = &r[1..];
    let k = cs.len() / 2;
    if n == 0 {
        return k == 0;
    }
    let mut addr = a as i128;
    let mut sum = 0i128;
    for i in 0..k {
        let (ca, cl) = (cs[2 * i], cs[2 * i + 1]);
        if ca != addr || cl <= 0 || 12 + cl > b as i128 {
            return false;
        }
        if i + 1 < k && 12 + cl != b as i128 {
            return false;
        }
        addr += cl;
        sum += cl;
    }
    sum == n as i128
}

fn write_pred(a: u64, n: usize, seed: u64, b: usize) -> bool {
    let data = pat_data(seed, n);
    let r = catch_unwind(AssertUnwindSafe(|| {
        let w = match cmd::WriteMem::new(a, &data) {
            Err(_) => return None,
            Ok(w) => w,
        };
        match w.chunks(b) {
            Err(_) => None,
            Ok(it) => {
                let mut v = vec![];
                for c in it {
                    let mut buf = vec![];
                    c.finalize(0).serialize(&mut buf).unwrap();
                    v.push((le(&buf[12..20]), buf[20..].to_vec(), buf.len()));
                }
                Some(v)
            }
        }
    }));
    let r = match r {
        Err(_) => return false,
        Ok(r) => r,
    };
    if n > 65527 || b <= 20 {
        return r.is_none();
    }
    let cs = match r {
        None => return false,
        Some(cs) => cs,
    };
    if n == 0 {
        return cs.is_empty();
    }
    let mut addr = a as i128;
    let mut cat = vec![];
    for (i, (ca, d, clen)) in cs.iter().enumerate() {
        if *ca != addr || d.is_empty() || *clen > b || *clen != 20 + d.len() {
            return false;
        }
        if i + 1 < cs.len() && *clen != b {
            return false;
        }
        addr += d.len() as i128;
        cat.extend_from_slice(d);
    }
    cat == data
}

fn c10grid(kind: &str, nlo: usize, nhi: usize, blo: usize, bhi: usize, a: u64) -> Vec<i128> {
    let (mut cnt, mut nfail, mut fnn, mut fb) = (0i128, 0i128, -1i128, -1i128);
    for n in nlo..=nhi {
        for b in blo..=bhi {
            let ok = if kind == "r" { read_pred(a, n as u16, b) } else { write_pred(a, n, (n + b) as u64, b) };
            cnt += 1;
            if !ok {
                if nfail == 0 {
                    fnn = n as i128;
                    fb = b as i128;
                }
                nfail += 1;
            }
        }
    }
    vec![0, cnt, nfail, fnn, fb]
}

fn c10m(m: usize) -> Vec<i128> {
    vec![0, cmd::ReadMem::maximum_read_length(m) as i128]
}

pub fn parse<T: std::str::FromStr>(s: &str) -> T
where
    T::Err: std::fmt::Debug,
{
    s.parse::<T>().unwrap()
}

pub fn hex(s: &str) -> Vec<u8> {
    if s == "-" {
        return vec![];
    }
    (0..s.len() / 2)
        .map(|i| u8::from_str_radix(&s[2 * i..2 * i + 2], 16).unwrap())
        .collect()
}

fn run(t: &[&str]) -> Vec<i128> {
    match t[0] {
        "c10r" => c10r(parse(t[1]), parse(t[2]), parse(t[3])),
        "c10w" => c10w(parse(t[1]), parse(t[2]), parse(t[3]), parse(t[4])),
        "c10m" => c10m(parse(t[1])),
        "c10grid" => c10grid(t[1], parse(t[2]), parse(t[3]), parse(t[4]), parse(t[5]), parse(t[6])),
        k if k.starts_with("c09") => c09::run(t),
        k if k.starts_with("c08") => c08::run(t),
        k if k.starts_with("c11") => c11::run(t),
        k => panic!("unknown case kind {}", k),
    }
}

fn main() {
    std::panic::set_hook(Box::new(|_| {}));
    let stdin = std::io::stdin();
    let stdout = std::io::stdout();
    let mut out = std::io::BufWriter::new(stdout.lock());
    for line in stdin.lock().lines() {
        let line = line.unwrap();
        let t: Vec<&str> = line.split_whitespace().collect();
        if t.is_empty() {
            continue;
        }
        let r = catch_unwind(AssertUnwindSafe(|| run(&t))).unwrap_or_else(|_| vec![2]);
        let s: Vec<String> = r.iter().map(|x| x.to_string()).collect();
        writeln!(out, "{}", s.join(" ")).unwrap();
        out.flush().unwrap();
    }
}
