// Correspondence harness for the GenApi XML parser (/repo/genapi/src/parser): builds a document with
// GenApiBuilder and dumps every public getter of every stored node in a canonical integer form.
//
// line:   p x<document utf8 hex>
// output: 2                      the build panicked
//         1 <class>              the build returned an error (40 = Utf8Error, 41 = InvalidSyntax)
//         0 <|RD|> <RD> <n> <chunk>*n <k> (<S inv> <S target>)*k <m> <fchunk>*m
//   S = length + Unicode scalar values; ID = the name of the NodeId (S); O(x) = 0 | 1 x; V(x) = count + items;
//   IMM(x) = 0 x | 1 ID.  A chunk is its own length followed by: kind, ID, 1 (the name resolves through
//   id_by_name / node_opt to a node of this kind with this id), attribute base, element base,
//   INode::streamable, then the kind specific getters (see the functions below; order = order of the code here).
//   Nodes are listed in NodeStore::visit_nodes order, the invalidator registrations (calls of
//   CacheStoreBuilder::store_invalidator) in call order.  Then: for every node that carries formulas
//   its name and the serialised expression trees (compared with hand-written expectations only).
use cameleon_genapi::builder::{CacheStoreBuilder, GenApiBuilder};
use cameleon_genapi::elem_type::*;
use cameleon_genapi::formula::{BinOpKind, Expr, UnOpKind};
use cameleon_genapi::interface::{IEnumeration, INode};
use cameleon_genapi::parser::ParseError;
use cameleon_genapi::store::{
    DefaultNodeStore, DefaultValueStore, FloatId, IntegerId, NodeData, NodeId, NodeStore, StringId, ValueStore,
};
use cameleon_genapi::{NodeBase, RegisterBase, RegisterDescription};
use std::io::{BufRead, Write};
use std::panic::{catch_unwind, AssertUnwindSafe};

#[derive(Default)]
struct RecCache {
    log: Vec<(NodeId, NodeId)>,
}

impl CacheStoreBuilder for RecCache {
    type Store = Self;
    fn build(self) -> Self {
        self
    }
    fn store_invalidator(&mut self, invalidator: NodeId, target: NodeId) {
        self.log.push((invalidator, target));
    }
}

type Out = Vec<i128>;

struct Cx<'a> {
    ns: &'a DefaultNodeStore,
    vs: &'a DefaultValueStore,
}

fn s(o: &mut Out, x: &str) {
    o.push(x.chars().count() as i128);
    for c in x.chars() {
        o.push(c as u32 as i128);
    }
}
fn os(o: &mut Out, x: Option<&str>) {
    match x {
        None => o.push(0),
        Some(x) => {
            o.push(1);
            s(o, x)
        }
    }
}
fn b(o: &mut Out, x: bool) {
    o.push(x as i128)
}
fn f(o: &mut Out, x: f64) {
    if x.is_nan() {
        o.push(0x7ff8_0000_0000_0000u64 as i128)
    } else {
        o.push(x.to_bits() as i128)
    }
}
fn id(o: &mut Out, cx: &Cx, n: NodeId) {
    match cx.ns.name_by_id(n) {
        Some(name) => s(o, name),
        None => o.push(-1),
    }
}
fn oid(o: &mut Out, cx: &Cx, n: Option<NodeId>) {
    match n {
        None => o.push(0),
        Some(n) => {
            o.push(1);
            id(o, cx, n)
        }
    }
}
fn ids(o: &mut Out, cx: &Cx, ns: &[NodeId]) {
    o.push(ns.len() as i128);
    for n in ns {
        id(o, cx, *n)
    }
}
fn ou64(o: &mut Out, x: Option<u64>) {
    match x {
        None => o.push(0),
        Some(x) => {
            o.push(1);
            o.push(x as i128)
        }
    }
}
fn vis(x: Visibility) -> i128 {
    match x {
        Visibility::Beginner => 0,
        Visibility::Expert => 1,
        Visibility::Guru => 2,
        Visibility::Invisible => 3,
    }
}
fn am(x: AccessMode) -> i128 {
    match x {
        AccessMode::RO => 0,
        AccessMode::WO => 1,
        AccessMode::RW => 2,
    }
}
fn cm(x: CachingMode) -> i128 {
    match x {
        CachingMode::WriteThrough => 0,
        CachingMode::WriteAround => 1,
        CachingMode::NoCache => 2,
    }
}
fn irep(x: IntegerRepresentation) -> i128 {
    match x {
        IntegerRepresentation::Linear => 0,
        IntegerRepresentation::Logarithmic => 1,
        IntegerRepresentation::Boolean => 2,
        IntegerRepresentation::PureNumber => 3,
        IntegerRepresentation::HexNumber => 4,
        IntegerRepresentation::IpV4Address => 5,
        IntegerRepresentation::MacAddress => 6,
    }
}
fn frep(x: FloatRepresentation) -> i128 {
    match x {
        FloatRepresentation::Linear => 0,
        FloatRepresentation::Logarithmic => 1,
        FloatRepresentation::PureNumber => 2,
    }
}
fn dn(x: DisplayNotation) -> i128 {
    match x {
        DisplayNotation::Automatic => 0,
        DisplayNotation::Fixed => 1,
        DisplayNotation::Scientific => 2,
    }
}
fn slope(x: Slope) -> i128 {
    match x {
        Slope::Increasing => 0,
        Slope::Decreasing => 1,
        Slope::Varying => 2,
        Slope::Automatic => 3,
    }
}
fn sign(x: Sign) -> i128 {
    match x {
        Sign::Signed => 0,
        Sign::Unsigned => 1,
    }
}
fn endi(x: Endianness) -> i128 {
    match x {
        Endianness::LE => 0,
        Endianness::BE => 1,
    }
}
fn imm_i(o: &mut Out, cx: &Cx, x: ImmOrPNode<i64>) {
    match x {
        ImmOrPNode::Imm(v) => {
            o.push(0);
            o.push(v as i128)
        }
        ImmOrPNode::PNode(n) => {
            o.push(1);
            id(o, cx, n)
        }
    }
}
fn imm_f(o: &mut Out, cx: &Cx, x: ImmOrPNode<f64>) {
    match x {
        ImmOrPNode::Imm(v) => {
            o.push(0);
            f(o, v)
        }
        ImmOrPNode::PNode(n) => {
            o.push(1);
            id(o, cx, n)
        }
    }
}
// value ids are resolved through the value store; -2 marks an id that does not resolve to the expected type
fn int_of(cx: &Cx, i: IntegerId) -> i128 {
    match cx.vs.value_opt(i) {
        Some(cameleon_genapi::store::ValueData::Integer(v)) => *v as i128,
        _ => -2,
    }
}
fn imm_iid(o: &mut Out, cx: &Cx, x: ImmOrPNode<IntegerId>) {
    match x {
        ImmOrPNode::Imm(i) => {
            o.push(0);
            o.push(int_of(cx, i))
        }
        ImmOrPNode::PNode(n) => {
            o.push(1);
            id(o, cx, n)
        }
    }
}
fn flt_of(o: &mut Out, cx: &Cx, i: FloatId) {
    match cx.vs.value_opt(i) {
        Some(cameleon_genapi::store::ValueData::Float(v)) => f(o, *v),
        _ => o.push(-2),
    }
}
fn imm_fid(o: &mut Out, cx: &Cx, x: ImmOrPNode<FloatId>) {
    match x {
        ImmOrPNode::Imm(i) => {
            o.push(0);
            flt_of(o, cx, i)
        }
        ImmOrPNode::PNode(n) => {
            o.push(1);
            id(o, cx, n)
        }
    }
}
fn imm_sid(o: &mut Out, cx: &Cx, x: ImmOrPNode<StringId>) {
    match x {
        ImmOrPNode::Imm(i) => {
            o.push(0);
            match cx.vs.str_value(i) {
                Some(v) => s(o, v),
                None => o.push(-2),
            }
        }
        ImmOrPNode::PNode(n) => {
            o.push(1);
            id(o, cx, n)
        }
    }
}

fn base(o: &mut Out, cx: &Cx, nb: &NodeBase) {
    o.push(match nb.name_space() {
        NameSpace::Standard => 0,
        NameSpace::Custom => 1,
    });
    o.push(match nb.merge_priority() {
        MergePriority::High => 0,
        MergePriority::Mid => 1,
        MergePriority::Low => 2,
    });
    match nb.expose_static() {
        None => o.push(0),
        Some(x) => {
            o.push(1);
            b(o, x)
        }
    }
    os(o, nb.tooltip());
    os(o, nb.description());
    os(o, nb.display_name());
    o.push(vis(nb.visibility()));
    os(o, nb.docu_url());
    b(o, nb.is_deprecated());
    ou64(o, nb.event_id());
    oid(o, cx, nb.p_is_implemented());
    oid(o, cx, nb.p_is_available());
    oid(o, cx, nb.p_is_locked());
    oid(o, cx, nb.p_block_polling());
    o.push(am(nb.imposed_access_mode()));
    ids(o, cx, nb.p_errors());
    oid(o, cx, nb.p_alias());
    oid(o, cx, nb.p_cast_alias());
}

fn reg_base(o: &mut Out, cx: &Cx, rb: &RegisterBase) {
    b(o, rb.streamable());
    o.push(rb.address_kinds().len() as i128);
    for a in rb.address_kinds() {
        match a {
            AddressKind::Address(x) => {
                o.push(0);
                imm_i(o, cx, *x)
            }
            AddressKind::IntSwissKnife(n) => {
                o.push(1);
                id(o, cx, *n)
            }
            AddressKind::PIndex(p) => {
                o.push(2);
                match p.offset() {
                    None => o.push(0),
                    Some(x) => {
                        o.push(1);
                        imm_i(o, cx, x)
                    }
                }
                id(o, cx, p.p_index())
            }
        }
    }
    imm_i(o, cx, *rb.length_elem());
    o.push(am(rb.access_mode()));
    id(o, cx, rb.p_port());
    o.push(cm(rb.cacheable()));
    ou64(o, rb.polling_time());
    ids(o, cx, rb.p_invalidators());
}

fn vk_int(o: &mut Out, cx: &Cx, v: &ValueKind<IntegerId>) {
    match v {
        ValueKind::Value(i) => {
            o.push(0);
            o.push(int_of(cx, *i))
        }
        ValueKind::PValue(p) => {
            o.push(1);
            id(o, cx, p.p_value());
            ids(o, cx, p.p_value_copies())
        }
        ValueKind::PIndex(p) => {
            o.push(2);
            id(o, cx, p.p_index());
            o.push(p.value_indexed().len() as i128);
            for vi in p.value_indexed() {
                o.push(vi.index() as i128);
                imm_iid(o, cx, vi.indexed())
            }
            imm_iid(o, cx, p.value_default())
        }
    }
}
fn vk_flt(o: &mut Out, cx: &Cx, v: &ValueKind<FloatId>) {
    match v {
        ValueKind::Value(i) => {
            o.push(0);
            flt_of(o, cx, *i)
        }
        ValueKind::PValue(p) => {
            o.push(1);
            id(o, cx, p.p_value());
            ids(o, cx, p.p_value_copies())
        }
        ValueKind::PIndex(p) => {
            o.push(2);
            id(o, cx, p.p_index());
            o.push(p.value_indexed().len() as i128);
            for vi in p.value_indexed() {
                o.push(vi.index() as i128);
                imm_fid(o, cx, vi.indexed())
            }
            imm_fid(o, cx, p.value_default())
        }
    }
}
fn bitmask(o: &mut Out, m: BitMask) {
    match m {
        BitMask::SingleBit(x) => {
            o.push(0);
            o.push(x as i128)
        }
        BitMask::Range { lsb, msb } => {
            o.push(1);
            o.push(lsb as i128);
            o.push(msb as i128)
        }
    }
}
fn pvars(o: &mut Out, cx: &Cx, v: &[NamedValue<NodeId>]) {
    o.push(v.len() as i128);
    for x in v {
        s(o, x.name());
        id(o, cx, x.value())
    }
}
fn consts_i(o: &mut Out, v: &[NamedValue<i64>]) {
    o.push(v.len() as i128);
    for x in v {
        s(o, x.name());
        o.push(x.value() as i128)
    }
}
fn consts_f(o: &mut Out, v: &[NamedValue<f64>]) {
    o.push(v.len() as i128);
    for x in v {
        s(o, x.name());
        f(o, x.value())
    }
}
fn expr_names(o: &mut Out, v: &[NamedValue<Expr>]) {
    o.push(v.len() as i128);
    for x in v {
        s(o, x.name())
    }
}

fn binop(k: BinOpKind) -> i128 {
    match k {
        BinOpKind::Add => 0,
        BinOpKind::Sub => 1,
        BinOpKind::Mul => 2,
        BinOpKind::Div => 3,
        BinOpKind::Rem => 4,
        BinOpKind::Pow => 5,
        BinOpKind::Shl => 6,
        BinOpKind::Shr => 7,
        BinOpKind::And => 8,
        BinOpKind::Or => 9,
        BinOpKind::Eq => 10,
        BinOpKind::Ne => 11,
        BinOpKind::Lt => 12,
        BinOpKind::Le => 13,
        BinOpKind::Gt => 14,
        BinOpKind::Ge => 15,
        BinOpKind::BitAnd => 16,
        BinOpKind::BitOr => 17,
        BinOpKind::Xor => 18,
    }
}
fn unop(k: UnOpKind) -> i128 {
    match k {
        UnOpKind::Not => 0,
        UnOpKind::Abs => 1,
        UnOpKind::Sgn => 2,
        UnOpKind::Neg => 3,
        UnOpKind::Sin => 4,
        UnOpKind::Cos => 5,
        UnOpKind::Tan => 6,
        UnOpKind::Asin => 7,
        UnOpKind::Acos => 8,
        UnOpKind::Atan => 9,
        UnOpKind::Exp => 10,
        UnOpKind::Ln => 11,
        UnOpKind::Lg => 12,
        UnOpKind::Sqrt => 13,
        UnOpKind::Trunc => 14,
        UnOpKind::Floor => 15,
        UnOpKind::Ceil => 16,
        UnOpKind::Round => 17,
    }
}
fn expr(o: &mut Out, e: &Expr) {
    match e {
        Expr::BinOp { kind, lhs, rhs } => {
            o.push(1);
            o.push(binop(*kind));
            expr(o, lhs);
            expr(o, rhs)
        }
        Expr::UnOp { kind, expr: e } => {
            o.push(2);
            o.push(unop(*kind));
            expr(o, e)
        }
        Expr::If { cond, then, else_ } => {
            o.push(3);
            expr(o, cond);
            expr(o, then);
            expr(o, else_)
        }
        Expr::Integer(i) => {
            o.push(4);
            o.push(*i as i128)
        }
        Expr::Float(x) => {
            o.push(5);
            f(o, *x)
        }
        Expr::Ident(x) => {
            o.push(6);
            s(o, x)
        }
    }
}
fn fchunk(fo: &mut Out, name: &str, exprs: &[NamedValue<Expr>], formulas: &[&Expr]) {
    let mut o = Out::new();
    s(&mut o, name);
    o.push(exprs.len() as i128);
    for x in exprs {
        expr(&mut o, x.value_ref())
    }
    o.push(formulas.len() as i128);
    for x in formulas {
        expr(&mut o, x)
    }
    fo.push(o.len() as i128);
    fo.extend(o);
}

fn kind_of(d: &NodeData) -> i128 {
    match d {
        NodeData::Node(_) => 0,
        NodeData::Category(_) => 1,
        NodeData::Integer(_) => 2,
        NodeData::IntReg(_) => 3,
        NodeData::MaskedIntReg(_) => 4,
        NodeData::Boolean(_) => 5,
        NodeData::Command(_) => 6,
        NodeData::Enumeration(_) => 7,
        NodeData::EnumEntry(_) => 8,
        NodeData::Float(_) => 9,
        NodeData::FloatReg(_) => 10,
        NodeData::String(_) => 11,
        NodeData::StringReg(_) => 12,
        NodeData::Register(_) => 13,
        NodeData::Converter(_) => 14,
        NodeData::IntConverter(_) => 15,
        NodeData::SwissKnife(_) => 16,
        NodeData::IntSwissKnife(_) => 17,
        NodeData::Port(_) => 18,
        _ => 99,
    }
}

fn node(out: &mut Out, fo: &mut Out, nf: &mut i128, cx: &Cx, d: &NodeData) {
    let mut o = Out::new();
    let nb = match d {
        NodeData::EnumEntry(n) => n.node_base(),
        _ => d.node_base(),
    };
    let nid = nb.id();
    let name = cx.ns.name_by_id(nid).unwrap_or("").to_string();
    o.push(kind_of(d));
    id(&mut o, cx, nid);
    // retrievable by name, with the same id and kind
    let ok = match cx.ns.id_by_name(&name) {
        Some(i) if i == nid => match cx.ns.node_opt(i) {
            Some(d2) => kind_of(d2) == kind_of(d),
            None => false,
        },
        _ => false,
    };
    b(&mut o, ok);
    base(&mut o, cx, &nb);
    let o = &mut o;
    match d {
        NodeData::Node(n) => b(o, n.streamable()),
        NodeData::Category(n) => {
            b(o, n.streamable());
            ids(o, cx, n.p_features())
        }
        NodeData::Integer(n) => {
            b(o, n.streamable());
            vk_int(o, cx, n.value_kind());
            imm_iid(o, cx, n.min_elem());
            imm_iid(o, cx, n.max_elem());
            imm_i(o, cx, n.inc_elem());
            os(o, n.unit_elem());
            o.push(irep(n.representation_elem()));
            ids(o, cx, n.p_selected())
        }
        NodeData::IntReg(n) => {
            b(o, n.streamable());
            reg_base(o, cx, n.register_base());
            o.push(sign(n.sign()));
            o.push(endi(n.endianness()));
            os(o, n.unit_elem());
            o.push(irep(n.representation_elem()));
            ids(o, cx, n.p_selected())
        }
        NodeData::MaskedIntReg(n) => {
            b(o, n.streamable());
            reg_base(o, cx, n.register_base());
            bitmask(o, n.bit_mask());
            o.push(sign(n.sign()));
            o.push(endi(n.endianness()));
            os(o, n.unit_elem());
            o.push(irep(n.representation_elem()));
            ids(o, cx, n.p_selected())
        }
        NodeData::Boolean(n) => {
            b(o, n.streamable());
            imm_iid(o, cx, n.value_elem());
            o.push(n.on_value() as i128);
            o.push(n.off_value() as i128);
            ids(o, cx, n.p_selected())
        }
        NodeData::Command(n) => {
            b(o, n.streamable());
            imm_iid(o, cx, n.value_elem());
            imm_iid(o, cx, n.command_value_elem());
            ou64(o, n.polling_time())
        }
        NodeData::Enumeration(n) => {
            b(o, n.streamable());
            ids(o, cx, n.entries(cx.ns));
            imm_iid(o, cx, n.value_elem());
            ids(o, cx, n.p_selected());
            ou64(o, n.polling_time())
        }
        NodeData::EnumEntry(n) => {
            b(o, n.streamable());
            o.push(n.value() as i128);
            f(o, n.numeric_value());
            s(o, n.symbolic());
            b(o, n.is_self_clearing())
        }
        NodeData::Float(n) => {
            b(o, n.streamable());
            vk_flt(o, cx, n.value_kind());
            imm_fid(o, cx, n.min_elem());
            imm_fid(o, cx, n.max_elem());
            match n.inc_elem() {
                None => o.push(0),
                Some(x) => {
                    o.push(1);
                    imm_f(o, cx, *x)
                }
            }
            os(o, n.unit_elem());
            o.push(frep(n.representation_elem()));
            o.push(dn(n.display_notation_elem()));
            o.push(n.display_precision_elem() as i128)
        }
        NodeData::FloatReg(n) => {
            b(o, n.streamable());
            reg_base(o, cx, n.register_base());
            o.push(endi(n.endianness()));
            os(o, n.unit_elem());
            o.push(frep(n.representation_elem()));
            o.push(dn(n.display_notation_elem()));
            o.push(n.display_precision_elem() as i128)
        }
        NodeData::String(n) => {
            b(o, INode::streamable(&**n));
            b(o, n.streamable());
            imm_sid(o, cx, n.value_elem())
        }
        NodeData::StringReg(n) => {
            b(o, n.streamable());
            reg_base(o, cx, n.register_base())
        }
        NodeData::Register(n) => {
            b(o, n.streamable());
            reg_base(o, cx, n.register_base())
        }
        NodeData::Converter(n) => {
            b(o, n.streamable());
            pvars(o, cx, n.p_variables());
            consts_f(o, n.constants());
            expr_names(o, n.expressions());
            id(o, cx, n.p_value());
            os(o, n.unit_elem());
            o.push(frep(n.representation_elem()));
            o.push(dn(n.display_notation_elem()));
            o.push(n.display_precision_elem() as i128);
            o.push(slope(n.slope()));
            b(o, n.is_linear());
            fchunk(fo, &name, n.expressions(), &[n.formula_to().expr(), n.formula_from().expr()]);
            *nf += 1;
        }
        NodeData::IntConverter(n) => {
            b(o, n.streamable());
            pvars(o, cx, n.p_variables());
            consts_i(o, n.constants());
            expr_names(o, n.expressions());
            id(o, cx, n.p_value());
            os(o, n.unit_elem());
            o.push(irep(n.representation_elem()));
            o.push(slope(n.slope()));
            fchunk(fo, &name, n.expressions(), &[n.formula_to().expr(), n.formula_from().expr()]);
            *nf += 1;
        }
        NodeData::SwissKnife(n) => {
            b(o, n.streamable());
            pvars(o, cx, n.p_variables());
            consts_f(o, n.constants());
            expr_names(o, n.expressions());
            os(o, n.unit_elem());
            o.push(frep(n.representation_elem()));
            o.push(dn(n.display_notation_elem()));
            o.push(n.display_precision_elem() as i128);
            fchunk(fo, &name, n.expressions(), &[n.formula().expr()]);
            *nf += 1;
        }
        NodeData::IntSwissKnife(n) => {
            b(o, n.streamable());
            pvars(o, cx, n.p_variables());
            consts_i(o, n.constants());
            expr_names(o, n.expressions());
            os(o, n.unit_elem());
            o.push(irep(n.representation_elem()));
            fchunk(fo, &name, n.expressions(), &[n.formula().expr()]);
            *nf += 1;
        }
        NodeData::Port(n) => {
            b(o, n.streamable());
            match n.chunk_id() {
                None => o.push(0),
                Some(ImmOrPNode::Imm(x)) => {
                    o.push(1);
                    o.push(0);
                    o.push(*x as i128)
                }
                Some(ImmOrPNode::PNode(x)) => {
                    o.push(1);
                    o.push(1);
                    id(o, cx, *x)
                }
            }
            b(o, n.swap_endianness());
            b(o, n.cache_chunk_data())
        }
        _ => {}
    }
    out.push(o.len() as i128);
    out.extend(o.iter());
}

fn reg_desc(o: &mut Out, rd: &RegisterDescription) {
    s(o, rd.model_name());
    s(o, rd.vendor_name());
    os(o, rd.tooltip());
    o.push(match rd.standard_name_space() {
        StandardNameSpace::None => 0,
        StandardNameSpace::IIDC => 1,
        StandardNameSpace::GEV => 2,
        StandardNameSpace::CL => 3,
        StandardNameSpace::USB => 4,
    });
    o.push(rd.schema_major_version() as i128);
    o.push(rd.schema_minor_version() as i128);
    o.push(rd.schema_subminor_version() as i128);
    o.push(rd.major_version() as i128);
    o.push(rd.minor_version() as i128);
    o.push(rd.subminor_version() as i128);
    s(o, rd.product_guid());
    s(o, rd.version_guid());
}

fn hex(s: &str) -> Vec<u8> {
    (0..s.len() / 2).map(|i| u8::from_str_radix(&s[2 * i..2 * i + 2], 16).unwrap()).collect()
}

fn run(doc: &str) -> Out {
    let builder = GenApiBuilder::<DefaultNodeStore, DefaultValueStore, RecCache>::default();
    let (rd, ns, ctxt) = match builder.build(&doc) {
        Ok(x) => x,
        Err(ParseError::Utf8Error(_)) => return vec![1, 40],
        Err(ParseError::InvalidSyntax(_)) => return vec![1, 41],
    };
    let cx = Cx { ns: &ns, vs: ctxt.value_store() };
    let mut o: Out = vec![0];
    let mut rdo = Out::new();
    reg_desc(&mut rdo, &rd);
    o.push(rdo.len() as i128);
    o.extend(rdo);
    let mut nodes = Out::new();
    let mut fo = Out::new();
    let mut n = 0i128;
    let mut nf = 0i128;
    ns.visit_nodes(|d| {
        n += 1;
        node(&mut nodes, &mut fo, &mut nf, &cx, d);
    });
    o.push(n);
    o.extend(nodes);
    o.push(ctxt.cache_store.log.len() as i128);
    for (a, t) in &ctxt.cache_store.log {
        id(&mut o, &cx, *a);
        id(&mut o, &cx, *t);
    }
    o.push(nf);
    o.extend(fo);
    o
}

fn main() {
    std::panic::set_hook(Box::new(|_| {}));
    let stdin = std::io::stdin();
    let stdout = std::io::stdout();
    let mut w = std::io::BufWriter::new(stdout.lock());
    for line in stdin.lock().lines() {
        let line = line.unwrap();
        let toks: Vec<&str> = line.split_whitespace().collect();
        let res: Out = if toks.len() == 2 && toks[0] == "p" && toks[1].starts_with('x') {
            let bytes = hex(&toks[1][1..]);
            match String::from_utf8(bytes) {
                Ok(doc) => match catch_unwind(AssertUnwindSafe(|| run(&doc))) {
                    Ok(v) => v,
                    Err(_) => vec![2],
                },
                Err(_) => vec![1, 40],
            }
        } else {
            vec![9]
        };
        let strs: Vec<String> = res.iter().map(|x| x.to_string()).collect();
        writeln!(w, "{}", strs.join(" ")).unwrap();
        w.flush().unwrap();
    }
}
