#!/usr/bin/env python3
"""tools/translate_xmlfetch.py -- CODE translator for the device-description RETRIEVAL of property C14.

Regenerates coq/theories/gen/XmlFetchSrc.v on every run from

  cameleon/src/u3v/control_handle.rs   <ControlHandle as DeviceControl>::genapi (with its local fn zip_err),
                                       ControlHandle::verify_xml
  cameleon/src/u3v/register_map.rs     ManifestTable::{new, entries, read_register}, ManifestEntry::{new, file_address,
                                       file_size, file_info, sha1_hash, genicam_file_version, read_register}

as STATEMENT-level translations into the X monad of model/XmlFetch.v, written in the operation vocabulary
model/XfOps.v (device read, register read at base + offset, the sha1 / unzip oracles, semver comparison) and re-using the
translated decoders of gen/DecodersSrc.v (src_register_address, src_file_type, src_compression_type,
src_genicam_file_version).  proofs/P_C14x.v proves the translated functions equal to the hand-written model
(entries / scan / fetch of model/XmlFetch.v) for every device world, table contents and oracle.

Translation rules
  * a function returning ControlResult<T> is a term of type X T; `e?` and `unwrap_or_log!(e)` (macro text pinned: match,
    log, `return Err(error.into())`) bind, `return Err(c)` / tail `Err(c)` is `xfail <class of c>`, `Ok(v)` is `xret v`;
    a Result that is neither propagated, returned, nor converted (map_err / ok_or_else) is a ShapeError;
  * `self` / `device` (the DeviceControl) is the state of the monad: `device.read(a, &mut b)` = xf_read_into, the free fn
    read_register::<T> (body pinned) = xf_read_as <size_of T>, ControlHandle::{manifest_table, buffer_capacity,
    resize_buffer} (bodies pinned for the last two) are the model's manifest_table / xf_buffer_capacity / resize_buffer;
  * one-field structs (ManifestTable, ManifestEntry, GenICamFileInfo) are their field; semver::Version is a triple;
    (a, b, c) is a Gallina triple; Option is option; a buffer that has only been zero-initialised is its length;
  * `let mut x` / `x = e` / `&mut x` passed to a read rebind the Gallina name; an `if` / `if let` / `match` in statement
    position returns the variables it rebinds; `for p in it { .. }` over the iterator `(lo..hi).map(move |i| e)` is
    xf_for_range lo hi over the variables the body rebinds, the closure is evaluated when the item is pulled; the loop
    and what follows it are emitted as separate definitions (<fn>_loop<k>_item / _body / <fn>_after<k>) so that theorems
    can speak about the selection loop and the fetch separately;
  * u64 arithmetic is lib/RustInt.v's (debug build: `+`, `*` panic on overflow), checked_* / and_then / ok_or_else are
    options, `try_into()` u64 -> usize is xf_try_into_usize with the class of From<TryFromIntError> (pinned in lib.rs);
  * method calls are resolved by the TYPE of the receiver (a small type checker with inference for `let mut x = None`);
    every call, method, macro, operator, pattern or statement outside the tables below raises ShapeError.
The zip handling is abstracted exactly as the model does (xf_zip_* over the oracle [unzip]); which failure is mapped
through which error function is translated."""
import os, re, sys

HERE = os.path.dirname(os.path.abspath(__file__))
sys.path.insert(0, HERE)
import minirust                                                             # noqa: E402
from minirust import ShapeError, strip_comments, block_after, norm_ws, wrap, lit_value   # noqa: E402
import translate_decoders                                                   # noqa: E402

OUT = os.path.join(os.path.dirname(HERE), "coq", "theories", "gen", "XmlFetchSrc.v")

# ------------------------------------------------------------------------------------------------ tokens --
SUFFIX = r"(?:_?(?:[iu](?:8|16|32|64|128|size)))"
TOK = re.compile(r"""\s*(
    "(?:[^"\\]|\\.)*" |
    [A-Za-z_][A-Za-z0-9_]*(?:::[A-Za-z_][A-Za-z0-9_]*)*!(?!=) |
    [A-Za-z_][A-Za-z0-9_]*(?:::[A-Za-z_][A-Za-z0-9_]*)* |
    0x[0-9a-fA-F_]+""" + SUFFIX + r"""? | 0b[01_]+""" + SUFFIX + r"""? | \d[\d_]*""" + SUFFIX + r"""? |
    => | == | != | <= | >= | << | >> | \|\| | && | \.\.= | \.\. | -> | :: |
    [(){}\[\],;:.|&^!\-+*/%<>=?]
)""", re.X)


def tokenize(s):
    out, pos = [], 0
    s = s.strip()
    while pos < len(s):
        m = TOK.match(s, pos)
        if not m:
            raise ShapeError("cannot tokenize %r" % s[pos:pos + 40])
        tok, end = m.group(1), m.end()
        if tok[0].isdigit() and end < len(s) and (s[end].isalnum() or s[end] == "_"):
            raise ShapeError("numeric token not understood near %r" % s[pos:pos + 40])
        out.append(tok)
        pos = end
        while pos < len(s) and s[pos].isspace():
            pos += 1
    return out


KEYWORDS = {"let", "mut", "fn", "loop", "while", "for", "unsafe", "move", "as", "else", "in", "ref", "break", "continue",
            "struct", "impl", "use", "mod", "pub", "if", "match", "return", "const", "static", "where", "dyn", "trait"}
IDENT = re.compile(r"[A-Za-z_][A-Za-z0-9_]*$")
PATH = re.compile(r"[A-Za-z_][A-Za-z0-9_]*(::[A-Za-z_][A-Za-z0-9_]*)*$")


# ------------------------------------------------------------------------------------------------ parser --
class Parser:
    def __init__(self, toks):
        self.t, self.i = toks, 0
        self.ns = [False]          # no struct literal here (condition of if / match / for)

    def peek(self, k=0):
        return self.t[self.i + k] if self.i + k < len(self.t) else None

    def eat(self, x=None):
        tok = self.peek()
        if tok is None or (x is not None and tok != x):
            raise ShapeError("expected %r, found %r near %r" % (x, tok, " ".join(self.t[max(0, self.i - 8):self.i + 6])))
        self.i += 1
        return tok

    def done(self):
        return self.peek() is None

    # ---- types (kept as normalised strings) ----
    def type_(self, stop):
        depth, out = 0, []
        while True:
            tok = self.peek()
            if tok is None:
                raise ShapeError("type runs to the end")
            if depth == 0 and tok in stop:
                break
            if tok in ("(", "[", "<"):
                depth += 1
            elif tok in (")", "]", ">"):
                depth -= 1
            elif tok == ">>":
                depth -= 2
            out.append(self.eat())
        if not out:
            raise ShapeError("empty type")
        return "".join(out)

    # ---- statements ----
    def block_body(self):
        stmts = []
        while self.peek() not in ("}", None):
            tok = self.peek()
            if tok == "use":
                self.eat()
                path = self.eat()
                self.eat(";")
                stmts.append(("use", path))
                continue
            if tok == "fn":
                stmts.append(self.local_fn())
                continue
            if tok == "let":
                self.eat()
                mut = False
                if self.peek() == "mut":
                    self.eat()
                    mut = True
                pat = self.pattern()
                ty = None
                if self.peek() == ":":
                    self.eat()
                    ty = self.type_(("=", ";"))
                self.eat("=")
                e = self.expr()
                self.eat(";")
                stmts.append(("let", pat, mut, ty, e))
                continue
            if tok == "for":
                self.eat()
                pat = self.pattern()
                self.eat("in")
                it = self.expr(nostruct=True)
                self.eat("{")
                body = self.block_body()
                self.eat("}")
                stmts.append(("for", pat, it, body))
                continue
            if tok in ("while", "loop", "break", "continue", "const", "static", "unsafe"):
                raise ShapeError("statement `%s`" % tok)
            e = self.expr()
            if self.peek() == "=":
                self.eat()
                r = self.expr()
                e = ("assign", e, r)
            if self.peek() == ";":
                self.eat()
                stmts.append(("expr", e, True))
            elif self.peek() in ("}", None):
                stmts.append(("expr", e, False))
            elif e[0] in ("if", "iflet", "match", "block"):
                stmts.append(("expr", e, True))       # block-like expression statement
            else:
                raise ShapeError("statement not understood near %r" % self.peek())
        return stmts

    def local_fn(self):
        self.eat("fn")
        name = self.eat()
        self.eat("(")
        params = []
        while self.peek() != ")":
            pn = self.eat()
            self.eat(":")
            params.append((pn, self.type_((",", ")"))))
            if self.peek() == ",":
                self.eat()
        self.eat(")")
        self.eat("->")
        ret = self.type_(("{",))
        self.eat("{")
        body = self.block_body()
        self.eat("}")
        return ("fn", name, params, ret, body)

    # ---- patterns ----
    def pattern(self):
        tok = self.eat()
        if tok == "_":
            return ("pwild",)
        if tok == "(":
            items = []
            while self.peek() != ")":
                items.append(self.pattern())
                if self.peek() == ",":
                    self.eat()
            self.eat(")")
            return ("ptuple", items)
        if tok in ("&", "ref", "mut", "[", "box"):
            raise ShapeError("pattern starting with %r" % tok)
        lv = lit_value(tok) if tok[0].isdigit() else None
        if lv is not None:
            return ("plit", lv[0])
        if PATH.match(tok) and tok not in KEYWORDS:
            if self.peek() == "(":
                self.eat()
                items = []
                while self.peek() != ")":
                    items.append(self.pattern())
                    if self.peek() == ",":
                        self.eat()
                self.eat(")")
                return ("pctor", tok, items)
            if self.peek() in ("{", "@", "..", "..="):
                raise ShapeError("pattern %r %r" % (tok, self.peek()))
            if "::" in tok or tok[0].isupper():
                return ("ppath", tok)
            return ("pbind", tok)
        raise ShapeError("pattern %r" % tok)

    # ---- expressions ----
    LEVELS = [["||"], ["&&"], ["==", "!=", "<", ">", "<=", ">="], ["|"], ["^"], ["&"], ["<<", ">>"], ["+", "-"],
              ["*", "/", "%"]]

    def expr(self, nostruct=False):
        self.ns.append(nostruct)
        try:
            return self.expr_()
        finally:
            self.ns.pop()

    def expr_(self):
        if self.peek() == "return":
            self.eat()
            if self.peek() in (";", "}", ",", None):
                raise ShapeError("return without a value")
            return ("return", self.expr())
        e = self.binary(0)
        if self.peek() in ("..", "..="):
            if self.eat() != "..":
                raise ShapeError("inclusive range")
            hi = self.binary(0)
            return ("range", e, hi)
        return e

    def binary(self, lvl):
        if lvl == len(self.LEVELS):
            return self.cast()
        e = self.binary(lvl + 1)
        while self.peek() in self.LEVELS[lvl]:
            op = self.eat()
            r = self.binary(lvl + 1)
            e = ("bin", op, e, r)
            if lvl == 2 and self.peek() in self.LEVELS[2]:
                raise ShapeError("chained comparison")
        return e

    def cast(self):
        e = self.unary()
        while self.peek() == "as":
            self.eat()
            e = ("as", e, self.eat())
        return e

    def unary(self):
        tok = self.peek()
        if tok in ("-", "!", "*"):
            self.eat()
            return ("un", tok, self.unary())
        if tok == "&":
            self.eat()
            if self.peek() == "mut":
                self.eat()
                return ("un", "&mut", self.unary())
            return ("un", "&", self.unary())
        if tok == "&&":
            raise ShapeError("&& in operand position")
        return self.postfix()

    def postfix(self):
        e = self.atom()
        while self.peek() in (".", "?"):
            if self.eat() == "?":
                e = ("try", e)
                continue
            name = self.eat()
            if not re.fullmatch(r"[A-Za-z_][A-Za-z0-9_]*|\d+", name):
                raise ShapeError("field / method name %r" % name)
            if self.peek() == "::":
                raise ShapeError("turbofish")
            if self.peek() == "(":
                e = ("mcall", e, name, self.args())
            else:
                e = ("field", e, name)
        if self.peek() == "[":
            raise ShapeError("indexing")
        return e

    def args(self):
        self.eat("(")
        out = []
        while self.peek() != ")":
            out.append(self.expr())
            if self.peek() == ",":
                self.eat()
            elif self.peek() != ")":
                raise ShapeError("argument list near %r" % self.peek())
        self.eat(")")
        return out

    def braced(self):
        self.eat("{")
        b = self.block_body()
        self.eat("}")
        return ("block", b)

    def atom(self):
        tok = self.eat()
        if tok == "(":
            if self.peek() == ")":
                self.eat()
                return ("unit",)
            e = self.expr()
            if self.peek() == ",":
                items = [e]
                while self.peek() == ",":
                    self.eat()
                    if self.peek() == ")":
                        break
                    items.append(self.expr())
                self.eat(")")
                return ("tuple", items)
            self.eat(")")
            return ("paren", e)
        if tok == "[":
            v = self.expr()
            self.eat(";")
            n = self.expr()
            self.eat("]")
            return ("array_rep", v, n)
        if tok == "{":
            self.i -= 1
            return self.braced()
        if tok in ("||", "|", "move"):
            if tok == "move":
                tok = self.eat()
                if tok not in ("||", "|"):
                    raise ShapeError("`move` not followed by a closure")
            params = []
            if tok == "|":
                while self.peek() != "|":
                    p = self.eat()
                    if not IDENT.match(p) or p in KEYWORDS:
                        raise ShapeError("closure parameter %r" % p)
                    if self.peek() == ":":
                        raise ShapeError("typed closure parameter")
                    params.append(p)
                    if self.peek() == ",":
                        self.eat()
                self.eat("|")
            return ("closure", params, self.expr())
        if tok == "if":
            if self.peek() == "let":
                self.eat()
                pat = self.pattern()
                self.eat("=")
                s = self.expr(nostruct=True)
                a = self.braced()
                b = None
                if self.peek() == "else":
                    self.eat()
                    if self.peek() == "if":
                        raise ShapeError("else if after if let")
                    b = self.braced()
                return ("iflet", pat, s, a, b)
            c = self.expr(nostruct=True)
            a = self.braced()
            b = None
            if self.peek() == "else":
                self.eat()
                if self.peek() == "if":
                    b = ("block", [("expr", self.atom(), False)])
                else:
                    b = self.braced()
            return ("if", c, a, b)
        if tok == "match":
            s = self.expr(nostruct=True)
            self.eat("{")
            arms = []
            while self.peek() != "}":
                pat = self.pattern()
                if self.peek() == "|":
                    raise ShapeError("or-pattern")
                guard = None
                if self.peek() == "if":
                    self.eat()
                    guard = self.expr(nostruct=True)
                self.eat("=>")
                if self.peek() == "{":
                    body = self.braced()
                    if self.peek() == ",":
                        self.eat()
                else:
                    e = self.expr()
                    if self.peek() == "=":
                        self.eat()
                        e = ("assign", e, self.expr())
                    body = ("block", [("expr", e, False)])
                    if self.peek() == ",":
                        self.eat()
                    elif self.peek() != "}":
                        raise ShapeError("match arm not followed by a comma")
                arms.append((pat, guard, body))
            self.eat("}")
            return ("match", s, arms)
        if tok.startswith('"'):
            return ("str", tok)
        if tok.endswith("!") and len(tok) > 1:
            name = tok[:-1]
            if name == "vec":
                self.eat("[")
                v = self.expr()
                self.eat(";")
                n = self.expr()
                self.eat("]")
                return ("vec_rep", v, n)
            return ("macro", name, self.args())
        if tok[0].isdigit():
            lv = lit_value(tok)
            if lv is None:
                raise ShapeError("literal %r" % tok)
            return ("lit", lv[0], lv[1])
        if PATH.match(tok):
            if tok in KEYWORDS:
                raise ShapeError("keyword %r in expression position" % tok)
            if self.peek() == "::":
                raise ShapeError("turbofish / generic path")
            if self.peek() == "(":
                return ("call", tok, self.args())
            if self.peek() == "{" and not self.ns[-1] and tok.split("::")[-1][0].isupper():
                # struct literal `Self { f }` / `Name { f: e }`
                self.eat("{")
                fields = []
                while self.peek() != "}":
                    fn_ = self.eat()
                    if self.peek() == ":":
                        self.eat()
                        fields.append((fn_, self.expr()))
                    else:
                        fields.append((fn_, ("path", fn_)))
                    if self.peek() == ",":
                        self.eat()
                self.eat("}")
                return ("struct", tok, fields)
            return ("path", tok)
        raise ShapeError("unexpected token %r" % tok)


def parse_block(text):
    p = Parser(tokenize(text))
    b = p.block_body()
    if not p.done():
        raise ShapeError("trailing tokens: %r" % p.peek())
    return b


# ------------------------------------------------------------------------------------------------- types --
class TV:
    """inference variable"""
    def __init__(self):
        self.ref = None


def res(t):
    while isinstance(t, TV) and t.ref is not None:
        t = t.ref
    if isinstance(t, tuple):
        return tuple(res(x) if not isinstance(x, list) else [res(y) for y in x] for x in t)
    return t


def unify(a, b, what):
    a, b = res(a), res(b)
    if isinstance(a, TV):
        if a is not b:
            a.ref = b
        return
    if isinstance(b, TV):
        b.ref = a
        return
    if isinstance(a, tuple) and isinstance(b, tuple) and a[0] == b[0] and len(a) == len(b):
        for x, y in zip(a[1:], b[1:]):
            if isinstance(x, list):
                if not isinstance(y, list) or len(x) != len(y):
                    raise ShapeError("%s: types %r / %r" % (what, show(a), show(b)))
                for p, q in zip(x, y):
                    unify(p, q, what)
            elif isinstance(x, (TV, tuple)) or isinstance(y, (TV, tuple)):
                unify(x, y, what)
            elif x != y:
                raise ShapeError("%s: types %r / %r" % (what, show(a), show(b)))
        return
    if a != b:
        raise ShapeError("%s: types %r / %r" % (what, show(a), show(b)))


def show(t):
    t = res(t)
    if isinstance(t, TV):
        return "?"
    if isinstance(t, tuple):
        return "(%s)" % " ".join(show(x) if not isinstance(x, list) else "[%s]" % ",".join(show(y) for y in x) for x in t)
    return str(t)


INTS = {"u8": 8, "u16": 16, "u32": 32, "u64": 64, "usize": 64}
STRUCT1 = {"ManifestTable": "manifest_address", "ManifestEntry": "entry_addr"}     # one-field structs = their u64 field
SIZE_OF = {"u64": 8, "u32": 4, "GenICamFileInfo": 4}                                # ParseBytes instances used here
ENUMS = {"GenICamFileType": {"DeviceXml": 0, "BufferXml": 1}, "CompressionType": {"Uncompressed": 0, "Zip": 1}}


def type_of(s, self_ty=None):
    s = s.replace("register_map::", "")
    if s in INTS or s in ("bool", "ManifestTable", "ManifestEntry", "GenICamFileInfo", "GenICamFileType", "CompressionType"):
        return s
    if s == "()":
        return "unit"
    if s == "Self" and self_ty:
        return self_ty
    if s == "String":
        return "string"
    if s == "semver::Version":
        return "Version"
    if s == "&[u8]":
        return "bytes"
    m = re.fullmatch(r"\[u8;(\d+)\]", s)
    if m:
        return "bytes"
    m = re.fullmatch(r"Option<(.*)>", s)
    if m:
        return ("option", type_of(m.group(1), self_ty))
    m = re.fullmatch(r"\((.*)\)", s)
    if m:
        parts = [x for x in m.group(1).split(",") if x]
        return ("tuple", [type_of(x, self_ty) for x in parts])
    raise ShapeError("type %r" % s)


def coq_ty(t):
    t = res(t)
    if isinstance(t, TV):
        raise ShapeError("a type could not be inferred")
    if isinstance(t, tuple):
        if t[0] == "tuple":
            return "(" + " * ".join(coq_ty(x) for x in t[1]) + ")"
        if t[0] == "option":
            return "(option %s)" % coq_ty(t[1])
        if t[0] == "iter":
            return "(Z * Z * %s)" % (coq_ty(t[3][0]) if len(t[3]) == 1 else coq_ty(("tuple", t[3])))
        if t[0] == "zerobuf":
            return "Z"
        raise ShapeError("type %r" % (t,))
    if t == "bool":
        return "bool"
    if t == "unit":
        return "unit"
    if t in ("bytes", "string", "digest", "cow"):
        return "(list Z)"
    if t == "Version":
        return "(Z * Z * Z)"
    if t == "ziparchive":
        return "zarchive"
    if t == "zipfile":
        return "(option (list Z))"
    return "Z"


def tup(names):
    if not names:
        return "tt"
    if len(names) == 1:
        return names[0]
    return "(" + ", ".join(names) + ")"


def paren(s):
    return "(" + s + ")"


# --------------------------------------------------------------------------------------------- translator --
class Fn:
    def __init__(self, key, coq, params, ret, fallible, impl=None):
        self.key, self.coq, self.params, self.ret, self.fallible, self.impl = key, coq, params, ret, fallible, impl
        self.uses = set()          # oracles (sha1 / unzip) used, transitively


class Tr:
    def __init__(self, repo):
        self.repo = repo
        self.rm = strip_comments(open(os.path.join(repo, "cameleon", "src", "u3v", "register_map.rs")).read())
        self.ch = strip_comments(open(os.path.join(repo, "cameleon", "src", "u3v", "control_handle.rs")).read())
        self.lib = strip_comments(open(os.path.join(repo, "cameleon", "src", "lib.rs")).read())
        self.defs = []             # (coq name, params [(name, coqtype)], coq type, body, oracles used)
        self.fns = {}              # key -> Fn
        self.n = 0
        self.stack = []

    def fresh(self, base="t"):
        self.n += 1
        return "%s%d_" % (base, self.n)

    # ---- pins ----
    def pins(self):
        ch, rm = self.ch, self.rm
        m = re.search(r"macro_rules! unwrap_or_log \{(.*?)\n\}", ch, flags=re.S)
        if not m or norm_ws(m.group(1)) != ("($expr:expr) => {{ match $expr { Ok(v) => v, Err(error) => { error!(?error); "
                                            "return Err(error.into()); } } }};"):
            raise ShapeError("macro unwrap_or_log! is not `match $expr { Ok(v) => v, Err(error) => { error!(?error); return "
                             "Err(error.into()); } }`")
        for struct, field in STRUCT1.items():
            if not re.search(r"pub struct %s \{\s*%s: u64,\s*\}" % (struct, field), rm):
                raise ShapeError("struct %s is not { %s: u64 }" % (struct, field))
        if not re.search(r"pub struct GenICamFileInfo\(u32\);", rm):
            raise ShapeError("GenICamFileInfo is not a tuple struct over u32")
        if not re.search(r"impl ParseBytes for GenICamFileInfo \{\s*fn parse_bytes\(bytes: &\[u8\]\) -> ControlResult<Self> \{\s*"
                         r"Ok\(Self\(u32::parse_bytes\(bytes\)\?\)\)\s*\}\s*\}", rm):
            raise ShapeError("ParseBytes for GenICamFileInfo is not Ok(Self(u32::parse_bytes(bytes)?))")
        m = re.search(r"macro_rules! impl_parse_bytes_for_numeric \{(.*?)\n\}", rm, flags=re.S)
        if not m or norm_ws(m.group(1)) != ("($ty:ty) => { impl ParseBytes for $ty { fn parse_bytes(bytes: &[u8]) -> "
                                            "ControlResult<Self> { let bytes = bytes.try_into().unwrap(); "
                                            "Ok(<$ty>::from_le_bytes(bytes)) } } };"):
            raise ShapeError("impl_parse_bytes_for_numeric! is not try_into().unwrap() + from_le_bytes")
        for ty in ("u32", "u64"):
            if not re.search(r"impl_parse_bytes_for_numeric!\(%s\);" % ty, rm):
                raise ShapeError("ParseBytes is not implemented for %s by impl_parse_bytes_for_numeric!" % ty)
        ms = list(re.finditer(r"(?m)^fn read_register<T, Ctrl: DeviceControl \+ \?Sized>\(\s*device: &mut Ctrl,\s*addr: u64,\s*"
                              r"len: u16,?\s*\) -> ControlResult<T>\s*where\s*T: ParseBytes,\s*\{", rm))
        if len(ms) != 1:
            raise ShapeError("the free fn read_register<T, Ctrl>(device, addr: u64, len: u16) -> ControlResult<T> changed")
        body, _ = block_after(rm, ms[0].end() - 1)
        if norm_ws(body) != ("let len = len as usize; let mut buf = vec![0; len]; device.read(addr, &mut buf[..len])?; "
                             "T::parse_bytes(&buf[..len])"):
            raise ShapeError("the free fn read_register is not: vec![0; len], one device.read, T::parse_bytes")
        cfn = translate_decoders.functions(translate_decoders.one_impl(ch, "impl ControlHandle"))
        want = {"buffer_capacity": ("fnbuffer_capacity(&self)->usize", "self.buffer.capacity()"),
                "resize_buffer": ("fnresize_buffer(&mutself,size:usize)", "self.buffer.resize(size, 0); self.buffer.shrink_to_fit();")}
        for n, (hd, bd) in want.items():
            if n not in cfn or cfn[n][0] != hd or norm_ws(cfn[n][1]) != bd:
                raise ShapeError("ControlHandle::%s changed" % n)
        if "manifest_table" not in cfn or cfn["manifest_table"][0] != "fnmanifest_table(&mutself)->ControlResult<ManifestTable>":
            raise ShapeError("ControlHandle::manifest_table: signature")
        m = re.search(r"impl From<TryFromIntError> for ControlError \{\s*fn from\(e: TryFromIntError\) -> Self \{\s*"
                      r"Self::(\w+)\(", self.lib)
        if not m:
            raise ShapeError("From<TryFromIntError> for ControlError not found in lib.rs")
        self.tryfrom_class = self.err_class("ControlError::" + m.group(1))
        if not re.search(r"use super::register_map::\{self, Abrm, ManifestTable, Sbrm, Sirm\};", ch):
            raise ShapeError("the `use super::register_map::{..}` line of control_handle.rs changed")
        if not re.search(r"use crate::\{camera::DeviceControl, genapi::CompressionType, ControlError, ControlResult\};", ch):
            raise ShapeError("the `use crate::{..}` line of control_handle.rs changed")
        # the decoders this translation re-uses (raises ShapeError itself when their shape changed)
        self.dec = translate_decoders.translate(self.repo)

    @staticmethod
    def err_class(path):
        table = {"ControlError::InvalidDevice": "CE_INVALID_DEVICE", "ControlError::InvalidData": "CE_INVALID_DATA",
                 "ControlError::Io": "CE_IO", "ControlError::Busy": "CE_BUSY", "ControlError::Disconnected": "CE_DISCONNECTED",
                 "ControlError::Timeout": "CE_TIMEOUT", "ControlError::NotOpened": "CE_NOT_OPENED"}
        if path not in table:
            raise ShapeError("error constructor %r" % path)
        return table[path]

    # ---- sources of the functions ----
    def source(self, key):
        """key 'Type::fn' -> (params [(name, type string)], ret string, body text, self type)"""
        ty, fn = key.split("::")
        if ty == "ControlHandle":
            head = "impl DeviceControl for ControlHandle" if fn == "genapi" else "impl ControlHandle"
            fs = translate_decoders.functions(translate_decoders.one_impl(self.ch, head))
        else:
            fs = translate_decoders.functions(translate_decoders.one_impl(self.rm, "impl " + ty))
        if fn not in fs:
            raise ShapeError("%s not found" % key)
        header, text = fs[fn]
        m = re.match(r"fn%s(<T,Ctrl(?::DeviceControl\+\?Sized)?>|<Ctrl:DeviceControl\+\?Sized>)?\(" % fn, header)
        if not m:
            raise ShapeError("%s: signature %r" % (key, header))
        depth, j = 1, m.end()
        while j < len(header) and depth:
            depth += {"(": 1, ")": -1}.get(header[j], 0)
            j += 1
        if depth:
            raise ShapeError("%s: signature %r" % (key, header))
        plist, tail_ = header[m.end():j - 1], header[j:]
        tm = re.fullmatch(r"(?:->(.*?))?(whereT:ParseBytes(?:,Ctrl:DeviceControl\+\?Sized)?,?)?", tail_)
        if not tm:
            raise ShapeError("%s: signature %r" % (key, header))
        generic_t = bool(m.group(1)) and m.group(1).startswith("<T,")
        if bool(tm.group(2)) != generic_t:
            raise ShapeError("%s: where clause" % key)
        params, depth, cur = [], 0, ""
        for chx in plist + ",":
            if chx in "([<":
                depth += 1
            elif chx in ")]>":
                depth -= 1
            if chx == "," and depth == 0:
                if cur:
                    params.append(cur)
                cur = ""
            else:
                cur += chx
        return params, tm.group(1), text, ty, generic_t

    # ---- demand-driven translation of a method ----
    def method(self, key):
        if key in self.fns:
            return self.fns[key]
        if key in self.stack:
            raise ShapeError("recursion through %s" % key)
        self.stack.append(key)
        saved = (getattr(self, "cur", None), getattr(self, "binds", []), getattr(self, "loops", 0), getattr(self, "items", 0),
                 getattr(self, "iter_item", None))
        self.loops, self.items, self.iter_item = 0, 0, None
        params, ret, text, ty, generic_t = self.source(key)
        tyname, fn = key.split("::")
        coq = "src_%s_%s" % (tyname, fn)
        env, cparams = {}, []
        if not params or params[0] not in ("self", "&self", "&mutself"):
            if params and params[0].startswith("self"):
                raise ShapeError("%s: receiver %r" % (key, params[0]))
            recv = None
        else:
            recv = params.pop(0)
        device = None
        if tyname == "ControlHandle":
            if recv is None:
                raise ShapeError("%s: no receiver" % key)
            env["self"] = ("<device>", "device")
        elif recv is not None:
            env["self"] = ("self_", tyname)
            cparams.append(("self_", "Z"))
        ptypes = []
        for p in params:
            pn, pt = p.split(":", 1)
            if pt in ("&mutCtrl",):
                if device is not None:
                    raise ShapeError("%s: two device parameters" % key)
                device = pn
                env[pn] = ("<device>", "device")
                continue
            t = type_of(pt, tyname)
            env[pn] = ("v_" + pn, t)
            cparams.append(("v_" + pn, coq_ty(t)))
            ptypes.append(t)
        if ret is None:
            raise ShapeError("%s: no return type" % key)
        m = re.fullmatch(r"ControlResult<(.*)>", ret)
        fallible = bool(m)
        rs = m.group(1) if m else ret
        if generic_t:
            if rs != "T":
                raise ShapeError("%s: generic function not returning T" % key)
            rty = "T"
            cparams.append(("size_of_T", "Z"))
        elif rs.startswith("implIterator<Item="):
            rty = TV()
            self.iter_item = type_of(rs[len("implIterator<Item="):-1], tyname)
        else:
            rty = type_of(rs, tyname)
        f = Fn(key, coq, ptypes, rty, fallible, tyname)
        f.generic_t = generic_t
        f.has_self = recv is not None and tyname != "ControlHandle"
        self.cur = f
        try:
            body = parse_block(text)
        except ShapeError as ex:
            raise ShapeError("%s: %s" % (key, ex))
        if fallible or tyname == "ControlHandle":
            code = self.block(body, env, ("ret", rty), coq)
            cty = "X %s" % ("Z" if generic_t else coq_ty(rty))
        else:
            # a pure function: one tail expression without effects
            if len(body) != 1 or body[0][0] != "expr" or body[0][2]:
                raise ShapeError("%s: the body of a function without Result is not one expression" % key)
            self.binds = []
            v, t = self.ev(body[0][1], env, rty)
            if self.binds:
                raise ShapeError("%s: effects in a function without Result" % key)
            unify(t, rty, key)
            code, cty = v, coq_ty(rty)
        f.ret = res(rty)
        self.defs.append((coq, cparams, cty, code, set(f.uses)))
        self.fns[key] = f
        self.stack.pop()
        self.cur, self.binds, self.loops, self.items, self.iter_item = saved
        return f

    # ---- blocks ----
    def assigned(self, node, acc):
        """names assigned (`x = ..`) or passed as `&mut x` inside node"""
        if isinstance(node, tuple):
            if node and node[0] == "assign" and node[1][0] == "path":
                acc.add(node[1][1])
            if node and node[0] == "un" and node[1] == "&mut" and node[2][0] == "path":
                acc.add(node[2][1])
            if node and node[0] == "closure":
                inner = set()
                self.assigned(node[2], inner)
                if inner:
                    raise ShapeError("a closure assigns a variable")
                return
            for x in node:
                self.assigned(x, acc)
        elif isinstance(node, list):
            for x in node:
                self.assigned(x, acc)

    def diverges(self, blk):
        stmts = blk[1]
        return bool(stmts) and stmts[-1][0] == "expr" and stmts[-1][1][0] == "return"

    def wrap_binds(self, binds, inner):
        for pat, term in reversed(binds):
            inner = "dox %s <- %s; %s" % (pat, term, inner)
        return inner

    def finish(self, env, mode):
        if mode[0] == "join":
            return "xret %s" % tup([env[v][0] for v in mode[1]])
        if mode[0] == "ret":
            raise ShapeError("a block ends without a value")
        raise ShapeError("mode %r" % (mode,))

    def block(self, stmts, env, mode, name):
        env = dict(env)
        return self.stmts(stmts, 0, env, mode, name)

    def rebind(self, env, names):
        """fresh Gallina names for the Rust variables `names` (after a join)"""
        out = []
        for v in names:
            nn = self.fresh("v_" + v + "_")
            env[v] = (nn,) + tuple(env[v][1:])
            out.append(nn)
        return out

    def stmts(self, stmts, i, env, mode, name):
        if i == len(stmts):
            return self.finish(env, mode)
        st = stmts[i]
        last = i == len(stmts) - 1
        k = st[0]
        if k == "use":
            if st[1] != "sha1::Digest":
                raise ShapeError("use %s" % st[1])
            return self.stmts(stmts, i + 1, env, mode, name)
        if k == "fn":
            self.local_fn(st, name)
            return self.stmts(stmts, i + 1, env, mode, name)
        if k == "let":
            _, pat, mut, ty, e = st
            want = type_of(ty) if ty else None
            self.binds = []
            if e[0] in ("if", "iflet", "match", "block"):
                raise ShapeError("let of a block-like expression")
            v, t = self.ev(e, env, want)
            binds = self.binds
            t = res(t)
            if isinstance(t, tuple) and t[0] == "result":
                raise ShapeError("a Result is bound by `let` without `?`")
            if want is not None:
                unify(t, want if not (want == "bytes" and t == ("zerobuf",)) else t, "let with a type annotation")
            cpat = self.bind_pattern(pat, t, env, mut)
            if cpat == v:
                return self.wrap_binds(binds, self.stmts(stmts, i + 1, env, mode, name))
            if binds and binds[-1][0] == v and re.fullmatch(r"t\d+_", v):
                binds[-1] = (cpat, binds[-1][1])                      # name the last bind directly
                return self.wrap_binds(binds, self.stmts(stmts, i + 1, env, mode, name))
            rest = self.stmts(stmts, i + 1, env, mode, name)
            if cpat.startswith("("):
                return self.wrap_binds(binds, "let '%s := %s in %s" % (cpat, v, rest))
            return self.wrap_binds(binds, "let %s := %s in %s" % (cpat, v, rest))
        if k == "for":
            return self.for_loop(st, stmts, i, env, mode, name)
        if k == "expr":
            e, semi = st[1], st[2]
            if e[0] in ("if", "iflet", "match"):
                if last and mode[0] == "ret" and not semi:
                    return self.branch(e, env, mode, name)
                if last and mode[0] == "ret":
                    raise ShapeError("the function ends with a statement")
                return self.branch_stmt(e, stmts, i, env, mode, name)
            if e[0] == "block":
                raise ShapeError("nested block statement")
            if e[0] == "return":
                return self.returned(e[1], env)
            if e[0] == "assign":
                if e[1][0] != "path" or e[1][1] not in env:
                    raise ShapeError("assignment to something other than a local")
                var = e[1][1]
                if not env[var][2:] or not env[var][2]:
                    raise ShapeError("assignment to the immutable `%s`" % var)
                self.binds = []
                v, t = self.ev(e[2], env, env[var][1])
                unify(t, env[var][1], "assignment to %s" % var)
                binds = self.binds
                nn = self.fresh("v_" + var + "_")
                env[var] = (nn, env[var][1], True)
                return self.wrap_binds(binds, "let %s := %s in %s" % (nn, v, self.stmts(stmts, i + 1, env, mode, name)))
            if last and not semi:
                if mode[0] == "ret":
                    return self.tail(e, env, mode)
                raise ShapeError("a statement block ends with a value")
            # expression statement
            self.binds = []
            v, t = self.ev(e, env, None)
            t = res(t)
            if isinstance(t, tuple) and t[0] == "result":
                raise ShapeError("a Result is dropped (statement without `?`)")
            return self.wrap_binds(self.binds, self.stmts(stmts, i + 1, env, mode, name))
        raise ShapeError("statement %r" % k)

    def returned(self, e, env):
        """`return e` anywhere in a fallible function"""
        if e[0] == "call" and e[1] == "Err" and len(e[2]) == 1:
            return "xfail %s" % self.error_value(e[2][0], env)
        raise ShapeError("`return` of something other than Err(..)")

    def error_value(self, e, env):
        """an expression of type ControlError -> its class (Gallina term)"""
        while e[0] == "paren":
            e = e[1]
        if e[0] == "call" and e[1].startswith("ControlError::"):
            if len(e[2]) != 1:
                raise ShapeError("error constructor with %d arguments" % len(e[2]))
            self.opaque(e[2][0], env)
            return self.err_class(e[1])
        if e[0] == "call" and ("local", e[1]) in self.fns:
            f = self.fns[("local", e[1])]
            if len(e[2]) != 1:
                raise ShapeError("arity of %s" % e[1])
            self.opaque(e[2][0], env)
            return f.coq
        raise ShapeError("error value %r" % (e[:2],))

    def opaque(self, e, env):
        if e[0] == "mcall" and e[2] == "into" and not e[3]:
            e = e[1]
        if e[0] == "str":
            return
        if e[0] == "macro" and e[1] == "format":
            if not e[2] or e[2][0][0] != "str":
                raise ShapeError("format! without a literal format string")
            for a in e[2][1:]:
                if not (a[0] == "path" and a[1] in env):
                    raise ShapeError("format! argument that is not a local")
            return
        if e[0] == "path" and e[1] in env:
            return
        raise ShapeError("error message %r" % (e[0],))

    def local_fn(self, st, name):
        _, fname, params, ret, body = st
        if ret != "ControlError" or len(params) != 1 or params[0][1] != "implstd::fmt::Debug":
            raise ShapeError("local fn %s is not fn(impl Debug) -> ControlError" % fname)
        if len(body) != 1 or body[0][0] != "expr" or body[0][2]:
            raise ShapeError("local fn %s: body" % fname)
        cls = self.error_value(body[0][1], {params[0][0]: ("_", "opaque")})
        coq = "%s_%s" % (name, fname)
        self.defs.append((coq, [], "Z", cls, set()))
        self.fns[("local", fname)] = Fn(("local", fname), coq, ["opaque"], "ControlError", False)

    def tail(self, e, env, mode):
        """the value of a fallible function: Ok(v) / Err(c) / a Result computation"""
        rty = mode[1]
        while e[0] == "paren":
            e = e[1]
        if e[0] == "call" and e[1] == "Ok" and len(e[2]) == 1:
            self.binds = []
            v, t = self.ev(e[2][0], env, rty if rty != "T" else None)
            if isinstance(res(t), tuple) and res(t)[0] == "result":
                raise ShapeError("Ok(<Result>)")
            unify(t, rty, "Ok(..)")
            return self.wrap_binds(self.binds, "xret %s" % v)
        if e[0] == "call" and e[1] == "Err" and len(e[2]) == 1:
            return "xfail %s" % self.error_value(e[2][0], env)
        self.binds = []
        v, t = self.ev(e, env, ("result", rty))
        t = res(t)
        if not (isinstance(t, tuple) and t[0] == "result"):
            raise ShapeError("the function ends with a value that is not a Result")
        if rty != "T" or t[1] != "T":
            unify(t[1], rty, "returned Result")
        return self.wrap_binds(self.binds, v)

    # ---- if / if let / match ----
    def branch(self, e, env, mode, name):
        """a block-like expression whose branches end in `mode` -> X term"""
        k = e[0]
        if k == "if":
            self.binds = []
            c, t = self.ev(e[1], env, "bool")
            unify(t, "bool", "condition")
            binds = self.binds
            a = self.block(e[2][1], env, mode, name)
            if e[3] is None:
                if mode[0] == "ret":
                    raise ShapeError("`if` without else as a value")
                b = self.finish(env, mode)
            else:
                b = self.block(e[3][1], env, mode, name)
            return self.wrap_binds(binds, "if %s then %s else %s" % (c, paren(a), paren(b)))
        if k == "iflet":
            _, pat, s, a, b = e
            arms = [(pat, None, a), (("pwild",), None, b if b is not None else ("block", []))]
            if b is None and mode[0] == "ret":
                raise ShapeError("`if let` without else as a value")
            return self.match(s, arms, env, mode, name)
        if k == "match":
            return self.match(e[1], e[2], env, mode, name)
        raise ShapeError("branch %r" % k)

    def branch_stmt(self, e, stmts, i, env, mode, name):
        """if / if let / match in statement position, followed by stmts[i+1:]"""
        if e[0] == "if" and e[3] is None and self.diverges(e[2]):
            self.binds = []
            c, t = self.ev(e[1], env, "bool")
            unify(t, "bool", "condition")
            binds = self.binds
            a = self.block(e[2][1], env, ("ret", mode[1] if mode[0] == "ret" else None), name)
            rest = self.stmts(stmts, i + 1, env, mode, name)
            return self.wrap_binds(binds, "if %s then %s else %s" % (c, paren(a), paren(rest)))
        acc = set()
        self.assigned(e, acc)
        mvars = [v for v in env if v in acc]
        for v in mvars:
            if not (len(env[v]) > 2 and env[v][2]):
                raise ShapeError("`%s` is modified but not declared `mut`" % v)
        term = self.branch(e, env, ("join", mvars), name)
        names = self.rebind(env, mvars)
        rest = self.stmts(stmts, i + 1, env, mode, name)
        return "dox %s <- %s; %s" % (tup(names) if names else "_", paren(term), rest)

    def match(self, scrut, arms, env, mode, name):
        self.binds = []
        s = scrut
        while s[0] == "paren":
            s = s[1]
        if s[0] == "un" and s[1] == "&":
            s = s[2]
        v, t = self.ev(s, env, None)
        binds = self.binds
        t = res(t)
        if isinstance(t, tuple) and t[0] == "result":
            raise ShapeError("match on a Result")
        if isinstance(t, tuple) and t[0] == "option":
            return self.wrap_binds(binds, self.match_option(v, t, arms, 0, env, mode, name))
        if isinstance(t, str) and t in ENUMS:
            return self.wrap_binds(binds, self.match_enum(v, t, arms, env, mode, name))
        raise ShapeError("match on a value of type %s" % show(t))

    def match_option(self, v, t, arms, k, env, mode, name):
        if k == len(arms):
            raise ShapeError("match on an Option is not seen to be exhaustive")
        pat, guard, body = arms[k]
        if pat[0] in ("pwild",) or (pat[0] == "pbind"):
            if pat[0] == "pbind":
                raise ShapeError("binding arm in a match on an Option")
            if guard is not None:
                raise ShapeError("guard on a wildcard arm")
            if k != len(arms) - 1:
                raise ShapeError("unreachable match arms")
            return self.block(body[1], env, mode, name)
        if pat[0] == "ppath" and pat[1] == "None":
            if guard is not None:
                raise ShapeError("guard on None")
            here = self.block(body[1], env, mode, name)
            if k == len(arms) - 1:
                raise ShapeError("match on an Option is not seen to be exhaustive")
            rest = self.match_option(v, t, arms[:k + 1] and arms, k + 1, env, mode, name)
            return "match %s with None => %s | Some _ => %s end" % (v, paren(here), paren(rest))
        if pat[0] == "pctor" and pat[1] == "Some" and len(pat[2]) == 1:
            benv = dict(env)
            cpat = self.bind_pattern(pat[2][0], t[1], benv, False)
            if guard is not None:
                self.binds = []
                g, gt = self.ev(guard, benv, "bool")
                unify(gt, "bool", "guard")
                if self.binds:
                    raise ShapeError("effects in a match guard")
            here = self.block(body[1], benv, mode, name)
            if guard is None:
                tail_arms = [a for a in arms[k + 1:]]
                # the remaining arms only see None
                rest = self.match_none(tail_arms, env, mode, name)
                return "match %s with Some %s => %s | None => %s end" % (v, cpat, paren(here), paren(rest))
            rest = self.match_option(v, t, arms, k + 1, env, mode, name)
            return "match %s with Some %s => if %s then %s else %s | None => %s end" % (
                v, cpat, g, paren(here), paren(rest), paren(rest))
        raise ShapeError("pattern %r in a match on an Option" % (pat,))

    def match_none(self, arms, env, mode, name):
        for pat, guard, body in arms:
            if guard is not None:
                raise ShapeError("guard after an unguarded Some arm")
            if pat[0] == "pwild" or (pat[0] == "ppath" and pat[1] == "None"):
                return self.block(body[1], env, mode, name)
            raise ShapeError("pattern %r after an unguarded Some arm" % (pat,))
        raise ShapeError("match on an Option is not seen to be exhaustive")

    def match_enum(self, v, t, arms, env, mode, name):
        seen, out = [], []
        for pat, guard, body in arms:
            if guard is not None:
                raise ShapeError("guard in a match on an enum")
            if pat[0] == "pwild":
                out.append((None, self.block(body[1], env, mode, name)))
                break
            if pat[0] != "ppath":
                raise ShapeError("pattern %r in a match on %s" % (pat, t))
            num = self.variant(pat[1], t)
            if num in seen:
                raise ShapeError("repeated variant in a match")
            seen.append(num)
            out.append((num, self.block(body[1], env, mode, name)))
        if len(out) != len(arms):
            raise ShapeError("unreachable match arms")
        if out[-1][0] is not None and set(seen) != set(ENUMS[t].values()):
            raise ShapeError("match on %s is not seen to be exhaustive" % t)
        code = out[-1][1]
        for num, b in reversed(out[:-1]):
            code = "if %s =? %d then %s else %s" % (v, num, paren(b), paren(code))
        return code

    @staticmethod
    def variant(path, want=None):
        p = path.replace("register_map::", "")
        m = re.fullmatch(r"(\w+)::(\w+)", p)
        if not m or m.group(1) not in ENUMS or m.group(2) not in ENUMS[m.group(1)]:
            raise ShapeError("variant %r" % path)
        if want is not None and m.group(1) != want:
            raise ShapeError("variant %r where a %s is expected" % (path, want))
        return ENUMS[m.group(1)][m.group(2)]

    def bind_pattern(self, pat, t, env, mut):
        """irrefutable pattern against type t: extends env, returns the Gallina pattern"""
        if pat[0] == "pwild":
            return "_"
        if pat[0] == "pbind":
            nm = "v_" + pat[1]
            env[pat[1]] = (nm, t, mut)
            return nm
        if pat[0] == "ptuple":
            tt = res(t)
            if isinstance(tt, TV):
                tt.ref = ("tuple", [TV() for _ in pat[1]])
                tt = res(tt)
            if not (isinstance(tt, tuple) and tt[0] == "tuple" and len(tt[1]) == len(pat[1])):
                raise ShapeError("tuple pattern against %s" % show(tt))
            return "(" + ", ".join(self.bind_pattern(p, x, env, mut) for p, x in zip(pat[1], tt[1])) + ")"
        raise ShapeError("pattern %r is not irrefutable" % (pat,))

    # ---- for loops ----
    def for_loop(self, st, stmts, i, env, mode, name):
        _, pat, it, body = st
        self.binds = []
        v, t = self.ev(it, env, None)
        binds = self.binds
        t = res(t)
        if not (isinstance(t, tuple) and t[0] == "iter"):
            raise ShapeError("for over a %s" % show(t))
        _, itemfn, item_t, cap_ts = t
        acc = set()
        self.assigned(body, acc)
        mvars = [x for x in env if x in acc]
        for x in mvars:
            if not (len(env[x]) > 2 and env[x][2]):
                raise ShapeError("`%s` is modified but not declared `mut`" % x)
        self.loops = getattr(self, "loops", 0)
        kk = self.loops
        self.loops += 1
        # variables of the enclosing function the body reads (parameters of the emitted definitions)
        free = [x for x in env if env[x][0] != "<device>" and x not in mvars and self.mentions(body, x)]
        benv = dict(env)
        ipat = self.bind_pattern(pat, item_t, benv, False)
        bcode = self.block(body, benv, ("join", mvars), name)
        body_name = "%s_loop%d_body" % (name, kk)
        bparams = [(env[x][0], coq_ty(env[x][1])) for x in free] + [(ipat, coq_ty(item_t))] + \
                  [(env[x][0], coq_ty(env[x][1])) for x in mvars]
        st_ty = "unit" if not mvars else coq_ty(("tuple", [env[x][1] for x in mvars])) if len(mvars) > 1 else coq_ty(env[mvars[0]][1])
        self.defs.append((body_name, bparams, "X %s" % st_ty, bcode, set(self.cur.uses)))
        loop_name = "%s_loop%d" % (name, kk)
        caps = ["c%d_" % j for j in range(len(cap_ts))]
        stpat = tup([env[x][0] for x in mvars]) if mvars else "_"
        lam_st = stpat if not stpat.startswith("(") else "'" + stpat
        call_body = "%s %s" % (body_name, " ".join([env[x][0] for x in free] + ["item_"] + [env[x][0] for x in mvars]))
        lcode = "xf_for_range lo_ hi_ (fun i_ %s => dox item_ <- %s %s i_; %s) %s" % (
            lam_st, itemfn, " ".join(caps), call_body, tup([env[x][0] for x in mvars]))
        lparams = [(env[x][0], coq_ty(env[x][1])) for x in free] + [("lo_", "Z"), ("hi_", "Z")] + \
                  [(c, coq_ty(ct)) for c, ct in zip(caps, cap_ts)] + [(env[x][0], coq_ty(env[x][1])) for x in mvars]
        self.defs.append((loop_name, lparams, "X %s" % st_ty, lcode, set(self.cur.uses)))
        itv = self.fresh("it")
        call_loop = "%s %s" % (loop_name, " ".join([env[x][0] for x in free] + ["lo_", "hi_"] + caps + [env[x][0] for x in mvars]))
        names = self.rebind(env, mvars)
        # what follows the loop is a definition of its own, over the variables it reads
        rest_stmts = stmts[i + 1:]
        after_name = "%s_after%d" % (name, kk)
        live = [x for x in env if env[x][0] != "<device>" and self.mentions(rest_stmts, x)]
        aenv = dict(env)
        for x in live:
            aenv[x] = ("v_" + x,) + tuple(env[x][1:])
        saved_uses = set(self.cur.uses)
        self.cur.uses = set()
        acode = self.stmts(rest_stmts, 0, aenv, mode, name)
        after_uses = set(self.cur.uses)
        self.cur.uses = saved_uses | after_uses
        rty = mode[1] if mode[0] == "ret" else None
        if rty is None:
            raise ShapeError("a loop inside a statement block")
        self.defs.append((after_name, [("v_" + x, coq_ty(env[x][1])) for x in live], "X %s" % coq_ty(rty), acode, after_uses))
        call_after = "%s %s" % (after_name, " ".join(env[x][0] for x in live)) if live else after_name
        code = "let '(lo_, hi_, %s) := %s in dox %s <- %s; %s" % (
            tup(caps) if len(caps) != 1 else caps[0], v, tup(names) if names else "_", call_loop, call_after)
        return self.wrap_binds(binds, code)

    def mentions(self, node, name):
        if isinstance(node, tuple):
            if len(node) == 2 and node[0] == "path" and node[1] == name:
                return True
            return any(self.mentions(x, name) for x in node)
        if isinstance(node, list):
            return any(self.mentions(x, name) for x in node)
        return False

    # ---- expressions ----
    def bind(self, term, base="t"):
        nm = self.fresh(base)
        self.binds.append((nm, term))
        return nm

    def run(self, v, t, what):
        """a Result computation -> bind it, return the value"""
        t = res(t)
        if not (isinstance(t, tuple) and t[0] == "result"):
            raise ShapeError("%s applied to a value that is not a Result" % what)
        return self.bind(v), t[1]

    def ev(self, e, env, want=None):
        k = e[0]
        if k == "paren":
            return self.ev(e[1], env, want)
        if k == "unit":
            return "tt", "unit"
        if k == "lit":
            ty = e[2] or (want if isinstance(want, str) and want in INTS else None)
            if ty is None:
                raise ShapeError("the type of the literal %d cannot be determined" % e[1])
            if ty not in INTS or not (0 <= e[1] < 2 ** INTS[ty]):
                raise ShapeError("literal %d at type %s" % (e[1], ty))
            return str(e[1]), ty
        if k == "path":
            p = e[1]
            if p in env:
                if env[p][0] == "<device>":
                    raise ShapeError("the device handle used as a value")
                return env[p][0], env[p][1]
            if p == "None":
                t = TV()
                if isinstance(want, tuple) and want[0] == "option":
                    t = want[1]
                return "None", ("option", t)
            m = re.fullmatch(r"manifest_entry::(\w+)", p)
            if m:
                return "manifest_entry_%s" % m.group(1), ("tuple", ["u64", "u16"])
            if "::" in p:
                pp = p.replace("register_map::", "")
                en = pp.split("::")[0]
                if en in ENUMS:
                    return str(self.variant(p)), en
            raise ShapeError("unknown name %r" % p)
        if k == "tuple":
            wants = want[1] if isinstance(want, tuple) and want[0] == "tuple" and len(want[1]) == len(e[1]) else [None] * len(e[1])
            parts = [self.ev(x, env, w) for x, w in zip(e[1], wants)]
            for _, t in parts:
                if isinstance(res(t), tuple) and res(t)[0] == "result":
                    raise ShapeError("a Result inside a tuple")
            return "(" + ", ".join(p[0] for p in parts) + ")", ("tuple", [p[1] for p in parts])
        if k == "field":
            v, t = self.ev(e[1], env, None)
            t = res(t)
            if isinstance(t, str) and t in STRUCT1 and e[2] == STRUCT1[t]:
                return v, "u64"
            if isinstance(t, tuple) and t[0] == "tuple" and e[2].isdigit() and int(e[2]) < len(t[1]):
                n, j = len(t[1]), int(e[2])
                if n != 2:
                    raise ShapeError("field of a %d-tuple" % n)
                return "(%s %s)" % ("fst" if j == 0 else "snd", v), t[1][j]
            raise ShapeError("field .%s of a %s" % (e[2], show(t)))
        if k == "struct":
            if e[1] != "Self" or self.cur.impl not in STRUCT1 or len(e[2]) != 1 or e[2][0][0] != STRUCT1[self.cur.impl]:
                raise ShapeError("struct literal %s" % e[1])
            v, t = self.ev(e[2][0][1], env, "u64")
            unify(t, "u64", "struct literal")
            return v, self.cur.impl
        if k == "try":
            v, t = self.ev(e[1], env, ("result", want) if want is not None else None)
            return self.run(v, t, "`?`")
        if k == "macro":
            if e[1] == "unwrap_or_log":
                if len(e[2]) != 1:
                    raise ShapeError("unwrap_or_log! with %d arguments" % len(e[2]))
                v, t = self.ev(e[2][0], env, ("result", want) if want is not None else None)
                return self.run(v, t, "unwrap_or_log!")
            raise ShapeError("macro %s!" % e[1])
        if k == "vec_rep" or k == "array_rep":
            v, t = self.ev(e[1], env, "u8")
            if v != "0":
                raise ShapeError("a buffer initialised with something other than 0")
            n, nt = self.ev(e[2], env, "usize")
            unify(nt, "usize", "buffer length")
            if k == "vec_rep":
                return self.bind("xf_vec_zeroed %s" % n), ("zerobuf",)
            return n, ("zerobuf",)
        if k == "un":
            op = e[1]
            if op == "&":
                v, t = self.ev(e[2], env, want)
                if isinstance(res(t), tuple) and res(t)[0] == "result":
                    raise ShapeError("reference to a Result")
                return v, t
            if op == "*":
                return self.ev(e[2], env, want)
            if op == "!":
                v, t = self.ev(e[2], env, "bool")
                unify(t, "bool", "`!`")
                return "(negb %s)" % v, "bool"
            raise ShapeError("unary %s" % op)
        if k == "bin":
            return self.binop(e, env, want)
        if k == "range":
            lo, lt = self.ev(e[1], env, None if e[1][0] != "lit" or e[1][2] else "u64")
            hi, ht = self.ev(e[2], env, lt)
            unify(lt, ht, "range")
            if res(lt) != "u64":
                raise ShapeError("range over %s" % show(lt))
            self.last_range = (lo, hi)
            return "(%s, %s)" % (lo, hi), ("range", "u64")
        if k == "call":
            return self.call(e, env, want)
        if k == "mcall":
            return self.mcall(e, env, want)
        if k == "as":
            raise ShapeError("`as` cast")
        if k == "closure":
            raise ShapeError("closure in value position")
        if k in ("if", "iflet", "match", "block"):
            raise ShapeError("block-like expression in operand position")
        if k == "str":
            raise ShapeError("string literal in value position")
        raise ShapeError("expression %r" % k)

    def binop(self, e, env, want):
        op, l, r = e[1], e[2], e[3]
        if op in ("&&", "||"):
            a, at = self.ev(l, env, "bool")
            nb = len(self.binds)
            b, bt = self.ev(r, env, "bool")
            if len(self.binds) != nb:
                raise ShapeError("effects in the right operand of %s" % op)
            unify(at, "bool", op)
            unify(bt, "bool", op)
            return "(%s %s %s)" % (a, op, b), "bool"
        if op in ("==", "!=", "<", ">", "<=", ">="):
            if l[0] == "lit" and l[2] is None:
                b, bt = self.ev(r, env, None)
                a, at = self.ev(l, env, res(bt))
            else:
                a, at = self.ev(l, env, None)
                b, bt = self.ev(r, env, res(at) if isinstance(res(at), str) else None)
            at, bt = res(at), res(bt)
            for t in (at, bt):
                if isinstance(t, tuple) and t[0] == "result":
                    raise ShapeError("comparison of a Result")
            if at == "Version" or bt == "Version":
                unify(at, bt, "comparison")
                tab = {"<=": "xf_ver_le %s %s" % (a, b), ">=": "xf_ver_le %s %s" % (b, a),
                       "<": "negb (xf_ver_le %s %s)" % (b, a), ">": "negb (xf_ver_le %s %s)" % (a, b)}
                if op not in tab:
                    raise ShapeError("%s on semver::Version" % op)
                return "(%s)" % tab[op], "bool"
            if isinstance(at, str) and isinstance(bt, str) and at in ("bytes", "digest") and bt in ("bytes", "digest"):
                if op != "==":
                    raise ShapeError("%s on byte slices" % op)
                return "(xf_slice_eq %s %s)" % (a, b), "bool"
            unify(at, bt, "comparison")
            at = res(at)
            if isinstance(at, str) and at in ENUMS:
                if op not in ("==", "!="):
                    raise ShapeError("%s on %s" % (op, at))
            elif not (isinstance(at, str) and at in INTS):
                raise ShapeError("comparison at type %s" % show(at))
            c = {"==": "%s =? %s", "!=": "negb (%s =? %s)", "<": "%s <? %s", ">": "%s >? %s", "<=": "%s <=? %s",
                 ">=": "%s >=? %s"}[op] % (a, b)
            return "(%s)" % c, "bool"
        if op in ("+", "*", "-"):
            if l[0] == "lit" and l[2] is None:
                b, bt = self.ev(r, env, want)
                a, at = self.ev(l, env, res(bt))
            else:
                a, at = self.ev(l, env, want)
                b, bt = self.ev(r, env, res(at) if isinstance(res(at), str) else None)
            unify(at, bt, "operands of %s" % op)
            at = res(at)
            if not (isinstance(at, str) and at in INTS):
                raise ShapeError("%s at type %s" % (op, show(at)))
            f = {"+": "r_add", "*": "r_mul", "-": "r_sub"}[op]
            return self.bind("xf_lift (%s %d %s %s)" % (f, INTS[at], a, b)), at
        raise ShapeError("operator %s" % op)

    def closure_fn(self, c, env, ptypes, want_ret, name):
        """a closure as a PURE Gallina function (no effects, no arithmetic that can panic)"""
        _, params, body = c
        if len(params) != len(ptypes):
            raise ShapeError("closure with %d parameters where %d are expected" % (len(params), len(ptypes)))
        benv = dict(env)
        for p, t in zip(params, ptypes):
            benv[p] = ("v_" + p, t)
        saved = self.binds
        self.binds = []
        while body[0] == "paren" or (body[0] == "block" and len(body[1]) == 1 and body[1][0][0] == "expr" and not body[1][0][2]):
            body = body[1] if body[0] == "paren" else body[1][0][1]
        v, t = self.ev(body, benv, want_ret)
        if self.binds:
            raise ShapeError("effects inside the closure of %s" % name)
        self.binds = saved
        return "(fun %s => %s)" % (" ".join("v_" + p for p in params) or "_", v), t

    def call(self, e, env, want):
        path, args = e[1], e[2]
        if path == "Some":
            if len(args) != 1:
                raise ShapeError("Some with %d arguments" % len(args))
            w = want[1] if isinstance(want, tuple) and want[0] == "option" else None
            v, t = self.ev(args[0], env, w)
            if isinstance(res(t), tuple) and res(t)[0] == "result":
                raise ShapeError("Some(<Result>)")
            return "(Some %s)" % v, ("option", t)
        if path in ("Ok", "Err"):
            raise ShapeError("%s(..) in operand position" % path)
        if path == "register_address":
            if len(args) != 2:
                raise ShapeError("arity of register_address")
            a, at = self.ev(args[0], env, "u64")
            b, bt = self.ev(args[1], env, "u64")
            unify(at, "u64", "register_address")
            unify(bt, "u64", "register_address")
            return "xf_register_address %s %s" % (a, b), ("result", "u64")
        if path == "read_register":
            if len(args) != 3 or args[0][0] != "path" or env.get(args[0][1], ("",))[0] != "<device>":
                raise ShapeError("read_register(..) without the device as first argument")
            a, at = self.ev(args[1], env, "u64")
            b, bt = self.ev(args[2], env, "u16")
            unify(at, "u64", "read_register")
            unify(bt, "u16", "read_register")
            return self.read_as(want, a, b)
        m = re.fullmatch(r"(ManifestEntry|ManifestTable)::new", path)
        if m:
            f = self.method(path)
            if len(args) != 1:
                raise ShapeError("arity of %s" % path)
            a, at = self.ev(args[0], env, "u64")
            unify(at, "u64", path)
            return "(%s %s)" % (f.coq, a), m.group(1)
        if path == "sha1::Sha1::digest":
            if len(args) != 1:
                raise ShapeError("arity of digest")
            a, at = self.ev(args[0], env, "bytes")
            unify(at, "bytes", "Sha1::digest")
            self.cur.uses.add("sha1")
            return "(sha1 %s)" % a, "digest"
        if path == "zip::ZipArchive::new":
            if len(args) != 1 or args[0][0] != "call" or args[0][1] != "std::io::Cursor::new" or len(args[0][2]) != 1:
                raise ShapeError("ZipArchive::new of something other than std::io::Cursor::new(buf)")
            a, at = self.ev(args[0][2][0], env, "bytes")
            unify(at, "bytes", "ZipArchive::new")
            self.cur.uses.add("unzip")
            return "(xf_zip_new unzip %s)" % a, ("zresult", "ziparchive")
        if path == "Vec::with_capacity":
            if len(args) != 1:
                raise ShapeError("arity of Vec::with_capacity")
            a, at = self.ev(args[0], env, "usize")
            unify(at, "usize", "Vec::with_capacity")
            return "(xf_vec_with_capacity %s)" % a, "bytes"
        if path == "String::from_utf8_lossy":
            if len(args) != 1:
                raise ShapeError("arity of from_utf8_lossy")
            a, at = self.ev(args[0], env, "bytes")
            unify(at, "bytes", "from_utf8_lossy")
            return "(lossy %s)" % a, "cow"
        raise ShapeError("call of %r" % path)

    def read_as(self, want, a, b, helper=None):
        want = res(want) if want is not None else None
        if not (isinstance(want, tuple) and want[0] == "result"):
            raise ShapeError("the type T of read_register is not determined by the context")
        t = res(want[1])
        if t == "T" and self.cur.generic_t:
            size = "size_of_T"
        elif isinstance(t, str) and t in SIZE_OF:
            size = str(SIZE_OF[t])
        else:
            raise ShapeError("read_register::<%s>" % show(t))
        if helper:
            return "%s %s %s" % (helper, a, size), ("result", t)
        return "xf_read_as %s %s %s" % (size, a, b), ("result", t)

    def device_arg(self, args, env, what):
        if not args or args[0][0] != "path" or env.get(args[0][1], ("",))[0] != "<device>":
            raise ShapeError("%s is not called with the device handle" % what)
        return args[1:]

    def mcall(self, e, env, want):
        recv, name, args = e[1], e[2], e[3]
        # ---- methods of the device handle ----
        if recv[0] == "path" and env.get(recv[1], ("",))[0] == "<device>":
            if name == "read":
                if len(args) != 2 or args[1][0] != "un" or args[1][1] != "&mut" or args[1][2][0] != "path":
                    raise ShapeError("read(..) without `&mut <local>` as buffer")
                a, at = self.ev(args[0], env, "u64")
                unify(at, "u64", "read address")
                var = args[1][2][1]
                if var not in env or res(env[var][1]) != ("zerobuf",) or not (len(env[var]) > 2 and env[var][2]):
                    raise ShapeError("read into `%s`, which is not a mutable buffer that has only been zero-initialised" % var)
                nn = self.fresh("v_" + var + "_")
                term = "xf_read_into %s %s" % (a, env[var][0])
                env[var] = (nn, "bytes", True)
                self.pending_name = nn
                return term, ("result_named", nn)
            if self.cur.impl != "ControlHandle":
                raise ShapeError("method %s of the device" % name)
            if name == "manifest_table" and not args:
                return "manifest_table", ("result", "ManifestTable")
            if name == "buffer_capacity" and not args:
                return self.bind("xf_buffer_capacity"), "usize"
            if name == "resize_buffer" and len(args) == 1:
                a, at = self.ev(args[0], env, "usize")
                unify(at, "usize", "resize_buffer")
                self.bind("resize_buffer %s" % a, "u")
                return "tt", "unit"
            if name == "verify_xml" and len(args) == 2:
                f = self.method("ControlHandle::verify_xml")
                a, at = self.ev(args[0], env, "bytes")
                b, bt = self.ev(args[1], env, "ManifestEntry")
                unify(at, f.params[0], "verify_xml")
                unify(bt, f.params[1], "verify_xml")
                self.cur.uses |= f.uses
                return "%s %s %s" % (f.coq, a, b), ("result", f.ret)
            raise ShapeError("method %s of the device handle" % name)
        v, t = self.ev(recv, env, None)
        t = res(t)
        if isinstance(t, tuple) and t[0] == "result_named":
            raise ShapeError("method on the result of read")
        # ---- translated methods of ManifestTable / ManifestEntry ----
        if isinstance(t, str) and t in ("ManifestTable", "ManifestEntry"):
            rest = self.device_arg(args, env, "%s::%s" % (t, name))
            if name == "read_register":
                if len(rest) != 1:
                    raise ShapeError("arity of read_register")
                f = self.method("%s::read_register" % t)
                r, rt = self.ev(rest[0], env, ("tuple", ["u64", "u16"]))
                unify(rt, ("tuple", ["u64", "u16"]), "register")
                return self.read_as(want, "%s %s" % (v, r), None, helper=f.coq)
            if name == "genicam_file_version" and t == "ManifestEntry" and not rest:
                return "src_ManifestEntry_genicam_file_version %s" % v, ("result", "Version")
            if rest:
                raise ShapeError("arguments of %s::%s" % (t, name))
            f = self.method("%s::%s" % (t, name))
            if not f.fallible:
                raise ShapeError("%s::%s is not fallible" % (t, name))
            self.cur.uses |= f.uses
            return "%s %s" % (f.coq, v), ("result", f.ret)
        if t == "GenICamFileInfo" and not args:
            tab = {"file_type": ("src_file_type", "GenICamFileType"), "compression_type": ("src_compression_type", "CompressionType")}
            if name in tab:
                return "xf_lift_rm (%s %s)" % (tab[name][0], v), ("result", tab[name][1])
        # ---- integers / options / results ----
        if isinstance(t, str) and t in INTS:
            if name in ("checked_sub", "checked_mul", "checked_add") and len(args) == 1:
                a, at = self.ev(args[0], env, t)
                unify(at, t, name)
                f = {"checked_sub": "xf_checked_sub", "checked_mul": "xf_checked_mul", "checked_add": "r_checked_add"}[name]
                return "(%s %d %s %s)" % (f, INTS[t], v, a), ("option", t)
            if name == "try_into" and not args:
                w = res(want) if want is not None else None
                if not (isinstance(w, tuple) and w[0] == "result" and res(w[1]) == "usize") or t != "u64":
                    raise ShapeError("try_into() that is not u64 -> usize (by a type annotation)")
                return "xf_lift (xf_try_into_usize %s %s)" % (v, self.tryfrom_class), ("result", "usize")
        if isinstance(t, tuple) and t[0] == "option":
            if name == "and_then" and len(args) == 1 and args[0][0] == "closure":
                f, ft = self.closure_fn(args[0], env, [t[1]], None, "and_then")
                ft = res(ft)
                if not (isinstance(ft, tuple) and ft[0] == "option"):
                    raise ShapeError("and_then with a closure returning %s" % show(ft))
                return "(xf_and_then %s %s)" % (v, f), ft
            if name == "ok_or_else" and len(args) == 1 and args[0][0] == "closure" and not args[0][1]:
                body = args[0][2]
                while body[0] == "paren" or (body[0] == "block" and len(body[1]) == 1 and body[1][0][0] == "expr" and not body[1][0][2]):
                    body = body[1] if body[0] == "paren" else body[1][0][1]
                cls = self.error_value(body, env)
                return "xf_lift (r_ok_or %s %s)" % (v, cls), ("result", t[1])
        if isinstance(t, tuple) and t[0] == "zresult":
            if name == "map_err" and len(args) == 1 and args[0][0] == "path" and ("local", args[0][1]) in self.fns:
                cls = self.fns[("local", args[0][1])].coq
                if len(t) > 2:            # read_to_end: rebinding of the accumulator
                    self.pending_name = t[2]
                    return "xf_lift (xf_map_err %s %s)" % (v, cls), ("result_named", t[2])
                return "xf_lift (xf_map_err %s %s)" % (v, cls), ("result", t[1])
        # ---- bytes ----
        if isinstance(t, str) and t in ("bytes", "digest"):
            if name == "as_slice" and not args:
                return v, "bytes"
            if name == "iter" and not args:
                return v, ("byteiter",)
        if t == ("byteiter",) and name == "all" and len(args) == 1 and args[0][0] == "closure":
            c = args[0]
            if len(c[1]) == 1 and c[2] == ("bin", "==", ("un", "*", ("path", c[1][0])), ("lit", 0, None)):
                return "(xf_all_zero %s)" % v, "bool"
            raise ShapeError("all(..) with a closure other than |b| *b == 0")
        if t == "cow" and name == "into" and not args:
            return v, "string"
        # ---- iterators ----
        if isinstance(t, tuple) and t[0] == "range" and name == "map" and len(args) == 1 and args[0][0] == "closure":
            return self.iter_map(v, args[0], env)
        # ---- zip ----
        if t == "ziparchive":
            if name == "len" and not args:
                return "(xf_zip_len %s)" % v, "usize"
            if name == "by_index" and len(args) == 1:
                a, at = self.ev(args[0], env, "usize")
                unify(at, "usize", "by_index")
                return "(xf_zip_by_index %s %s)" % (v, a), ("zresult", "zipfile")
        if t == "zipfile":
            if name == "size" and not args:
                return "(xf_zip_size %s)" % v, "u64"
            if name == "read_to_end" and len(args) == 1 and args[0][0] == "un" and args[0][1] == "&mut" and args[0][2][0] == "path":
                var = args[0][2][1]
                if var not in env or res(env[var][1]) != "bytes" or not (len(env[var]) > 2 and env[var][2]):
                    raise ShapeError("read_to_end into `%s`, which is not a mutable Vec<u8>" % var)
                nn = self.fresh("v_" + var + "_")
                term = "(xf_zip_read_to_end %s %s)" % (v, env[var][0])
                env[var] = (nn, "bytes", True)
                return term, ("zresult", "usize", nn)
        raise ShapeError("method .%s(..) on a %s" % (name, show(t)))

    def iter_map(self, rng, c, env):
        """(lo..hi).map(move |i| e): the item function becomes a definition over the captured locals"""
        _, params, body = c
        if len(params) != 1:
            raise ShapeError("map with a closure of %d parameters" % len(params))
        caps = [x for x in env if env[x][0] != "<device>" and x != params[0] and self.mentions(body, x)]
        if "self" in caps:
            raise ShapeError("the iterator closure captures self")
        benv = {x: ("v_" + x, env[x][1]) for x in caps}
        benv[params[0]] = ("v_" + params[0], "u64")
        saved = self.binds
        self.binds = []
        v, t = self.ev(body, benv, None)
        binds = self.binds
        self.binds = saved
        t = res(t)
        if isinstance(t, tuple) and t[0] == "result":
            raise ShapeError("iterator closure returning a Result")
        item = getattr(self, "iter_item", None)
        if item is not None:
            unify(t, item, "Iterator::Item")
        kk = getattr(self, "items", 0)
        self.items = kk + 1
        nm = "%s_item%d" % (self.cur.coq, kk)
        self.defs.append((nm, [("v_" + x, coq_ty(env[x][1])) for x in caps] + [("v_" + params[0], "Z")],
                          "X %s" % coq_ty(t), self.wrap_binds(binds, "xret %s" % v), set()))
        capv = tup([env[x][0] for x in caps]) if len(caps) != 1 else env[caps[0]][0]
        lo, hi = self.last_range
        if rng != "(%s, %s)" % (lo, hi):
            raise ShapeError("map over a range that is not written in place")
        return "(%s, %s, %s)" % (lo, hi, capv), ("iter", nm, t, [env[x][1] for x in caps])


# the named results (`read(.., &mut buf)`, `read_to_end(&mut xml)`): `?` binds the new contents to the fresh name
_orig_run = Tr.run


def _run(self, v, t, what):
    t = res(t)
    if isinstance(t, tuple) and t[0] == "result_named":
        self.binds.append((t[1], v))
        return "tt", "unit"
    return _orig_run(self, v, t, what)


Tr.run = _run


def translate(repo):
    tr = Tr(repo)
    tr.pins()
    # ManifestEntry::genicam_file_version = its read_register prologue (pinned by translate_decoders) + the translated decoder
    notes = tr.dec["notes"]
    if "ManifestEntry::genicam_file_version reads manifest_entry::GENICAM_FILE_VERSION" not in notes:
        raise ShapeError("ManifestEntry::genicam_file_version does not read manifest_entry::GENICAM_FILE_VERSION")
    tr.cur = Fn("ManifestEntry::genicam_file_version", "src_ManifestEntry_genicam_file_version", [], "Version", True, "ManifestEntry")
    tr.cur.generic_t = False
    tr.stack.append("ManifestEntry::genicam_file_version")
    helper = tr.method("ManifestEntry::read_register")
    tr.stack.pop()
    tr.defs.append(("src_ManifestEntry_genicam_file_version", [("self_", "Z")], "X (Z * Z * Z)",
                    "dox w_ <- %s self_ src_genicam_file_version_reg 4; xf_lift_rm (src_genicam_file_version w_)" % helper.coq, set()))
    for key in ("ManifestTable::new", "ManifestTable::entries", "ManifestEntry::file_info", "ManifestEntry::file_address",
                "ManifestEntry::file_size", "ManifestEntry::sha1_hash", "ControlHandle::verify_xml", "ControlHandle::genapi"):
        tr.method(key)
    return {"defs": tr.defs, "fns": tr.fns}


def render(t):
    o = ["(* GENERATED by tools/translate_xmlfetch.py from cameleon/src/u3v/control_handle.rs (genapi, verify_xml) and",
         "   cameleon/src/u3v/register_map.rs (ManifestTable / ManifestEntry) - do not edit.  Vocabulary: model/XfOps.v;",
         "   decoders: gen/DecodersSrc.v.  One-field structs are their field, semver::Version is a triple, a buffer that has",
         "   only been zero-initialised is its length; v_x_<n>_ is the variable x after its n-th rebinding. *)",
         "From Cam Require Import XfOps RustInt RegTables DecodersSrc.", "",
         "Section Src.", "Variable sha1 : list Z -> list Z.", "Variable unzip : list Z -> option (list (option (list Z))).", ""]
    for coq, params, cty, body, uses in t["defs"]:
        ps = " ".join("(%s : %s)" % (p if not p.startswith("(") else "'" + p, ty) for p, ty in params)
        o.append(wrap("Definition %s %s : %s :=" % (coq, ps, cty) if ps else "Definition %s : %s :=" % (coq, cty)))
        o.append(wrap("  " + body + "."))
        o.append("")
    o.append("End Src.")
    o.append("")
    return "\n".join(o)


def regenerate(repo=None, out=None):
    repo = repo or os.environ.get("VERIF_REPO", "/repo")
    t = translate(repo)
    text = render(t)
    out = out or OUT
    old = open(out).read() if os.path.exists(out) else None
    if old != text:
        with open(out, "w") as f:
            f.write(text)
    return t


if __name__ == "__main__":
    try:
        regenerate(sys.argv[1] if len(sys.argv) > 1 else None, sys.argv[2] if len(sys.argv) > 2 else None)
    except ShapeError as e:
        print("ShapeError:", e)
        sys.exit(3)
    print(open(sys.argv[2] if len(sys.argv) > 2 else OUT).read())
