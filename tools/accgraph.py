"""Node graphs for C18: one Python object rendered (i) to GenApi XML for the real code, (ii) to the Gallina
store / state terms of model/Access.v, and (iii) evaluated by an independent Python statement of the property
(`Spec`).  Nodes are numbered; node i may only refer to nodes j < i, so every graph is acyclic.

A node is a dict:
  kind     Integer IntReg MaskedIntReg IntConverter IntSwissKnife Float FloatReg Converter SwissKnife
           String StringReg Boolean Command Enumeration Register
  imposed  None | RO | WO | RW           (<ImposedAccessMode>, default RW)
  access   None | RO | WO | RW           (<AccessMode> of register kinds, default RO)
  impl, avail, lock   None | node number (<pIsImplemented>, <pIsAvailable>, <pIsLocked>)
  value    ("slot", v) | ("node", m)                               Boolean Command Enumeration String
           ("slot", v) | ("pvalue", p, [copies]) | ("pindex", idx, [(i, ("slot", v) | ("node", m)), ...], dflt)
                                                                     Integer Float
  pvalue, vars          converters / swiss knives
  accs                  None | one accessor suffix per variable: "" ".Value" ".Min" ".Max" ".Inc" ".Enum.E0"
                        (<pVariable Name="V0.Max">N3</pVariable>: the variable stands for a sub-property of N3)
  on, off               Boolean
  entries               Enumeration: list of entry values
  formula               swiss knives: "1" (default) or "1 % 0" (integer remainder by zero: evaluation fails, InvalidData)
  mapped, init          register kinds: address inside the device memory?  initial decoded content
"""
import struct

import xmlrender as X
from vplib import xhex

INT_KINDS = ("Integer", "IntReg", "MaskedIntReg", "IntConverter", "IntSwissKnife")
FLOAT_KINDS = ("Float", "FloatReg", "Converter", "SwissKnife")
STRING_KINDS = ("String", "StringReg")
REG_KINDS = ("IntReg", "MaskedIntReg", "FloatReg", "StringReg", "Register")
NUMERIC = INT_KINDS + FLOAT_KINDS + ("Enumeration",)
VARKINDS = NUMERIC + ("Boolean",)
ACCESSORS = ("", ".Value", ".Min", ".Max", ".Inc", ".Enum.E0")
ALL_KINDS = INT_KINDS + FLOAT_KINDS + STRING_KINDS + ("Boolean", "Command", "Enumeration", "Register")

BASE = 0x1000
REG_LEN = {"IntReg": 4, "MaskedIntReg": 4, "FloatReg": 8, "StringReg": 4, "Register": 4}


def node(kind, **kw):
    d = dict(kind=kind, imposed=None, access=None, impl=None, avail=None, lock=None, value=None, pvalue=None,
             vars=[], accs=None, on=1, off=0, entries=[0, 1, 2, 3], mapped=True, init=0)
    d.update(kw)
    return d


# ------------------------------------------------------------------ XML ----
def nm(i):
    return "N%d" % i


def base_xml(n):
    s = ""
    for tag, k in (("pIsImplemented", "impl"), ("pIsAvailable", "avail"), ("pIsLocked", "lock")):
        if n[k] is not None:
            s += X.el(tag, nm(n[k]))
    if n["imposed"]:
        s += X.el("ImposedAccessMode", n["imposed"])
    return s


def iop_xml(v, tag_imm, tag_node, **attrs):
    if v[0] == "slot":
        return X.el(tag_imm, v[1], **attrs)
    return X.el(tag_node, nm(v[1]), **attrs)


def vsrc_xml(v):
    if v[0] in ("slot", "node"):
        return iop_xml(v, "Value", "pValue")
    if v[0] == "pvalue":
        cs = v[2]
        h = len(cs) // 2
        return ("".join(X.el("pValueCopy", nm(c)) for c in cs[:h]) + X.el("pValue", nm(v[1]))
                + "".join(X.el("pValueCopy", nm(c)) for c in cs[h:]))
    s = X.el("pIndex", nm(v[1]))
    for i, e in v[2]:
        s += iop_xml(e, "ValueIndexed", "pValueIndexed", Index=i)
    return s + iop_xml(v[3], "ValueDefault", "pValueDefault")


def addr_of(g, i):
    """every register node owns 8 bytes; unmapped ones lie beyond the device memory"""
    n = g[i]
    return BASE + 8 * i if n["mapped"] else BASE + 8 * len(g) + 0x100 + 8 * i


def var_xml(n):
    accs = n.get("accs") or [""] * len(n["vars"])
    return "".join(X.el("pVariable", nm(v), Name="V%d%s" % (j, accs[j])) for j, v in enumerate(n["vars"]))


def node_xml(g, i):
    n = g[i]
    k = n["kind"]
    s = base_xml(n)
    if k in ("Integer", "Float"):
        s += vsrc_xml(n["value"])
    elif k == "Boolean":
        v = n["value"]
        if v[0] == "slot":
            s += X.el("Value", "true" if v[1] == n["on"] else "false")
        else:
            s += X.el("pValue", nm(v[1]))
        s += X.el("OnValue", n["on"]) + X.el("OffValue", n["off"])
    elif k == "Command":
        s += iop_xml(n["value"], "Value", "pValue") + X.el("CommandValue", 1)
    elif k == "Enumeration":
        for j, ev in enumerate(n["entries"]):
            s += '<EnumEntry Name="E%d">%s</EnumEntry>' % (j, X.el("Value", ev))
        s += iop_xml(n["value"], "Value", "pValue")
    elif k == "String":
        v = n["value"]
        s += X.el("Value", "s%d" % v[1]) if v[0] == "slot" else X.el("pValue", nm(v[1]))
    elif k in ("IntConverter", "Converter"):
        s += var_xml(n)
        s += X.el("FormulaTo", "FROM") + X.el("FormulaFrom", "TO") + X.el("pValue", nm(n["pvalue"]))
    elif k in ("IntSwissKnife", "SwissKnife"):
        s += var_xml(n)
        s += X.el("Formula", n.get("formula") or "1")
    elif k == "MaskedIntReg" and n.get("struct") is not None:
        # the same feature written as the single <StructEntry> of a <StructReg>: bit j of n["struct"] says that the
        # j-th mergeable element (pIsImplemented, pIsAvailable, pIsLocked, ImposedAccessMode, AccessMode) is declared
        # on the StructReg and inherited by the entry; otherwise the entry declares it itself
        lv = n["struct"]
        top = ent = ""
        for j, (tag, key) in enumerate((("pIsImplemented", "impl"), ("pIsAvailable", "avail"), ("pIsLocked", "lock"))):
            if n[key] is not None:
                x = X.el(tag, nm(n[key]))
                if lv >> j & 1:
                    top += x
                else:
                    ent += x
        if n["imposed"]:
            if lv >> 3 & 1:
                top += X.el("ImposedAccessMode", n["imposed"])
            else:
                ent += X.el("ImposedAccessMode", n["imposed"])
        top += X.el("Address", addr_of(g, i)) + X.el("Length", REG_LEN[k])
        if n["access"]:
            if lv >> 4 & 1:
                top += X.el("AccessMode", n["access"])
            else:
                ent += X.el("AccessMode", n["access"])
        top += X.el("pPort", "Device") + X.el("Cachable", n.get("cachable", "NoCache")) + X.el("Endianess", "LittleEndian")
        ent += X.el("LSB", 0) + X.el("MSB", 7) + X.el("Sign", "Unsigned")
        return '<StructReg Comment="c%d">%s<StructEntry Name="%s">%s</StructEntry></StructReg>' % (i, top, nm(i), ent)
    elif k in REG_KINDS:
        s += X.el("Address", addr_of(g, i)) + X.el("Length", REG_LEN[k])
        if n["access"]:
            s += X.el("AccessMode", n["access"])
        s += X.el("pPort", "Device") + X.el("Cachable", n.get("cachable", "NoCache"))
        if k == "MaskedIntReg":
            s += X.el("LSB", 0) + X.el("MSB", 7)
        if k in ("IntReg", "MaskedIntReg"):
            s += X.el("Sign", "Unsigned")
        if k in ("IntReg", "MaskedIntReg", "FloatReg"):
            s += X.el("Endianess", "LittleEndian")
    else:
        raise ValueError(k)
    return '<%s Name="%s">%s</%s>' % (k, nm(i), s, k)


def image(g):
    img = bytearray(8 * len(g))
    for i, n in enumerate(g):
        if n["kind"] in REG_KINDS and n["mapped"]:
            if n["kind"] == "FloatReg":
                img[8 * i:8 * i + 8] = struct.pack("<d", float(n["init"]))
            else:
                img[8 * i:8 * i + 4] = struct.pack("<I", n["init"])
    return bytes(img)


def rust_line(g, ops, flags=1):
    xml = X.document([node_xml(g, i) for i in range(len(g))])
    return "a %d %s %d %s %d %s" % (flags, xhex(xml.encode()), BASE, xhex(image(g)), len(g),
                                    " ".join(op_tok(o) for o in ops))


def op_tok(o):
    if o[0] in ("cc", "nop"):
        return o[0]
    return "%s:%s:%d" % (o[0], nm(o[1]), o[2])


# --------------------------------------------------------------- Gallina ----
KCON = {k: "K" + k for k in ALL_KINDS}


def g_iop(v, slot):
    return "ISlot %d" % slot if v[0] == "slot" else "INode %d" % v[1]


def g_vsrc(n):
    v = n["value"]
    if v is None:
        return "(VOne (IImm 0))"
    if v[0] in ("slot", "node"):
        return "(VOne (%s))" % g_iop(v, 0)
    if v[0] == "pvalue":
        return "(VPValue %d (nl [%s]))" % (v[1], "; ".join(str(c) for c in v[2]))
    es = "; ".join("(%s, %s)" % (zl(i), g_iop(e, j + 1)) for j, (i, e) in enumerate(v[2]))
    return "(VPIndex %d [%s] (%s))" % (v[1], es, g_iop(v[3], len(v[2]) + 1))


def zl(x):
    return "(%d)" % x if x < 0 else "%d" % x


def g_opt(x):
    return "None" if x is None else "(sm %d)" % x


def g_node(n):
    return "N %s %s %s %s %s %s %s %d (nl [%s]) %s %s" % (
        KCON[n["kind"]], n["imposed"] or "RW", n["access"] or "RO", g_opt(n["impl"]), g_opt(n["avail"]),
        g_opt(n["lock"]), g_vsrc(n), n["pvalue"] or 0, "; ".join(str(v) for v in n["vars"]), zl(n["on"]), zl(n["off"]))


def g_store(g):
    return "[" + ";\n   ".join(g_node(n) for n in g) + "]"


def g_state(st):
    """st: dict (n, k) -> int | None (device error)"""
    def oc(v):
        if v is None:
            return "Err 30"
        if isinstance(v, tuple):
            return "Err %d" % v[1]
        return "Ok %s" % zl(v)
    items = ["E %d %d (%s)" % (n, k, oc(v)) for (n, k), v in sorted(st.items())]
    return "[" + "; ".join(items) + "]"


def model_term(g, states, cfg="fixed_cfg"):
    return "run_acc %s\n  %s\n  [%s]" % (cfg, g_store(g), ";\n   ".join(g_state(s) for s in states))


# ------------------------------------------------ history simulation --------
class Unsupported(Exception):
    """the generator's simulation of set_value does not cover this situation"""


class EvalError(Exception):
    def __init__(self, cls):
        self.cls = cls


def initial_state(g):
    st = {}
    for i, n in enumerate(g):
        k = n["kind"]
        if k in REG_KINDS:
            st[(i, 0)] = n["init"] if n["mapped"] else None
        elif k in ("IntConverter", "IntSwissKnife", "Converter", "SwissKnife"):
            st[(i, 0)] = 1
        else:
            v = n["value"]
            if v[0] == "slot":
                st[(i, 0)] = v[1]
            elif v[0] == "pindex":
                for j, (_, e) in enumerate(v[2]):
                    if e[0] == "slot":
                        st[(i, j + 1)] = e[1]
                if v[3][0] == "slot":
                    st[(i, len(v[2]) + 1)] = v[3][1]
    return st


class Sim:
    """What the current values are, and what set_value does to them (generator side; written from the GenApi
    semantics of value propagation, used only to know the state in which the verdicts are asked)."""

    def __init__(self, g, st):
        self.g, self.st = g, st

    def leaf(self, n, k):
        v = self.st[(n, k)]
        if v is None:
            raise EvalError(30)
        if isinstance(v, tuple):
            raise EvalError(v[1])
        return v

    def iop(self, n, e, slot):
        return self.leaf(n, slot) if e[0] == "slot" else self.num(e[1])

    def select(self, n):
        v = self.g[n]["value"]
        if self.g[v[1]]["kind"] not in INT_KINDS:
            raise EvalError(32)
        i = self.num(v[1])
        for j, (ix, e) in enumerate(v[2]):
            if ix == i:
                return e, j + 1
        return v[3], len(v[2]) + 1

    def num(self, n):
        """numeric value of a node (integer / float / enumeration kinds)"""
        if n >= len(self.g):
            raise EvalError(32)      # a reference to a node that does not exist
        nd = self.g[n]
        k = nd["kind"]
        if k in ("Integer", "Float", "Enumeration"):
            v = nd["value"]
            if v[0] in ("slot", "node"):
                return self.iop(n, v, 0)
            if v[0] == "pvalue":
                return self.num(v[1])
            e, slot = self.select(n)
            return self.iop(n, e, slot)
        if k in ("IntReg", "MaskedIntReg", "FloatReg"):
            return self.leaf(n, 0)
        if k in ("IntSwissKnife", "SwissKnife"):
            if any(a not in ("", ".Value") for a in (nd.get("accs") or [])):
                raise Unsupported()          # Min / Max / Inc / Enum of the variables are not simulated
            for m in nd["vars"]:             # the formula is a constant, but every variable is collected first
                self.var_value(m)
            if nd.get("formula") == "1 % 0":
                raise EvalError(33)          # integer remainder by zero
            return 1
        if k in ("IntConverter", "Converter"):
            raise Unsupported()              # formulas over pValue: not simulated
        raise EvalError(32)

    def var_value(self, m):
        k = self.g[m]["kind"]
        if k in INT_KINDS or k in FLOAT_KINDS:
            return self.num(m)
        if k == "Boolean":
            return 1 if self.boolean(m) else 0
        if k == "Enumeration":
            v = self.num(m)
            if v not in self.g[m]["entries"]:
                raise EvalError(32)
            return v
        raise EvalError(32)

    def snapshot(self):
        """the state as the model takes it: slots and registers, plus the current formula result of swiss knives"""
        st = dict(self.st)
        for i, nd in enumerate(self.g):
            if nd["kind"] in ("IntSwissKnife", "SwissKnife"):
                try:
                    st[(i, 0)] = self.num(i)
                except EvalError as e:
                    st[(i, 0)] = ("err", e.cls)
                except Unsupported:
                    st[(i, 0)] = 1           # never consulted: the case is dropped when such a value is needed
        return st

    def boolean(self, n):
        nd = self.g[n]
        raw = self.iop(n, nd["value"], 0)
        if raw == nd["on"]:
            return True
        if raw == nd["off"]:
            return False
        raise EvalError(32)

    def truth(self, n):
        if n >= len(self.g):
            raise EvalError(32)
        k = self.g[n]["kind"]
        if k == "Boolean":
            return self.boolean(n)
        if k in INT_KINDS:
            return self.num(n) == 1
        raise EvalError(32)

    # --- writes
    def set_iop(self, n, e, slot, v):
        if e[0] == "slot":
            self.st[(n, slot)] = v
        else:
            self.set_num(e[1], v)

    def set_num(self, n, v):
        nd = self.g[n]
        k = nd["kind"]
        if k == "Enumeration":
            if v not in nd["entries"]:
                raise EvalError(33)
            self.set_iop(n, nd["value"], 0, v)
        elif k in ("Integer", "Float"):
            val = nd["value"]
            if val[0] == "slot":
                self.st[(n, 0)] = v
            elif val[0] == "pvalue":
                self.set_num(val[1], v)
                for c in val[2]:
                    self.set_num(c, v)
            else:
                e, slot = self.select(n)
                self.set_iop(n, e, slot, v)
        elif k in ("IntReg", "MaskedIntReg", "FloatReg"):
            if self.st[(n, 0)] is None:
                raise EvalError(30)
            if not 0 <= v < 256:
                raise Unsupported()
            self.st[(n, 0)] = v
        elif k in ("IntSwissKnife", "SwissKnife"):
            raise EvalError(31)
        elif k in NUMERIC:
            raise Unsupported()      # converters: formulas are not simulated
        else:
            raise EvalError(31)      # NodeId::set_value: not writable

    def apply(self, op):
        """-> result code of the operation as the harness prints it"""
        try:
            if op[0] in ("cc", "nop"):
                return 0
            n, v = op[1], op[2]
            k = self.g[n]["kind"]
            if op[0] == "s":
                if k not in INT_KINDS:
                    return 190
                self.set_num(n, v)
            elif op[0] == "fs":
                if k not in FLOAT_KINDS:
                    return 190
                self.set_num(n, v)
            elif op[0] == "sev":
                if k != "Enumeration":
                    return 190
                self.set_num(n, v)
            elif op[0] == "bs":
                if k != "Boolean":
                    return 190
                nd = self.g[n]
                self.set_iop(n, nd["value"], 0, nd["on"] if v else nd["off"])
            return 0
        except EvalError as e:
            return 100 + e.cls


# ------------------------------------------ the property, independently -----
class Spec:
    """Readable / Writable of every node from the property text, in the state given by a Sim.
    verdict -> True | False | None (None: the property does not say; a controlling or index node
    cannot be evaluated, or a reference has a kind that cannot stand there)."""

    def __init__(self, g, sim):
        self.g, self.sim = g, sim
        self.rc, self.wc = {}, {}

    def ctl(self, ref, dflt):
        if ref is None:
            return dflt
        return self.sim.truth(ref)

    # --- "the first controlling node that fails to evaluate, in the order pIsImplemented, pIsAvailable,
    #      pIsLocked, makes the query fail with that error; nothing after a 'no' is consulted"
    def base_outcome(self, n, write):
        """-> ("err", cls) | False | True  (True: the base conditions hold, the rest of the node decides)"""
        nd = self.g[n]
        order = [("impl", True), ("avail", True)] + ([("lock", False)] if write else [])
        for ref, want in order:
            if nd[ref] is None:
                continue
            try:
                if self.sim.truth(nd[ref]) != want:
                    return False
            except EvalError as e:
                return ("err", e.cls)
        if write:
            return nd["imposed"] != "RO"
        return nd["imposed"] != "WO"

    # --- the complete answer (values AND failures), from the evaluation order of the property's conjuncts:
    #      implemented, available, [not locked], imposed mode, then what the value is drawn from / written to, THROUGH
    #      pValue / pValueCopy / indexed entries / converter pValue / formula variables.  `a && b`: b only when a said
    #      yes; a list of targets / variables: all are asked in order, the first failure wins.
    #      Codes as the harness prints them: 0 no, 1 yes, 100 + class failure, 190 the kind has no such query.
    def kd(self, m):
        return self.g[m]["kind"] if m < len(self.g) else "Other"

    @staticmethod
    def seq(a, rest):
        return rest() if a == 1 else a

    @staticmethod
    def amp(answers):
        for a in answers:
            if a >= 100:
                return a
        return 1 if all(a == 1 for a in answers) else 0

    def ctl_code(self, ref, dflt):
        if ref is None:
            return 1 if dflt else 0
        try:
            return 1 if self.sim.truth(ref) else 0
        except EvalError as e:
            return 100 + e.cls

    def base_code(self, nd, write):
        def locked():
            c = self.ctl_code(nd["lock"], False)
            return c if c >= 100 else 1 - c
        mode = (nd["imposed"] != "RO") if write else (nd["imposed"] != "WO")
        tail = lambda: 1 if mode else 0
        if write:
            tail2 = lambda: self.seq(locked(), tail)
        else:
            tail2 = tail
        return self.seq(self.ctl_code(nd["impl"], True), lambda: self.seq(self.ctl_code(nd["avail"], True), tail2))

    def answer(self, n, write):
        key = (n, write)
        if not hasattr(self, "ac"):
            self.ac = {}
        if key not in self.ac:
            self.ac[key] = self._answer(n, write)
        return self.ac[key]

    def num_ans(self, m, write):
        return self.answer(m, write) if self.kd(m) in NUMERIC else 0

    def iop_ans(self, e, write):
        return 1 if e[0] == "slot" else self.num_ans(e[1], write)

    def var_ans(self, m, write):
        return self.answer(m, write) if self.kd(m) in VARKINDS else 132

    def _answer(self, n, write):
        if n >= len(self.g):
            return 190
        nd = self.g[n]
        k, v = nd["kind"], nd["value"]
        if k == "Register" or (k == "Command" and not write):
            return 190
        if write and k in ("IntSwissKnife", "SwissKnife"):
            return 0
        base = self.base_code(nd, write)
        if k in REG_KINDS:
            acc = nd["access"] or "RO"
            return self.seq(base, lambda: 1 if (acc != "RO" if write else acc != "WO") else 0)
        if k in ("Integer", "Float"):
            if v[0] in ("slot", "node"):
                return self.seq(base, lambda: self.iop_ans(v, write))
            if v[0] == "pvalue":
                if write:
                    return self.seq(base, lambda: self.amp([self.num_ans(m, True) for m in [v[1]] + list(v[2])]))
                return self.seq(base, lambda: self.num_ans(v[1], False))

            def indexed():
                if self.kd(v[1]) not in INT_KINDS:
                    return 132

                def entry():
                    try:
                        i = self.sim.num(v[1])
                    except EvalError as e:
                        return 100 + e.cls
                    for ix, e in v[2]:
                        if ix == i:
                            return self.iop_ans(e, write)
                    return self.iop_ans(v[3], write)
                return self.seq(self.answer(v[1], False), entry)      # the index must be READABLE for both queries
            return self.seq(base, indexed)
        if k in ("Boolean", "Enumeration", "Command"):
            return self.seq(base, lambda: self.iop_ans(v, write))
        if k == "String":
            if v[0] == "slot":
                return self.seq(base, lambda: 1)
            return self.seq(base, lambda: self.answer(v[1], write) if self.kd(v[1]) in STRING_KINDS else 132)
        if k in ("IntConverter", "Converter"):
            return self.seq(base, lambda: self.seq(self.var_ans(nd["pvalue"], write),
                                                   lambda: self.amp([self.var_ans(m, False) for m in nd["vars"]])))
        if k in ("IntSwissKnife", "SwissKnife"):
            return self.seq(base, lambda: self.amp([self.var_ans(m, False) for m in nd["vars"]]))
        raise ValueError(k)

    # --- "every controlling node and value source reachable from n evaluates, references are well-kinded"
    def node_refs(self, n):
        nd = self.g[n]
        out = [nd[k] for k in ("impl", "avail", "lock") if nd[k] is not None]
        k, v = nd["kind"], nd["value"]
        if k in ("Integer", "Float", "Boolean", "Enumeration", "Command", "String") and v:
            if v[0] == "node":
                out.append(v[1])
            elif v[0] == "pvalue":
                out += [v[1]] + list(v[2])
            elif v[0] == "pindex":
                out += [v[1]] + [e[1] for _, e in v[2] if e[0] == "node"] + ([v[3][1]] if v[3][0] == "node" else [])
        elif k in ("IntConverter", "Converter"):
            out += [nd["pvalue"]] + list(nd["vars"])
        elif k in ("IntSwissKnife", "SwissKnife"):
            out += list(nd["vars"])
        return out

    def node_ok(self, n):
        nd = self.g[n]
        k, v = nd["kind"], nd["value"]
        kd = lambda m: self.g[m]["kind"]
        if k == "Register":
            return False
        try:
            for ref in ("impl", "avail", "lock"):
                if nd[ref] is not None:
                    self.sim.truth(nd[ref])
            if k in ("Integer", "Float"):
                if v[0] == "pvalue":
                    return all(kd(m) in NUMERIC for m in [v[1]] + list(v[2]))
                if v[0] == "pindex":
                    if kd(v[1]) not in INT_KINDS:
                        return False
                    self.sim.num(v[1])
                    return all(kd(e[1]) in NUMERIC for e in [x for _, x in v[2]] + [v[3]] if e[0] == "node")
                return v[0] == "slot" or kd(v[1]) in NUMERIC
            if k in ("Boolean", "Enumeration", "Command"):
                return v[0] == "slot" or kd(v[1]) in NUMERIC
            if k == "String":
                return v[0] == "slot" or kd(v[1]) in STRING_KINDS
            if k in ("IntConverter", "Converter"):
                return all(kd(m) in VARKINDS for m in [nd["pvalue"]] + list(nd["vars"]))
            if k in ("IntSwissKnife", "SwissKnife"):
                return all(kd(m) in VARKINDS for m in nd["vars"])
            return True
        except EvalError:
            return False

    def evaluable(self, n):
        if not hasattr(self, "ec"):
            self.ec = {}
        if n >= len(self.g):
            return False
        if n not in self.ec:
            self.ec[n] = self.node_ok(n) and all(self.evaluable(m) for m in self.node_refs(n))
        return self.ec[n]

    def readable(self, n):
        if n not in self.rc:
            try:
                self.rc[n] = self._readable(n)
            except EvalError:
                self.rc[n] = None
        return self.rc[n]

    def writable(self, n):
        if n not in self.wc:
            try:
                self.wc[n] = self._writable(n)
            except EvalError:
                self.wc[n] = None
        return self.wc[n]

    @staticmethod
    def conj(*xs):
        """three-valued: a definite False decides; otherwise any unknown makes it unknown"""
        if any(x is False for x in xs):
            return False
        if any(x is None for x in xs):
            return None
        return True

    def src_r(self, e):
        """an immediate is readable; a node supplies a number only if it is of a numeric kind"""
        if e[0] == "slot":
            return True
        if self.kd(e[1]) not in NUMERIC:
            return False
        return self.readable(e[1])

    def src_w(self, e):
        if e[0] == "slot":
            return True          # a value held by the description itself is a variable, not a constant
        if self.kd(e[1]) not in NUMERIC:
            return False
        return self.writable(e[1])

    def var_r(self, m):
        if self.g[m]["kind"] not in VARKINDS:
            raise EvalError(32)
        return self.readable(m)

    def _readable(self, n):
        nd = self.g[n]
        k = nd["kind"]
        if k in ("Command", "Register"):
            return None
        if not self.ctl(nd["impl"], True):
            return False
        if not self.ctl(nd["avail"], True):
            return False
        if nd["imposed"] == "WO":
            return False
        if k in REG_KINDS:
            return (nd["access"] or "RO") != "WO"
        if k in ("Integer", "Float"):
            v = nd["value"]
            if v[0] in ("slot", "node"):
                return self.src_r(v)
            if v[0] == "pvalue":
                return self.src_r(("node", v[1]))
            if self.g[v[1]]["kind"] not in INT_KINDS:
                raise EvalError(32)
            ir = self.readable(v[1])
            if ir is not True:
                return ir
            e, _ = self.sim.select(n)
            return self.src_r(e)
        if k in ("Boolean", "Enumeration"):
            return self.src_r(nd["value"])
        if k == "String":
            v = nd["value"]
            if v[0] == "slot":
                return True
            if self.g[v[1]]["kind"] not in STRING_KINDS:
                raise EvalError(32)
            return self.readable(v[1])
        if k in ("IntConverter", "Converter"):
            return self.conj(self.var_r(nd["pvalue"]), *[self.var_r(m) for m in nd["vars"]])
        if k in ("IntSwissKnife", "SwissKnife"):
            return self.conj(*[self.var_r(m) for m in nd["vars"]])
        raise ValueError(k)

    def _writable(self, n):
        nd = self.g[n]
        k = nd["kind"]
        if k == "Register":
            return None
        if k in ("IntSwissKnife", "SwissKnife"):
            return False
        if not self.ctl(nd["impl"], True):
            return False
        if not self.ctl(nd["avail"], True):
            return False
        if self.ctl(nd["lock"], False):
            return False
        if nd["imposed"] == "RO":
            return False
        if k in REG_KINDS:
            return (nd["access"] or "RO") != "RO"
        if k in ("Integer", "Float"):
            v = nd["value"]
            if v[0] in ("slot", "node"):
                return self.src_w(v)
            if v[0] == "pvalue":
                return self.conj(*[self.src_w(("node", m)) for m in [v[1]] + list(v[2])])
            if self.g[v[1]]["kind"] not in INT_KINDS:
                raise EvalError(32)
            ir = self.readable(v[1])
            if ir is not True:
                return ir
            e, _ = self.sim.select(n)
            return self.src_w(e)
        if k in ("Boolean", "Enumeration", "Command"):
            return self.src_w(nd["value"])
        if k == "String":
            v = nd["value"]
            if v[0] == "slot":
                return True
            if self.g[v[1]]["kind"] not in STRING_KINDS:
                raise EvalError(32)
            return self.writable(v[1])
        if k in ("IntConverter", "Converter"):
            if self.g[nd["pvalue"]]["kind"] not in VARKINDS:
                raise EvalError(32)
            return self.conj(self.writable(nd["pvalue"]), *[self.var_r(m) for m in nd["vars"]])
        raise ValueError(k)
