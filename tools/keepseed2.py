#!/usr/bin/env python3
"""tools/keepseed2.py <seed_dir> <id> <property> <try_log> <confirm_logs...>
Copy a confirmed seeded change into /verif/seeded/<id>/ with meta.json (what it breaks, what it needs, what was run)."""
import json, os, re, shutil, sys
src, sid, prop, trylog = sys.argv[1:5]
conf = {}
for cl in sys.argv[5:]:
    if os.path.exists(cl):
        for l in open(cl):
            l = l.strip()
            if l.startswith("{"):
                try:
                    r = json.loads(l); conf[r["id"]] = r
                except Exception:
                    pass
log = open(trylog).read() if os.path.exists(trylog) else ""
checks = re.findall(r"RESULT \S+ (C\d+) rc=(\d+)", log)
why = [l.strip() for l in log.splitlines() if re.match(r"\s+\[C\d+\]", l)][:3]
summ = [l.strip() for l in log.splitlines() if "tier=quick" in l]
viol = [l for l in log.splitlines() if l.startswith("VIOLATION")]
nofail = bool(viol) and all("no-failing-input-found" in l for l in viol)
dst = os.path.join("/verif/seeded", sid)
os.makedirs(dst, exist_ok=True)
for f in os.listdir(src):
    p = os.path.join(src, f)
    if os.path.isdir(p):
        if f in ("harness", "c15demo") and sum(len(fs) for _, _, fs in os.walk(p)) < 40:
            shutil.copytree(p, os.path.join(dst, f), dirs_exist_ok=True)
        continue
    if f.endswith(".log") or os.path.getsize(p) > 300000:
        continue
    shutil.copy(p, dst)
notes = open(os.path.join(src, "notes.txt")).read() if os.path.exists(os.path.join(src, "notes.txt")) else ""
c = conf.get(sid, {})
caught = [k for k, rc in checks if rc == "1"]
meta = {"id": sid, "breaks_property": prop,
        "origin": "independent sub-agent given only the property text and a scratch worktree of /repo (nothing from /verif)",
        "needs_to_manifest": re.sub(r"\s+", " ", notes)[:700],
        "confirmed": ("in a scratch worktree of /repo at %s: demonstration %s without the change and %s with it; existing suite with "
                      "the change: %s (%s result lines, none failed); patch applies with git apply"
                      % (str(c.get("base", "?"))[:7], c.get("demo_without"), c.get("demo_with"), c.get("suite_with"), c.get("suite_lines"))) if c else "see agent_notes (the sub-agent's four runs)",
        "ran": "tools/tryseed2.sh seeded/%s/patch.diff <name> %s  (sandbox copy of /repo + /verif, ./check quick)" % (sid, " ".join(k for k, _ in checks) or prop),
        "caught_by": ("; ".join("./check %s quick -> VIOLATION" % k for k in caught) + (" (no-failing-input-found)" if nofail else " with a failing input") + ": " + " | ".join(why)[:500]) if caught else "NOT CAUGHT by: " + " ".join(k for k, _ in checks),
        "check_summary": summ[-1] if summ else "",
        "agent_notes": notes[:2500]}
json.dump(meta, open(os.path.join(dst, "meta.json"), "w"), indent=1)
print(sid, "->", meta["caught_by"][:160])
