#!/usr/bin/env python3
"""Regenerates coq/theories/gen/ProtoTables.v from the table-shaped parts of the U3V protocol codecs of /repo
(device/src/u3v/protocol/{ack,cmd,event,stream}.rs): magic numbers, command / acknowledge ids, flag bits, the GenCP
and USB status tables, payload type and payload status tables.  proofs/P_Tables.v proves that the hand-written models
(model/Ack.v, Cmd.v, Event.v, Stream.v) use exactly these tables - for every code, not a sample - so a change of one
of these constants in the source breaks a proof obligation of C08 / C09 / C11 on the next run.

Enum variants are numbered by NAME with the fixed convention of the harness rust/h_proto (NUMBERING below; an unknown or
missing variant name is a ShapeError).  Only the shapes listed below are accepted; anything else raises ShapeError (exit 3): the source no longer has the table shape."""
import os
import re
import sys

VERIF = os.path.dirname(os.path.dirname(os.path.abspath(__file__)))


class ShapeError(Exception):
    pass


def strip_comments(s):
    s = re.sub(r"/\*.*?\*/", "", s, flags=re.S)
    return re.sub(r"//[^\n]*", "", s)


def num(t):
    t = t.strip().replace("_", "")
    m = re.fullmatch(r"(0x[0-9A-Fa-f]+|\d+)(?:u8|u16|u32|u64|i32|usize)?", t)
    if m:
        return int(m.group(1), 0)
    m = re.fullmatch(r"1\s*<<\s*(\d+)", t)
    if m:
        return 1 << int(m.group(1))
    raise ShapeError("not a numeric literal: %r" % t)


NUMBERING = {
    "GenCpStatus": ["Success", "NotImplemented", "InvalidParameter", "InvalidAddress", "WriteProtect", "BadAlignment",
                    "AccessDenied", "Busy", "Timeout", "InvalidHeader", "WrongConfig", "GenericError"],
    "UsbSpecificStatus": ["ResendNotSupported", "StreamEndpointHalted", "PayloadSizeNotAligned", "InvalidSiState",
                          "EventEndpointHalted"],
    "ack::ScdKind": ["ReadMem", "WriteMem", "ReadMemStacked", "WriteMemStacked", "Pending"],
    "cmd::ScdKind": ["ReadMem", "WriteMem", "ReadMemStacked", "WriteMemStacked"],
    "CommandFlag": ["RequestAck", "CommandResend"],
    "PayloadType": ["Image", "ImageExtendedChunk", "Chunk"],
    "PayloadStatus": ["Success", "DataDiscarded", "DataOverrun"],
}


def enum_variants(src, name, key=None):
    idx, vs = enum_variants_decl(src, name)
    want = NUMBERING[key or name]
    if sorted(vs) != sorted(want):
        raise ShapeError("enum %s has variants %r, the numbering convention knows %r" % (name, vs, want))
    return {v: i for i, v in enumerate(want)}, want


def enum_variants_decl(src, name):
    m = re.search(r"pub enum %s\s*\{(.*?)\n\}" % re.escape(name), src, flags=re.S)
    if not m:
        raise ShapeError("enum %s not found" % name)
    body = re.sub(r"#\[[^\]]*\]", "", m.group(1))
    vs = [v.strip() for v in body.split(",") if v.strip()]
    for v in vs:
        if not re.fullmatch(r"[A-Za-z_][A-Za-z0-9_]*", v):
            raise ShapeError("enum %s: unexpected variant syntax %r" % (name, v))
    return {v: i for i, v in enumerate(vs)}, vs


def const(src, name):
    m = re.search(r"const %s\s*:\s*\w+\s*=\s*([^;]+);" % re.escape(name), src)
    if not m:
        raise ShapeError("const %s not found" % name)
    return num(m.group(1))


def fn_body(src, header_re, containing=None):
    """body of the first function whose header matches (the regex ends with the opening brace) and, optionally,
    whose body contains the given text"""
    for m in re.finditer(header_re, src):
        i = m.end() - 1
        if src[i] != "{":
            raise ShapeError("header regex must end at the opening brace: %r" % header_re)
        depth, j = 0, i
        while j < len(src):
            if src[j] == "{":
                depth += 1
            elif src[j] == "}":
                depth -= 1
                if depth == 0:
                    break
            j += 1
        else:
            raise ShapeError("unbalanced braces after %r" % header_re)
        body = src[i + 1:j]
        if containing is None or containing in body:
            return body
    raise ShapeError("function %r not found" % header_re)


def first_match(body):
    m = re.search(r"match\s+[\w.()]+\s*\{", body)
    if not m:
        raise ShapeError("no match expression")
    i, depth, j = m.end() - 1, 0, m.end() - 1
    while j < len(body):
        if body[j] == "{":
            depth += 1
        elif body[j] == "}":
            depth -= 1
            if depth == 0:
                return body[i + 1:j]
        j += 1
    raise ShapeError("unbalanced match")


def arms_code_to_variant(mbody, variants, wrap):
    """arms `0x.. => [Ok(][Enum::]Variant[)],` then exactly one catch-all arm.  -> [(code, variant index)]"""
    out, rest = [], mbody
    pat = re.compile(r"\s*(0x[0-9A-Fa-f_]+|\d[\d_]*)\s*=>\s*(?:Ok\()?(?:\w+::)?(\w+)\)?\s*,")
    pos = 0
    while True:
        m = pat.match(rest, pos)
        if not m:
            break
        if m.group(2) not in variants:
            raise ShapeError("unknown variant %s" % m.group(2))
        out.append((num(m.group(1)), variants[m.group(2)]))
        pos = m.end()
    tail = rest[pos:].strip()
    if not re.match(r"(_|[a-z]\w*)\s*=>\s*(\{\s*return\s+)?Err\(", tail):
        raise ShapeError("expected a single catch-all error arm, found %r" % tail[:80])
    if re.search(r"\n\s*(0x[0-9A-Fa-f_]+|\d[\d_]*)\s*=>", tail):
        raise ShapeError("numeric arm after the catch-all / of another shape: %r" % tail[:120])
    if len({c for c, _ in out}) != len(out):
        raise ShapeError("duplicate code in a table")
    return out


def arms_variant_to_num(mbody, variants):
    """arms `Self::Variant => <number>,` covering every variant.  -> [(variant index, number)]"""
    out = []
    for m in re.finditer(r"(?:Self|\w+)::(\w+)\s*=>\s*([^,]+),", mbody):
        if m.group(1) not in variants:
            raise ShapeError("unknown variant %s" % m.group(1))
        out.append((variants[m.group(1)], num(m.group(2))))
    if sorted(i for i, _ in out) != list(range(len(variants))):
        raise ShapeError("variant -> number match does not cover the enum exactly once: %r" % out)
    return sorted(out)


def tables(repo):
    d = os.path.join(repo, "device/src/u3v/protocol")
    ack = strip_comments(open(os.path.join(d, "ack.rs")).read().split("#[cfg(test)]")[0])
    cmd = strip_comments(open(os.path.join(d, "cmd.rs")).read().split("#[cfg(test)]")[0])
    ev = strip_comments(open(os.path.join(d, "event.rs")).read().split("#[cfg(test)]")[0])
    st = strip_comments(open(os.path.join(d, "stream.rs")).read().split("#[cfg(test)]")[0])
    t = {}
    t["ack_magic"] = const(ack, "PREFIX_MAGIC")
    gv, _ = enum_variants(ack, "GenCpStatus")
    uv, _ = enum_variants(ack, "UsbSpecificStatus")
    t["gencp_status"] = arms_code_to_variant(first_match(fn_body(ack, r"fn parse_gencp_status\s*\([^)]*\)\s*->\s*Result<Self>\s*\{")), gv, False)
    t["usb_status"] = arms_code_to_variant(first_match(fn_body(ack, r"fn parse_usb_status\s*\([^)]*\)\s*->\s*Result<Self>\s*\{")), uv, False)
    # Status::parse: the namespace is bits 13..14 of the code
    pb = fn_body(ack, r"fn parse\s*\(cursor: &mut Cursor<&\[u8\]>\)\s*->\s*Result<Self>\s*\{", containing="let namespace")
    m = re.search(r"let namespace\s*=\s*\(code >> (\d+)(?:_i32)?\)\s*&\s*(0b[01_]+|0x[0-9a-fA-F_]+|\d+)", pb)
    if not m:
        raise ShapeError("Status::parse: namespace expression not found")
    t["status_ns_shift"] = int(m.group(1))
    t["status_ns_mask"] = int(m.group(2).replace("_", ""), 0)
    ns = re.findall(r"(0b[01]+|\d+)\s*=>\s*(Self::parse_gencp_status|Self::parse_usb_status|Ok\(Self\s*\{)", pb)
    t["status_namespaces"] = [(int(a, 0), {"Self::parse_gencp_status": 0, "Self::parse_usb_status": 1}.get(b, 2)) for a, b in ns]
    if sorted(k for _, k in t["status_namespaces"]) != [0, 1, 2]:
        raise ShapeError("Status::parse: the three namespace arms were not found: %r" % (ns,))
    akv, _ = enum_variants(ack, "ScdKind", "ack::ScdKind")
    t["ack_kind"] = arms_code_to_variant(first_match(fn_body(ack, r"impl ScdKind\s*\{\s*fn parse\s*\([^)]*\)\s*->\s*Result<Self>\s*\{")), akv, True)
    # cmd.rs
    t["cmd_magic"] = const(cmd, "PREFIX_MAGIC")
    ckv, _ = enum_variants(cmd, "ScdKind", "cmd::ScdKind")
    t["cmd_id"] = arms_variant_to_num(first_match(fn_body(cmd, r"impl ScdKind\s*\{\s*fn serialize\s*\([^)]*\)\s*->\s*Result<\(\)>\s*\{")), ckv)
    cfv, _ = enum_variants(cmd, "CommandFlag")
    t["cmd_flag"] = arms_variant_to_num(first_match(fn_body(cmd, r"impl CommandFlag\s*\{\s*fn serialize\s*\([^)]*\)\s*->\s*Result<\(\)>\s*\{")), cfv)
    # event.rs
    t["event_magic"] = const(ev, "PREFIX_MAGIC")
    t["event_command_id"] = const(ev, "EVENT_COMMAND_ID")
    # stream.rs
    t["leader_magic"] = const(st, "LEADER_MAGIC")
    t["trailer_magic"] = const(st, "TRAILER_MAGIC")
    pv, _ = enum_variants(st, "PayloadType")
    sv, _ = enum_variants(st, "PayloadStatus")
    t["payload_type"] = arms_code_to_variant(first_match(fn_body(st, r"impl TryFrom<u16> for PayloadType\s*\{\s*type Error = Error;\s*fn try_from\s*\([^)]*\)\s*->\s*Result<Self>\s*\{")), pv, True)
    t["payload_status"] = arms_code_to_variant(first_match(fn_body(st, r"impl TryFrom<u16> for PayloadStatus\s*\{\s*type Error = Error;\s*fn try_from\s*\([^)]*\)\s*->\s*Result<Self>\s*\{")), sv, True)
    return t


def zl(pairs):
    return "[" + "; ".join("(%d, %d)" % p for p in pairs) + "]"


def render(t):
    out = ["(* GENERATED by tools/translate_proto.py from device/src/u3v/protocol/{ack,cmd,event,stream}.rs - do not edit. *)",
           "From Coq Require Import ZArith List.", "Import ListNotations.", "Open Scope Z_scope.", ""]
    for k in ("ack_magic", "cmd_magic", "event_magic", "event_command_id", "leader_magic", "trailer_magic",
              "status_ns_shift", "status_ns_mask"):
        out.append("Definition src_%s : Z := %d." % (k, t[k]))
    for k in ("gencp_status", "usb_status", "ack_kind", "cmd_id", "cmd_flag", "payload_type", "payload_status",
              "status_namespaces"):
        out.append("Definition src_%s : list (Z * Z) := %s." % (k, zl(t[k])))
    return "\n".join(out) + "\n"


def write_if_changed(path, text):
    if os.path.exists(path) and open(path).read() == text:
        return False
    with open(path, "w") as f:
        f.write(text)
    return True


def regenerate(repo=None):
    repo = repo or os.environ.get("VERIF_REPO", "/repo")
    t = tables(repo)
    return write_if_changed(os.path.join(VERIF, "coq/theories/gen/ProtoTables.v"), render(t)), t


if __name__ == "__main__":
    try:
        ch, t = regenerate()
        print("gen/ProtoTables.v", "rewritten" if ch else "unchanged")
        for k, v in t.items():
            print(" ", k, v)
    except (ShapeError, OSError) as e:
        print("translate_proto: %s" % e)
        sys.exit(3)
