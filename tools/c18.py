"""C18 — readability and writability reflect every access restriction."""
import json
import os
import sys

import accgraph as A
from vplib import Case, Check, Rng

CFG = os.environ.get("C18_CFG", "fixed_cfg")      # pinned_cfg: the model of the code before the two fix: commits


class ACase(Case):
    __slots__ = ("fam",)


def make_case(g, ops, fam, flags=1):
    """Runs the generator-side simulation to know the state after every step; -> ACase or None."""
    sim = A.Sim(g, A.initial_state(g))
    n = len(g)

    def verdicts():
        sp = A.Spec(g, A.Sim(g, dict(sim.st)))
        return [(sp.readable(i), sp.writable(i), sp.evaluable(i), sp.base_outcome(i, False), sp.base_outcome(i, True),
                 sp.answer(i, False), sp.answer(i, True)) for i in range(n)]

    opcodes = []
    try:
        states = [sim.snapshot()]
        specs = [verdicts()]
        for o in ops:
            opcodes.append(sim.apply(o))
            states.append(sim.snapshot())
            specs.append(verdicts())
    except A.Unsupported:
        return None
    blob = json.dumps({"g": g, "ops": ops, "fam": fam, "flags": flags}).encode().hex()
    c = ACase("acc" if flags & 1 else "acc-cached", ["x" + blob],
              meta=dict(g=g, ops=ops, states=states, specs=specs, opcodes=opcodes, impl_ops=None),
              term=A.model_term(g, states, CFG), rline=A.rust_line(g, ops, flags))
    c.fam = fam
    return c


def case_from_blob(tok):
    d = json.loads(bytes.fromhex(tok[1:]).decode())
    g = d["g"]
    for n in g:                      # JSON turned tuples into lists
        n["value"] = tup(n["value"])
    return make_case(g, [tuple(o) for o in d["ops"]], d["fam"], d["flags"])


def tup(v):
    """value descriptions back from JSON (lists) to the tuples the generator uses"""
    if v is None:
        return None
    if v[0] in ("slot", "node"):
        return (v[0], v[1])
    if v[0] == "pvalue":
        return ("pvalue", v[1], list(v[2]))
    return ("pindex", v[1], [(i, tup(e)) for i, e in v[2]], tup(v[3]))


def split_output(c, out):
    """harness output -> (verdict blocks flattened, op result codes) or None"""
    n, k = len(c.meta["g"]), len(c.meta["ops"])
    if out is None or len(out) != 2 * n * (k + 1) + k:
        return None
    ver, ops = list(out[:2 * n]), []
    i = 2 * n
    for _ in range(k):
        ops.append(out[i])
        ver += out[i + 1:i + 1 + 2 * n]
        i += 1 + 2 * n
    return ver, ops


def predicate(c, ver):
    """ver: the verdict blocks of the implementation (op codes are in c.meta['impl_ops'])."""
    m = c.meta
    g, n = m["g"], len(m["g"])
    if ver is None or m["impl_ops"] is None:
        return "harness died / panicked / malformed output"
    if m["impl_ops"] != m["opcodes"]:
        i = [a == b for a, b in zip(m["impl_ops"], m["opcodes"])].index(False)
        return ("history step %d %r answered %d, the value semantics require %d (the state in which the verdicts "
                "are asked is not the intended one)" % (i, m["ops"][i], m["impl_ops"][i], m["opcodes"][i]))
    for si, spec in enumerate(m["specs"]):
        for i in range(n):
            for q, want in ((0, spec[i][0]), (1, spec[i][1])):
                got = ver[2 * n * si + 2 * i + q]
                what = "is_writable" if q else "is_readable"
                if got == 2:
                    return "%s(N%d) panicked after step %d" % (what, i, si)
                if got != spec[i][5 + q] and got != 2:
                    return ("after step %d: %s(N%d: %s) = %d; asking its conditions in order (implemented, available, "
                            "%simposed mode, then every value %s in order: first failure wins) gives %d"
                            % (si, what, i, g[i]["kind"], got, "not locked, " if q else "",
                               "target incl. every pValueCopy" if q else "source", spec[i][5 + q]))
                base = spec[i][3 + q]
                has_query = g[i]["kind"] not in (("Command", "Register") if q == 0 else
                                                 ("Register", "IntSwissKnife", "SwissKnife"))
                if has_query and base is not True:
                    exp = 0 if base is False else 100 + base[1]
                    if got != exp:
                        return ("after step %d: %s(N%d: %s) = %d; its controlling nodes, asked in the order "
                                "pIsImplemented, pIsAvailable%s, decide %d (first failing control / first 'no')"
                                % (si, what, i, g[i]["kind"], got, ", pIsLocked" if q else "", exp))
                if spec[i][2] and got not in (0, 1) and not (q == 0 and g[i]["kind"] == "Command"):
                    return ("after step %d: %s(N%d: %s) fails with code %d although every node it depends on "
                            "evaluates and every reference is well-kinded" % (si, what, i, g[i]["kind"], got))
                if want is None:
                    continue
                if got in (0, 1):
                    if bool(got) != want:
                        return ("after step %d: %s(N%d: %s) = %s, the property requires %s"
                                % (si, what, i, g[i]["kind"], bool(got), want))
                elif want is True:
                    return ("after step %d: %s(N%d: %s) fails with code %d although every restriction is met"
                            % (si, what, i, g[i]["kind"], got))
    return None


def nontrivial(c, ver):
    """some node's verdict changes along the history (the answers track the controls)"""
    if not ver:
        return False
    n = len(c.meta["g"])
    blocks = [tuple(ver[j:j + 2 * n]) for j in range(0, len(ver), 2 * n)]
    return len(set(blocks)) > 1


# ------------------------------------------------------------ generators ----
MODES = (None, "RO", "WO", "RW")


def controls():
    """C0 Integer(slot) C1 IntReg C2 Boolean(slot) C3 IntReg C4 Boolean(pValue->C3, on=2 off=0)
    C5 MaskedIntReg  — all initially 'true' for bool_from_id"""
    return [
        A.node("Integer", value=("slot", 1)),
        A.node("IntReg", access="RW", init=1),
        A.node("Boolean", value=("slot", 1)),
        A.node("IntReg", access="RW", init=2),
        A.node("Boolean", value=("node", 3), on=2, off=0),
        A.node("MaskedIntReg", access="RW", init=1),
    ]


CTL_REFS = (None, 0, 1, 2, 4, 5)
FLIPS = [("s", 0, 0), ("s", 0, 1), ("s", 1, 0), ("s", 1, 1), ("bs", 2, 0), ("bs", 2, 1), ("s", 3, 0), ("s", 3, 2),
         ("s", 5, 0), ("s", 5, 1), ("s", 0, 2), ("bs", 4, 0), ("s", 1, 3), ("s", 0, 1), ("bs", 4, 1), ("s", 1, 1)]


def feature(kind, g, tb=6, **kw):
    """a node of the kind with a well-formed, readable and writable value source among g's nodes tb, tb+1"""
    if kind in ("Integer", "Float"):
        kw.setdefault("value", ("slot", 3))
    elif kind == "Boolean":
        kw.setdefault("value", ("slot", 1))
    elif kind in ("Command", "Enumeration"):
        kw.setdefault("value", ("slot", 0))
    elif kind == "String":
        kw.setdefault("value", ("slot", 0))
    elif kind in ("IntConverter", "Converter"):
        kw.setdefault("pvalue", tb)
        kw.setdefault("vars", [tb + 1])
    elif kind in ("IntSwissKnife", "SwissKnife"):
        kw.setdefault("vars", [tb, tb + 1])
    return A.node(kind, **kw)


def gen_minimal(ck, rng, cases):
    """small graphs first, so that a broken restriction is reported on a graph of 2..4 nodes"""
    kinds = [k for k in A.ALL_KINDS if k != "Register"]
    # the two repaired defects
    add(cases, [A.node("IntReg", access="WO"), A.node("SwissKnife", vars=[0])], [("nop",)], "minimal graphs")
    add(cases, [A.node("Enumeration", value=("slot", 0)), A.node("Integer", value=("pvalue", 0, []))], [("nop",)],
        "minimal graphs")
    for kind in kinds:
        for im in MODES:
            for am in (MODES if kind in A.REG_KINDS else (None,)):
                g = [A.node("IntReg", access="RW", init=5), A.node("Integer", value=("slot", 7))]
                g.append(feature(kind, g, tb=0, imposed=im, access=am))
                add(cases, g, [("nop",)], "minimal graphs")
        for ref in ("impl", "avail", "lock"):
            for ctl in (A.node("Integer", value=("slot", 1)), A.node("IntReg", access="RW", init=1),
                        A.node("Boolean", value=("slot", 1))):
                g = [A.node("IntReg", access="RW", init=5), A.node("Integer", value=("slot", 7)), ctl]
                g.append(feature(kind, g, tb=0, access="RW", **{ref: 2}))
                ops = [("bs", 2, 0), ("bs", 2, 1)] if ctl["kind"] == "Boolean" else [("s", 2, 0), ("s", 2, 1), ("s", 2, 2)]
                add(cases, g, ops, "minimal graphs")
                if kind == "MaskedIntReg":
                    # the same feature as a StructEntry: the restriction declared on the StructReg (inherited) or on
                    # the entry, with a second restriction of another kind at the other level
                    for lv in (0, 31, 1, 2, 4, 27, 29, 30):
                        for other in ("impl", "avail", "lock"):
                            if other == ref:
                                continue
                            g2 = [dict(x) for x in g[:3]] + [A.node("Integer", value=("slot", 1))]
                            g2.append(feature(kind, g2, tb=0, access="RW", struct=lv, **{ref: 2, other: 3}))
                            add(cases, g2, ops + [("s", 3, 0)] + ops + [("s", 3, 1)] + ops, "StructReg entries")
    # formula variables standing for a sub-property of their node (X.Min, X.Max, X.Inc, X.Value, X.Enum.E): the node
    # must be readable whatever the accessor; sources in every access situation, controls flipped
    for kind in ("SwissKnife", "IntSwissKnife", "Converter", "IntConverter"):
        for acc in A.ACCESSORS:
            srcs = [A.node("IntReg", access="WO"), A.node("IntReg", access="RW", imposed="WO"),
                    A.node("Integer", value=("slot", 3), imposed="WO"), A.node("Integer", value=("slot", 3), avail=0),
                    A.node("Integer", value=("slot", 3), impl=0), A.node("IntReg", access="RW", avail=0),
                    A.node("Float", value=("slot", 2), imposed="WO"), A.node("Float", value=("slot", 2), impl=0),
                    A.node("MaskedIntReg", access="WO"), A.node("Enumeration", value=("slot", 0), imposed="WO"),
                    A.node("Enumeration", value=("slot", 0), avail=0), A.node("Boolean", value=("slot", 1), impl=0),
                    A.node("Integer", value=("slot", 3)), A.node("IntReg", access="RO")]
            for src in srcs:
                g = [A.node("Integer", value=("slot", 1)), A.node("IntReg", access="RW", init=5), dict(src)]
                for vs, accs in (([2], [acc]), ([1, 2], ["", acc]), ([2, 1], [acc, ".Max"])):
                    g.append(A.node(kind, pvalue=1, vars=vs, accs=accs))
                add(cases, g, [("s", 0, 0), ("s", 0, 1), ("s", 0, 2), ("s", 0, 1)], "minimal graphs")
    # controlling nodes that fail to evaluate: a reference to a node that does not exist, a register the device
    # refuses to read, a formula with an integer remainder by zero, a Boolean whose raw value is neither on nor
    # off, a node of a kind that cannot control; alone, behind a passing / refusing earlier control (flipped), and
    # two different failures in a row (the first one must be reported)
    def failing(j):
        """nodes to append at position 3.. ; the last one is the failing control ([] = the dangling reference N50)"""
        return [[],
                [A.node("IntReg", access="RW", mapped=False)],
                [A.node("IntSwissKnife", vars=[], formula="1 % 0")],
                [A.node("Boolean", value=("node", 0), on=1, off=0)],       # N0 holds 5: neither on nor off
                [A.node("Float", value=("slot", 1))],                      # a kind that cannot control
                [A.node("IntReg", access="RW", mapped=False), A.node("Integer", value=("pvalue", 3, []))]][j]
    for kind in kinds:
        for j in range(6):
            g = [A.node("IntReg", access="RW", init=5), A.node("Integer", value=("slot", 1)),
                 A.node("Integer", value=("slot", 1))]
            g += failing(j)
            bad = len(g) - 1 if failing(j) else 50
            other = 50
            if bad != 50:
                g.append(A.node("IntSwissKnife", vars=[], formula="1 % 0") if j != 2 else
                         A.node("IntReg", access="RW", mapped=False))
                other = len(g) - 1
            for refs in (dict(impl=bad), dict(avail=bad), dict(lock=bad), dict(impl=2, avail=bad), dict(impl=2, lock=bad),
                         dict(avail=2, lock=bad), dict(impl=bad, avail=other), dict(avail=bad, lock=other),
                         dict(impl=other, lock=bad), dict(impl=2, avail=2, lock=bad)):
                g.append(feature(kind, g, tb=0, access="RW", **refs))
            add(cases, g, [("s", 2, 0), ("s", 2, 1), ("s", 2, 2)], "failing controls")
    # ... and the same failing controls on the nodes a value is written to / drawn from: the pValue target, every
    # position of the pValueCopy list (first / middle / last), the pIndex node and its indexed entries, the pValue
    # and the variables of converters and swiss knives (every position), the pValue of Boolean / Command /
    # Enumeration / String.  The failing control sits on the target's pIsLocked (only is_writable fails) or on its
    # pIsAvailable / pIsImplemented (both fail); the answer of the referrer must be that failure unless an earlier
    # condition already said no.
    for j in range(6):
        for ref in ("lock", "avail", "impl"):
            g = [A.node("IntReg", access="RW", init=5), A.node("Integer", value=("slot", 1)),
                 A.node("Integer", value=("slot", 1))]
            g += failing(j)
            bad = len(g) - 1 if failing(j) else 50
            ok1, ok2 = len(g), len(g) + 1
            g += [A.node("IntReg", access="RW", init=1), A.node("Integer", value=("slot", 2))]
            tb = len(g)                                   # targets whose control fails
            g += [A.node("IntReg", access="RW", init=1, **{ref: bad}), A.node("Integer", value=("slot", 1), **{ref: bad}),
                  A.node("Float", value=("slot", 1), **{ref: bad}), A.node("Enumeration", value=("slot", 0), **{ref: bad}),
                  A.node("StringReg", access="RW", **{ref: bad}), A.node("Boolean", value=("slot", 1), **{ref: bad})]
            treg, tint, tflt, tenum, tstr, tbool = range(tb, tb + 6)
            for T in (treg, tint, tflt, tenum):
                g.append(A.node("Integer", value=("pvalue", T, [ok1, ok2])))
                g.append(A.node("Integer", value=("pvalue", ok1, [T, ok2, ok1])))
                g.append(A.node("Float", value=("pvalue", ok2, [ok1, T, ok2])))
                g.append(A.node("Integer", value=("pvalue", ok1, [ok2, ok1, T])))
                g.append(A.node("Integer", value=("pvalue", ok1, [T])))
            g.append(A.node("Integer", value=("pvalue", ok1, [treg, tint])))          # two failing copies in a row
            g.append(A.node("Integer", value=("pvalue", 1, [ok1, tflt], ), imposed="RO"))   # an earlier "no" hides it
            g.append(A.node("Integer", value=("pindex", tint, [(1, ("node", ok1))], ("slot", 3))))     # failing index
            g.append(A.node("Integer", value=("pindex", treg, [(1, ("slot", 4))], ("node", ok2))))
            g.append(A.node("Integer", value=("pindex", 2, [(0, ("node", treg)), (1, ("node", ok1))], ("node", tint))))
            g.append(A.node("Float", value=("pindex", 2, [(1, ("node", tflt))], ("slot", 3))))
            for kind in ("IntConverter", "Converter"):
                g.append(A.node(kind, pvalue=tint, vars=[ok1]))
                g.append(A.node(kind, pvalue=ok1, vars=[treg, ok1, ok2], accs=["", ".Max", ""]))
                g.append(A.node(kind, pvalue=ok2, vars=[ok1, tflt, ok2]))
                g.append(A.node(kind, pvalue=ok1, vars=[ok1, ok2, tbool], accs=[".Min", "", ".Value"]))
            for kind in ("IntSwissKnife", "SwissKnife"):
                g.append(A.node(kind, vars=[tenum, ok1, ok2]))
                g.append(A.node(kind, vars=[ok1, tint, ok2], accs=["", ".Inc", ""]))
                g.append(A.node(kind, vars=[ok1, ok2, treg]))
            g.append(A.node("Boolean", value=("node", tint)))
            g.append(A.node("Command", value=("node", treg)))
            g.append(A.node("Enumeration", value=("node", tint)))
            g.append(A.node("String", value=("node", tstr)))
            add(cases, g, [("s", 2, 0), ("s", 2, 1), ("s", 2, 2)], "failing controls")
    # one unreadable / unwritable source under each referrer
    for src in (A.node("IntReg", access="WO"), A.node("IntReg", access="RO"), A.node("Integer", value=("slot", 1), imposed="RO"),
                A.node("Integer", value=("slot", 1), imposed="WO"), A.node("Enumeration", value=("slot", 0)),
                A.node("Float", value=("slot", 1)), A.node("Boolean", value=("slot", 1)), A.node("StringReg", access="RW"),
                A.node("StringReg", access="RO")):
        ok = A.node("IntReg", access="RW", init=0)
        for ref in (A.node("Integer", value=("pvalue", 0, [])), A.node("Integer", value=("pvalue", 1, [0])),
                    A.node("Float", value=("pvalue", 0, [1])),
                    A.node("Integer", value=("pindex", 1, [(0, ("node", 0))], ("slot", 3))),
                    A.node("Integer", value=("pindex", 1, [(1, ("slot", 3))], ("node", 0))),
                    A.node("Boolean", value=("node", 0)), A.node("Command", value=("node", 0)),
                    A.node("Enumeration", value=("node", 0)), A.node("String", value=("node", 0)),
                    A.node("IntConverter", pvalue=0, vars=[]), A.node("Converter", pvalue=1, vars=[0]),
                    A.node("IntSwissKnife", vars=[0]), A.node("SwissKnife", vars=[1, 0])):
            add(cases, [dict(src), dict(ok), ref], [("s", 1, 1), ("s", 1, 0)], "minimal graphs")


def gen_combos(ck, rng, cases):
    """every kind x ImposedAccessMode x AccessMode x (pIsImplemented, pIsAvailable, pIsLocked) in
    {none, Integer, IntReg, Boolean, Boolean over IntReg, MaskedIntReg}, histories flipping every control"""
    quick = ck.tier == "quick"
    kinds = [k for k in A.ALL_KINDS if k != "Register"]
    triples = [(a, b, c) for a in CTL_REFS for b in CTL_REFS for c in CTL_REFS]
    for kind in kinds:
        ts = triples
        if quick:
            keep = [t for t in triples if sum(x is not None for x in t) <= 1 or len(set(t)) == 1]
            ts = keep + [t for t in triples if t not in keep and rng.chance(1, 9)]
        for (pi, pa, pl) in ts:
            g = controls() + [A.node("IntReg", access="RW", init=5), A.node("Integer", value=("slot", 7))]
            for im in MODES:
                for am in (MODES if kind in A.REG_KINDS else (None,)):
                    g.append(feature(kind, g, imposed=im, access=am, impl=pi, avail=pa, lock=pl))
            used = {x for x in (pi, pa, pl) if x is not None}
            if 4 in used:
                used.add(3)
            ops = [o for o in FLIPS if o[1] in used] or [("nop",)]
            if quick and len(ops) > 7:
                ops = ops[:4] + [ops[i] for i in sorted(rng.below(len(ops) - 4) + 4 for _ in range(3))]
            add(cases, g, ops, "combinations")


def add(cases, g, ops, fam, flags=1):
    c = make_case(g, ops, fam, flags)
    if c is not None:
        cases.append(c)
    return c


def target_variants(kind):
    """nodes of a kind in different access situations (to be referenced as value sources / targets)"""
    out = []
    for im in (None, "RO", "WO"):
        if kind in A.REG_KINDS:
            for am in ("RW", "RO", "WO"):
                out.append(dict(imposed=im, access=am))
        else:
            out.append(dict(imposed=im))
    return out


def gen_sources(ck, rng, cases):
    """value-source kinds: pValue (+copies) to every kind, pIndex, ImmOrPNode of Boolean/Command/Enumeration/String,
    converter pValue and variables, swiss-knife variables; controls on the sources are flipped"""
    quick = ck.tier == "quick"
    kinds = list(A.ALL_KINDS)
    for tk in kinds:
        for tv in target_variants(tk):
            for lockref in (None, 0):
                g = controls() + [A.node("IntReg", access="RW", init=5), A.node("Integer", value=("slot", 7))]
                t = len(g)
                g.append(feature(tk, g, lock=lockref, avail=(1 if lockref is None else None), **tv))
                # referrers of every kind that can refer to it
                g.append(A.node("Integer", value=("pvalue", t, [])))
                g.append(A.node("Float", value=("pvalue", t, [])))
                g.append(A.node("Integer", value=("pvalue", 6, [t])))
                g.append(A.node("Float", value=("pvalue", t, [6, 7])))
                g.append(A.node("Integer", value=("pvalue", 7, [6, t, 7])))
                g.append(A.node("Integer", value=("pindex", 0, [(0, ("slot", 4)), (1, ("node", t))], ("node", 6))))
                g.append(A.node("Float", value=("pindex", 1, [(1, ("node", 7)), (0, ("node", t))], ("slot", 9))))
                if tk not in ("IntConverter", "Converter"):      # their value (the index) is not simulated
                    g.append(A.node("Integer", value=("pindex", t, [(0, ("slot", 4)), (5, ("node", 6))], ("node", 7))))
                else:
                    g.append(A.node("Integer", value=("slot", 0)))
                g.append(A.node("Boolean", value=("node", t)))
                g.append(A.node("Command", value=("node", t)))
                g.append(A.node("Enumeration", value=("node", t)))
                g.append(A.node("String", value=("node", t)))
                ac = lambda k: [rng.choice(A.ACCESSORS) for _ in range(k)]
                g.append(A.node("IntConverter", pvalue=t, vars=[6], accs=ac(1)))
                g.append(A.node("Converter", pvalue=6, vars=[7, t], accs=ac(2)))
                g.append(A.node("IntConverter", pvalue=7, vars=[t, 6, t], accs=ac(3)))
                g.append(A.node("IntSwissKnife", vars=[t], accs=[rng.choice(A.ACCESSORS[1:])]))
                g.append(A.node("SwissKnife", vars=[6, t], accs=ac(2)))
                g.append(A.node("IntSwissKnife", vars=[t, 7], accs=[".Max", ".Min"]))
                g.append(A.node("Converter", pvalue=7, vars=[t], accs=[".Inc"]))
                g.append(A.node("SwissKnife", vars=[]))
                g.append(A.node("Integer", value=("pvalue", t + 1, [])))      # depth 2
                g.append(A.node("Converter", pvalue=len(g) - 1, vars=[t + 13], accs=[".Min"]))   # depth 3 over a converter
                ops = [("s", 0, 0), ("s", 1, 0), ("s", 0, 1), ("s", 1, 1), ("s", 0, 5), ("s", 1, 2)]
                if quick:
                    ops = ops[:4]
                add(cases, g, ops, "value sources")


def gen_random(ck, rng, cases, count):
    malformed = 0
    for it in range(count):
        bad = rng.chance(1, 5)
        n = rng.range(3, 12)
        g = []
        for i in range(n):
            kind = rng.choice(A.ALL_KINDS) if i >= 2 else rng.choice(["Integer", "IntReg", "Boolean", "MaskedIntReg"])
            low = list(range(i))

            def pick(kinds):
                c = [j for j in low if g[j]["kind"] in kinds]
                if bad and low and rng.chance(1, 4):
                    return rng.choice(low)
                return rng.choice(c) if c else None

            kw = dict(imposed=rng.choice(MODES + (None, "RW")))
            for ref in ("impl", "avail", "lock"):
                if low and rng.chance(1, 3):
                    kw[ref] = pick(A.INT_KINDS + ("Boolean",))
            if kind in A.REG_KINDS:
                kw["access"] = rng.choice(MODES + ("RW",))
                kw["init"] = rng.choice([0, 1, 1, 2])
                kw["mapped"] = not (bad and rng.chance(1, 6))
                if kind == "MaskedIntReg" and rng.chance(1, 3):
                    kw["struct"] = rng.below(32)         # written as a StructEntry, elements split between the two levels

            def iop(kinds, v):
                m = pick(kinds) if rng.chance(2, 3) else None
                return ("node", m) if m is not None else ("slot", v)

            if kind in ("Integer", "Float"):
                t = rng.below(4)
                p = pick(A.NUMERIC)
                ix = pick(A.INT_KINDS)
                if t == 0 or p is None:
                    kw["value"] = ("slot", rng.choice([0, 1, 1, 2]))
                elif t in (1, 2) or ix is None:
                    cs = [x for x in (pick(A.NUMERIC) for _ in range(rng.below(3) if t == 2 else 0)) if x is not None]
                    kw["value"] = ("pvalue", p, cs)
                else:
                    es = [(j, iop(A.NUMERIC, j)) for j in rng_sample(rng, [0, 1, 2, 3], rng.below(3))]
                    kw["value"] = ("pindex", ix, es, iop(A.NUMERIC, 1))
            elif kind == "Boolean":
                kw["value"] = iop(A.INT_KINDS, rng.choice([0, 1]))
                if rng.chance(1, 4):
                    kw["on"], kw["off"] = 2, 1
                if kw["value"][0] == "slot":
                    kw["value"] = ("slot", rng.choice([kw.get("on", 1), kw.get("off", 0)]))
            elif kind in ("Command", "Enumeration"):
                kw["value"] = iop(A.INT_KINDS, rng.below(3))
            elif kind == "String":
                m = pick(A.STRING_KINDS) if rng.chance(1, 2) else None
                kw["value"] = ("node", m) if m is not None else ("slot", 0)
            elif kind in ("IntConverter", "Converter", "IntSwissKnife", "SwissKnife"):
                kw["vars"] = [x for x in (pick(A.VARKINDS) for _ in range(rng.below(4))) if x is not None]
                if rng.chance(2, 3):
                    kw["accs"] = [rng.choice(A.ACCESSORS) for _ in kw["vars"]]
                if kind in ("IntConverter", "Converter"):
                    p = pick(A.VARKINDS)
                    if p is None:
                        kind = "Integer"
                        kw["value"] = ("slot", 1)
                        kw.pop("vars")
                        kw.pop("accs", None)
                    else:
                        kw["pvalue"] = p
            g.append(A.node(kind, **kw))
        # history: set the nodes that control something (or index something), directly or through their backing
        refd = set()
        for nd in g:
            for ref in ("impl", "avail", "lock"):
                if nd[ref] is not None:
                    refd.add(nd[ref])
            v = nd["value"]
            if v and v[0] == "pindex":
                refd.add(v[1])
        for j in list(refd):
            v = g[j]["value"]
            if v and v[0] in ("node", "pvalue"):
                refd.add(v[1])
        ops = []
        cands = sorted(refd) or [0]
        for _ in range(rng.range(2, 6)):
            j = rng.choice(cands)
            k = g[j]["kind"]
            if k in A.INT_KINDS:
                ops.append(("s", j, rng.choice([0, 1, 1, 2, 3])))
            elif k == "Boolean":
                ops.append(("bs", j, rng.below(2)))
            elif k == "Enumeration":
                ops.append(("sev", j, rng.below(5)))
            elif k in A.FLOAT_KINDS:
                ops.append(("fs", j, rng.below(3)))
            else:
                ops.append(("nop",))
        if add(cases, g, ops, "random graphs (malformed references)" if bad else "random graphs") and bad:
            malformed += 1
    return malformed


def rng_sample(rng, xs, k):
    xs = list(xs)
    rng.shuffle(xs)
    return sorted(xs[:k])


def gen_cached(ck, rng, cases, src):
    """the same histories with the register cache enabled (WriteThrough registers): implementation-only
    predicate — a verdict must not be remembered across a change of its controls either"""
    out = []
    for c in src:
        g = json.loads(json.dumps(c.meta["g"]))
        for n in g:
            n["value"] = tup(n["value"])
            n["cachable"] = "WriteThrough"
        cc = make_case(g, c.meta["ops"], "register cache enabled", flags=0)
        if cc is not None:
            out.append(cc)
    return out


def gen_chains(ck, rng, cases):
    """reference chains of ANY depth: a feature reaching its register through 1..100 pValue hops (Integer and Float
    chains, a Boolean / Enumeration / Command on top), the availability and the lock of the register at the far end
    flipped along the history - the answer of every node of the chain follows them at every depth"""
    for depth in (1, 2, 31, 32, 33, 34, 40, 64, 100):
        for top in ("Integer", "Float", "Boolean", "Command"):
            g = [A.node("Integer", value=("slot", 1)), A.node("Integer", value=("slot", 0)),
                 A.node("IntReg", access="RW", init=1, avail=0, lock=1)]
            for i in range(depth):
                g.append(A.node("Float" if top == "Float" else "Integer", value=("pvalue", len(g) - 1, [])))
            if top == "Boolean":
                g.append(A.node("Boolean", value=("node", len(g) - 1), on=1, off=0))
            elif top == "Command":
                g.append(A.node("Command", value=("node", len(g) - 1)))
            ops = [("s", 1, 1), ("s", 0, 0), ("s", 1, 0), ("s", 0, 1)]
            add(cases, g, ops, "reference chains of depth 1..100")


def gen_cases(ck):
    rng = Rng(ck.seed)
    cases = []
    gen_minimal(ck, rng, cases)
    gen_chains(ck, rng, cases)
    gen_combos(ck, rng, cases)
    gen_sources(ck, rng, cases)
    mal = gen_random(ck, rng, cases, 2500 if ck.tier == "quick" else 20000)
    ck.dist["random_malformed"] = mal
    step = 6 if ck.tier == "quick" else 3
    cached = gen_cached(ck, rng, cases, cases[::step])
    return cases, cached


RULE = ("acyclic node graphs rendered to GenApi XML (real parser + real nodes) and to the Gallina store: every kind with "
        "an access query x ImposedAccessMode {absent,RO,WO,RW} x AccessMode {absent,RO,WO,RW} (register kinds) x "
        "(pIsImplemented, pIsAvailable, pIsLocked) each in {absent, Integer, IntReg, Boolean, Boolean over IntReg, "
        "MaskedIntReg} (quick: all single-control and equal triples + 1/9 of the rest; thorough: all 216 triples); "
        "value sources: pValue / pValueCopy / pIndex entries and defaults / Boolean, Command, Enumeration, String "
        "pValue / converter pValue / formula variables pointing at every kind in every access situation, chains of "
        "depth 3; random graphs of 3..12 nodes incl. malformed references (wrong kinds, unmapped registers, boolean "
        "raw values that are neither on nor off); histories of set_value on the controlling / index / backing nodes "
        "with is_readable and is_writable of EVERY node queried initially and after every step; real code (no_cache) "
        "vs model/Access.v by vm_compute; failing controlling nodes in every run (dangling reference, register the device "
        "refuses, integer remainder by zero in a formula, Boolean neither on nor off, wrong kind; alone / behind a flipped "
        "earlier control / two failures in a row) with the independent rule 'first failing control or first no, in the "
        "order implemented, available, locked' predicting the exact outcome incl. error class, the same failing controls "
        "on pValue targets / first, middle, last pValueCopy / pIndex nodes and entries / converter pValue / every "
        "variable position; an independent Python evaluation of the complete answer (conditions in order through the "
        "value sources and targets, first failure wins) must equal the implementation's outcome code for every node in "
        "every state; a sample again with the register cache enabled (predicate only); predicate "
        "= independent three-valued Python evaluation of Readable / Writable from the property text, plus: on a node "
        "that is evaluable (every reachable node well-kinded and evaluating, as in C18_readable_exactly) an error "
        "answer is a failure; non-trivial = "
        "some verdict changes along the history")


def main():
    ck = Check("C18")
    ck.rule = RULE
    ck.trusted += ["tools/accgraph.py renders one graph object three ways (GenApi XML, Gallina store/state terms, Python "
                   "objects) and simulates set_value on the controlling nodes to know the state after each step (slots, "
                   "4-byte little-endian registers with values < 256); the implementation's answer to each step is "
                   "checked against that simulation",
                   "values of converters / swiss knives used as controlling nodes are state inputs of the model "
                   "(formulas: C05), float nodes carry integral values"]
    ck.prove()
    ck.phase("prove")
    binary, log = ck.cargo_build("h_access")
    ck.phase("cargo")
    if binary is None:
        path = ck.write_replay({"kind": "build", "property": "C18", "unchecked": "correspondence via rust/h_access",
                                "log": log[-6000:]})
        ck.violations.append((path, True, "harness rust/h_access does not build against /repo: correspondence "
                                          "cannot be established"))
        ck.finish()
    if ck.replay:
        r = json.load(open(ck.replay))
        if r.get("kind") != "case":
            print(json.dumps(r, indent=1)[:4000])
            sys.exit(0)
        c = case_from_blob(r["mtoks"].split()[0])
        impl = run_impl(ck, binary, [c])
        model = ck.run_model_terms(["Outcome", "Access"], [c.term]) if c.kind == "acc" else None
        print("graph    :")
        for i, n in enumerate(c.meta["g"]):
            dflt = A.node(n["kind"])
            print("   N%d %s %s" % (i, n["kind"], {k: v for k, v in n.items() if k != "kind" and v != dflt.get(k)}))
        print("ops      :", c.meta["ops"])
        print("impl     :", impl[0], "op results", c.meta["impl_ops"])
        print("model    :", model[0] if model else None)
        print("predicate:", predicate(c, impl[0]) or "holds")
        ck.compare([c], impl, model, predicate, nontrivial)
        ck.finish()
    cases, cached = gen_cases(ck)
    ck.phase("generate")
    impl = run_impl(ck, binary, cases)
    impl_c = run_impl(ck, binary, cached)
    ck.phase("impl")
    model = ck.run_model_terms(["Outcome", "Access"], [c.term for c in cases], per_eval=25, jobs=16)
    ck.phase("model")
    fams = []
    for c in cases:
        if c.fam not in fams:
            fams.append(c.fam)
    for fam in fams:
        idx = [i for i, c in enumerate(cases) if c.fam == fam]
        ck.compare([cases[i] for i in idx], [impl[i] for i in idx], [model[i] for i in idx], predicate, nontrivial,
                   family=fam, correspondence="rust/h_access (real genapi nodes) vs model/Access.v")
    ck.compare(cached, impl_c, None, predicate, nontrivial, family="register cache enabled (predicate only)")
    ck.dist["nodes"] = sum(len(c.meta["g"]) for c in cases)
    ck.dist["verdicts_compared"] = sum(2 * len(c.meta["g"]) * (len(c.meta["ops"]) + 1) for c in cases)
    ck.dist["history_steps"] = sum(len(c.meta["ops"]) for c in cases)
    ck.dist["evaluable_node_states"] = sum(1 for c in cases for sp in c.meta["specs"] for v in sp if v[2])
    ck.dist["evaluable_but_undecided_by_predicate"] = sum(
        1 for c in cases for sp in c.meta["specs"] for i, v in enumerate(sp)
        if v[2] and (v[1] is None or (v[0] is None and c.meta["g"][i]["kind"] != "Command")))
    ck.finish()


def run_impl(ck, binary, cases):
    raw = ck.run_impl(binary, [c.line for c in cases], jobs=16)
    out = []
    for c, r in zip(cases, raw):
        sp = split_output(c, r)
        if sp is None:
            c.meta["impl_ops"] = None
            out.append(r)
        else:
            c.meta["impl_ops"] = sp[1]
            out.append(sp[0])
    return out
