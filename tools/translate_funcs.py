#!/usr/bin/env python3
"""Regenerates coq/theories/gen/FuncTable.v from the table-shaped parts of
/repo/genapi/src/formula.rs (property C05):

  * `pub enum UnOpKind { ... }`  and `pub enum BinOpKind { ... }`  -> declaration order (indices);
  * the function-name match in `Parser::primary`  ("NAME" => UnOpKind::X, ..., other => panic!)
  * the constant-name match in `Parser::next_float` ("PI" => std::f64::consts::PI, ...)
  * the operator tables of the `parse_binop!` ladder (method, sub-method, (Token, BinOpKind) pairs).

Fails with exit 3 (SHAPE-ERROR) when the source no longer has the expected shape.
"""
import os
import re
import struct
import sys
import math

VERIF = os.path.dirname(os.path.dirname(os.path.abspath(__file__)))
REPO = os.environ.get("VERIF_REPO", "/repo")

CONSTS = {"std::f64::consts::PI": math.pi, "std::f64::consts::E": math.e}


class ShapeError(Exception):
    pass


def strip_comments(s):
    s = re.sub(r"/\*.*?\*/", "", s, flags=re.S)
    return re.sub(r"//[^\n]*", "", s)


def write_if_changed(path, text):
    if os.path.exists(path) and open(path).read() == text:
        return False
    os.makedirs(os.path.dirname(path), exist_ok=True)
    with open(path, "w") as f:
        f.write(text)
    return True


def enum_variants(src, name):
    m = re.search(r"pub enum %s\s*\{(.*?)\n\}" % name, src, flags=re.S)
    if not m:
        raise ShapeError("enum %s not found" % name)
    vs = [v.strip() for v in m.group(1).split(",") if v.strip()]
    for v in vs:
        if not re.fullmatch(r"[A-Za-z_][A-Za-z0-9_]*", v):
            raise ShapeError("unexpected variant syntax in %s: %r" % (name, v))
    return vs


def zbytes(s):
    return "[" + "; ".join(str(b) for b in s.encode()) + "]"


def tables(path=None):
    src = strip_comments(open(path or os.path.join(REPO, "genapi/src/formula.rs")).read())
    unops = enum_variants(src, "UnOpKind")
    binops = enum_variants(src, "BinOpKind")
    uidx = {v: i for i, v in enumerate(unops)}
    bidx = {v: i for i, v in enumerate(binops)}
    # function names
    m = re.search(r"let op = match s\.as_str\(\)\s*\{(.*?)\n\s*\};", src, flags=re.S)
    if not m:
        raise ShapeError("function-name match in Parser::primary not found")
    arms = [a.strip() for a in m.group(1).split(",\n") if a.strip()]
    funcs = []
    for k, a in enumerate(arms):
        a = a.rstrip(",").strip()
        mm = re.fullmatch(r'"([A-Za-z][A-Za-z0-9_.]*)"\s*=>\s*UnOpKind::(\w+)', a)
        if mm:
            if mm.group(2) not in uidx:
                raise ShapeError("unknown UnOpKind::%s" % mm.group(2))
            if mm.group(1) in [f for f, _ in funcs]:
                raise ShapeError("duplicate function name %s" % mm.group(1))
            funcs.append((mm.group(1), uidx[mm.group(2)]))
        elif re.fullmatch(r"\w+\s*=>\s*panic!\(.*\)", a, flags=re.S) and k == len(arms) - 1:
            pass
        else:
            raise ShapeError("unexpected arm in the function-name match: %r" % a[:80])
    # constants
    m = re.search(r"let f = match s\.as_str\(\)\s*\{(.*?)\n\s*\};", src, flags=re.S)
    if not m:
        raise ShapeError("constant-name match in Parser::next_float not found")
    consts = []
    arms = [a.strip() for a in m.group(1).split(",\n") if a.strip()]
    for k, a in enumerate(arms):
        a = a.rstrip(",").strip()
        mm = re.fullmatch(r'"([A-Za-z][A-Za-z0-9_.]*)"\s*=>\s*([\w:]+)', a)
        if mm:
            if mm.group(2) not in CONSTS:
                raise ShapeError("unknown constant path %s" % mm.group(2))
            consts.append((mm.group(1), struct.unpack("<Q", struct.pack("<d", CONSTS[mm.group(2)]))[0]))
        elif re.fullmatch(r"_\s*=>\s*return None", a) and k == len(arms) - 1:
            pass
        else:
            raise ShapeError("unexpected arm in the constant-name match: %r" % a[:80])
    # parse_binop! ladder
    ladder = []
    for m in re.finditer(r"fn (\w+)\(&mut self\) -> Expr \{\s*parse_binop!\(\s*self\.(\w+),(.*?)\)\s*\}", src, flags=re.S):
        pairs = re.findall(r"\(\s*Token::(\w+)\s*,\s*BinOpKind::(\w+)\s*\)", m.group(3))
        rest = re.sub(r"\(\s*Token::(\w+)\s*,\s*BinOpKind::(\w+)\s*\)", "", m.group(3)).replace(",", "").strip()
        if rest or not pairs:
            raise ShapeError("unexpected parse_binop! arguments in fn %s" % m.group(1))
        for t, b in pairs:
            if b not in bidx:
                raise ShapeError("unknown BinOpKind::%s" % b)
        ladder.append((m.group(1), m.group(2), pairs))
    if not ladder:
        raise ShapeError("no parse_binop! level found")
    # the levels must chain: expr -> ladder[0] ... -> unop
    m = re.search(r"fn expr\(&mut self\) -> Expr \{\s*let expr = self\.(\w+)\(\);", src)
    if not m or m.group(1) != ladder[0][0]:
        raise ShapeError("Parser::expr does not start at the first parse_binop! level")
    for a, b in zip(ladder, ladder[1:]):
        if a[1] != b[0]:
            raise ShapeError("parse_binop! levels do not chain at %s -> %s" % (a[0], a[1]))
    if ladder[-1][1] != "unop":
        raise ShapeError("the last parse_binop! level must descend to unop")
    return unops, binops, funcs, consts, ladder


TOKENS = ["LParen", "RParen", "Plus", "Minus", "Star", "DoubleStar", "Slash", "Percent", "And", "DoubleAnd", "Or",
          "DoubleOr", "Caret", "Tilde", "Eq", "Ne", "Colon", "Question", "Lt", "Le", "Gt", "Ge", "Shl", "Shr"]


def render(unops, binops, funcs, consts, ladder):
    out = ["(* GENERATED by tools/translate_funcs.py from /repo/genapi/src/formula.rs - do not edit. *)",
           "From Coq Require Import ZArith List.", "Import ListNotations.", "Open Scope Z_scope.", "",
           "(* number of variants of UnOpKind / BinOpKind (indices are declaration order) *)",
           "Definition gen_unop_count : Z := %d." % len(unops),
           "Definition gen_binop_count : Z := %d." % len(binops), "",
           "(* UnOpKind variant names (bytes), in declaration order *)",
           "Definition gen_unop_variants : list (list Z) := [",
           ";\n".join("  %s (* %s *)" % (zbytes(v), v) for v in unops), "].", "",
           "Definition gen_binop_variants : list (list Z) := [",
           ";\n".join("  %s (* %s *)" % (zbytes(v), v) for v in binops), "].", "",
           "(* Parser::primary: function name (bytes) -> UnOpKind index; any other name panics *)",
           "Definition gen_func_table : list (list Z * Z) := [",
           ";\n".join("  (%s, %d) (* %s -> %s *)" % (zbytes(f), i, f, unops[i]) for f, i in funcs), "].", "",
           "(* Parser::next_float: constant name (bytes) -> f64 bit pattern *)",
           "Definition gen_const_table : list (list Z * Z) := [",
           ";\n".join("  (%s, %d) (* %s *)" % (zbytes(c), b, c) for c, b in consts), "].", "",
           "(* parse_binop! ladder, outermost level first: list of (Token index, BinOpKind index);",
           "   Token index = position in the declaration order of the payload-free tokens:",
           "   " + " ".join("%d=%s" % (i, t) for i, t in enumerate(TOKENS)) + " *)",
           "Definition gen_ladder : list (list (Z * Z)) := ["]
    bidx = {v: i for i, v in enumerate(binops)}
    rows = []
    for name, sub, pairs in ladder:
        for t, _ in pairs:
            if t not in TOKENS:
                raise ShapeError("unknown Token::%s" % t)
        rows.append("  [%s] (* %s *)" % ("; ".join("(%d, %d)" % (TOKENS.index(t), bidx[b]) for t, b in pairs), name))
    out += [";\n".join(rows), "].", ""]
    return "\n".join(out)


def main():
    try:
        t = tables()
        text = render(*t)
    except ShapeError as e:
        print("SHAPE-ERROR:", e)
        sys.exit(3)
    changed = write_if_changed(os.path.join(VERIF, "coq/theories/gen/FuncTable.v"), text)
    print("funcs:", {"unops": len(t[0]), "binops": len(t[1]), "functions": len(t[2]), "constants": len(t[3]),
                     "levels": len(t[4]), "changed": changed})


if __name__ == "__main__":
    main()
