#!/usr/bin/env python3
"""tools/translate_streamparse.py -- CODE translator for stream leader / trailer DECODING and payload assembly
(property C11).  Output: coq/theories/gen/StreamParseSrc.v, regenerated on every run.

Sources (module names used below):
  stream   device/src/u3v/protocol/stream.rs     Leader::parse / parse_prefix / specific_leader_as, the getters, the
                                                 SpecificLeader / SpecificTrailer implementations, Trailer::*, the two
                                                 TryFrom<u16> tables, the magic constants
  handle   cameleon/src/u3v/stream_handle.rs     struct PayloadBuilder and every method of `impl PayloadBuilder<'_>`
  payload  cameleon/src/payload.rs               structs ImageInfo, Payload; image_info / image / payload / into_vec

The bodies are parsed by a recursive-descent parser for the subset of Rust they use, typed (the width of
`read_bytes_le::<T>()` comes from the turbofish, from the annotation of the `let`, or from the field of the struct
literal the variable ends up in), and emitted as Gallina over lib/RustInt.v (debug-build integer semantics) and
model/RdOps.v (cursor reads, slicing with Rust's panic rule, loops with fuel):

    let mut cursor = Cursor::new(buf)           let v_cursor := cur_new buf
    let x: uN = cursor.read_bytes_le()?         let? (v_x, v_cursor) := cur_read_le (N/8) v_cursor
    f(&mut cursor)?                             let? (t, v_cursor) := src_f v_cursor
    buf.read_bytes_le()?  (mut buf: &[u8])      let? (v_x, v_buf) := sl_read_le n v_buf
    x.try_into()?  (enum of this file)          let? y := src_<Enum>_try_from x
    x.try_into().map_err(|e: String| E)?        let? y := r_map_err <class of E> (pixel_try_from x)     (PixelFormat)
    &s[a..] / &s[..b] / s[a..b]                 sl_from / sl_to / sl_range
    if c { return Err(e); }                     if c then Err <class> else ...
    loop { .. x = e; .. break v; }              r_loop fuel (src_<fn>_loop ..) x   (body = a separate definition)
    generic fn f<T: Trait>                      {T : Type} (T_<method> : ..) parameters (one per trait method)

Rust panics are Panic, errors are Err <class>: E_BUFFER_IO (io::Error through `?`: `#[from] std::io::Error` of
device/src/u3v/mod.rs is asserted), E_INVALID_PACKET, E_STREAM_INVALID_PAYLOAD.  Enum values are numbered by NAME
(NUMBERING, the convention of rust/h_proto and tools/translate_proto.py); a PixelFormat is its index in
gen/PixelTable.v (tools/translate.py); a time::Duration built by from_nanos is its number of nanoseconds.

Pinned shapes (ShapeError otherwise): impl/src/bytes_io.rs `read_bytes_le` (ONE read_exact of size_of::<T>() bytes,
then from_le_bytes, for u8/u16/u32/u64 through the blanket impl for io::Read); the `use` lines that give `Result`,
`Error`, `PixelFormat`, `Cursor`, `ReadBytes`, `u3v_stream`, `ImageInfo` / `Payload` / `PayloadType`, `StreamError` /
`StreamResult` their meaning; `impl TryFrom<u32> for PixelFormat { type Error = String; .. }`.

Anything outside the accepted shapes raises ShapeError (exit 3): the check reports the proof obligation as broken
instead of translating something else."""
import os
import re
import sys

VERIF = os.path.dirname(os.path.dirname(os.path.abspath(__file__)))
OUT = os.path.join(VERIF, "coq", "theories", "gen", "StreamParseSrc.v")
BITS = {"u8": 8, "u16": 16, "u32": 32, "u64": 64, "usize": 64}
FILES = {"stream": "device/src/u3v/protocol/stream.rs", "handle": "cameleon/src/u3v/stream_handle.rs",
         "payload": "cameleon/src/payload.rs"}
NUMBERING = {("stream", "PayloadType"): ["Image", "ImageExtendedChunk", "Chunk"],
             ("stream", "PayloadStatus"): ["Success", "DataDiscarded", "DataOverrun"],
             ("payload", "PayloadType"): ["Image", "ImageExtendedChunk", "Chunk"]}
ERR_CLASS = {("dev", "InvalidPacket"): "E_INVALID_PACKET", ("strm", "InvalidPayload"): "E_STREAM_INVALID_PAYLOAD"}
# the functions that are translated: (module, owner, trait, name); what they call is translated on demand
WANT = [
    ("stream", "Leader", None, "parse"), ("stream", "Leader", None, "specific_leader_as"),
    ("stream", "Leader", None, "leader_size"), ("stream", "Leader", None, "payload_type"),
    ("stream", "Leader", None, "block_id"),
    ("stream", "ImageLeader", "SpecificLeader", "from_bytes"),
    ("stream", "ImageExtendedChunkLeader", "SpecificLeader", "from_bytes"),
    ("stream", "ChunkLeader", "SpecificLeader", "from_bytes"),
    ("stream", "Trailer", None, "parse"), ("stream", "Trailer", None, "specific_trailer_as"),
    ("stream", "Trailer", None, "trailer_size"), ("stream", "Trailer", None, "block_id"),
    ("stream", "Trailer", None, "payload_status"), ("stream", "Trailer", None, "valid_payload_size"),
    ("stream", "ImageTrailer", "SpecificTrailer", "from_bytes"),
    ("stream", "ImageExtendedChunkTrailer", "SpecificTrailer", "from_bytes"),
    ("stream", "ChunkTrailer", "SpecificTrailer", "from_bytes"),
    ("handle", "PayloadBuilder", None, "build"),
    ("payload", "Payload", None, "image_info"), ("payload", "Payload", None, "image"),
    ("payload", "Payload", None, "payload"), ("payload", "Payload", None, "into_vec"),
]
# every getter of these types is translated too (so that a getter returning another field is seen)
GETTER_TYPES = [("stream", n) for n in ("ImageLeader", "ImageExtendedChunkLeader", "ChunkLeader", "ImageTrailer",
                                        "ImageExtendedChunkTrailer", "ChunkTrailer")] + [("payload", "Payload")]
COQ_RESERVED = {"as", "at", "cofix", "else", "end", "exists", "fix", "for", "forall", "fun", "if", "in", "let", "match",
                "mod", "return", "then", "using", "where", "with", "by", "Type", "Set", "Prop"}


class ShapeError(Exception):
    pass


def strip_comments(s):
    s = re.sub(r"/\*.*?\*/", "", s, flags=re.S)
    return re.sub(r"//[^\n]*", "", s)


# ------------------------------------------------------------------------------------------------- tokens --
TOK = re.compile(r"""
    (?P<ws>\s+) |
    (?P<str>"(?:[^"\\]|\\.)*") |
    (?P<life>'[A-Za-z_][A-Za-z0-9_]*(?!')) |
    (?P<num>0x[0-9A-Fa-f_]+(?:[iu](?:8|16|32|64|size))?|0b[01_]+(?:[iu](?:8|16|32|64|size))?|\d[\d_]*(?:[iu](?:8|16|32|64|size))?) |
    (?P<id>[A-Za-z_][A-Za-z0-9_]*) |
    (?P<op>->|=>|==|!=|<=|>=|<<=|>>=|<<|>>|&&|\|\||\.\.=|\.\.|::|\+=|-=|\*=|/=|%=|\|=|&=|\^=|[(){}\[\]<>,;:.&|!+\-*/=?\#%^@$])
""", re.X)


def tokenize(s):
    out, pos = [], 0
    while pos < len(s):
        m = TOK.match(s, pos)
        if not m:
            raise ShapeError("cannot tokenize %r" % s[pos:pos + 40])
        if m.lastgroup == "num" and m.end() < len(s) and (s[m.end()].isalnum() or s[m.end()] == "_"):
            raise ShapeError("numeric token not understood near %r" % s[pos:pos + 40])
        pos = m.end()
        if m.lastgroup != "ws":
            out.append((m.lastgroup, m.group(0)))
    return out


def lit_value(tok):
    m = re.fullmatch(r"(0x[0-9A-Fa-f_]+?|0b[01_]+?|\d[\d_]*?)_?([iu](?:8|16|32|64|size))?", tok)
    if not m:
        raise ShapeError("literal %r" % tok)
    return int(m.group(1).replace("_", ""), 0), m.group(2)


class Toks:
    def __init__(self, toks, i=0, end=None):
        self.t, self.i, self.end = toks, i, len(toks) if end is None else end

    def eof(self):
        return self.i >= self.end

    def peek(self, k=0):
        return self.t[self.i + k][1] if self.i + k < self.end else None

    def kind(self, k=0):
        return self.t[self.i + k][0] if self.i + k < self.end else None

    def eat(self, x=None):
        tok = self.peek()
        if tok is None or (x is not None and tok != x):
            raise ShapeError("expected %r, found %r near `%s`" % (x, tok, self.near()))
        self.i += 1
        return tok

    def near(self):
        return " ".join(t[1] for t in self.t[max(0, self.i - 8):min(self.end, self.i + 8)])

    def skip_balanced(self):
        op = self.eat()
        if op not in ("(", "[", "{"):
            raise ShapeError("expected a bracket near `%s`" % self.near())
        cl = {"(": ")", "[": "]", "{": "}"}[op]
        depth, start = 1, self.i
        while depth:
            tok = self.eat()
            if tok == op:
                depth += 1
            elif tok == cl:
                depth -= 1
        return start, self.i - 1

    def skip_angles(self):
        self.eat("<")
        depth, out = 1, []
        while depth:
            tok = self.eat()
            if tok == "<":
                depth += 1
            elif tok == ">":
                depth -= 1
            elif tok == ">>":
                depth -= 2
                if depth < 0:
                    raise ShapeError("unbalanced `>>` near `%s`" % self.near())
            elif tok == "<<":
                depth += 2
            if depth > 0:
                out.append(tok)
            elif depth == 0 and tok == ">>":
                out.append(">")
        return out


DEPTH = {"<": 1, ">": -1, ">>": -2, "(": 1, ")": -1, "[": 1, "]": -1}


# --------------------------------------------------------------------------------------------------- items --
class Fn:
    def __init__(self, owner, trait, name):
        self.owner, self.trait, self.name = owner, trait, name
        self.generics, self.params, self.ret, self.body = [], [], None, None
        self.in_trait_decl = False

    def label(self):
        if self.trait and self.owner:
            return "<%s as %s>::%s" % (self.owner, self.trait, self.name)
        return ((self.owner or self.trait or "") + "::" if (self.owner or self.trait) else "") + self.name


class Source:
    """the items of one file"""

    def __init__(self, text):
        self.toks = tokenize(text)
        self.structs, self.enums, self.consts = {}, {}, {}
        self.fns = {}               # (owner, trait, name) -> [Fn]
        self.trait_methods = {}     # trait -> [Fn]
        self.impl_types = {}        # (owner, trait) -> {assoc type name: tokens}
        self.uses = []              # whitespace-free text of every `use`
        self.parse_items(Toks(self.toks), None, None, False)

    def skip_attrs_vis(self, t):
        while True:
            if t.peek() == "#":
                t.eat("#")
                if t.peek() == "!":
                    t.eat("!")
                if t.peek() != "[":
                    raise ShapeError("attribute near `%s`" % t.near())
                t.skip_balanced()
            elif t.peek() == "pub":
                t.eat("pub")
                if t.peek() == "(":
                    t.skip_balanced()
            else:
                return

    def parse_items(self, t, owner, trait, in_trait_decl):
        while not t.eof():
            self.skip_attrs_vis(t)
            if t.eof():
                break
            kw = t.peek()
            if kw == "use" and owner is None and not in_trait_decl:
                s = t.i
                while t.eat() != ";":
                    pass
                self.uses.append(" ".join(x[1] for x in self.toks[s:t.i]))
            elif kw == "struct" and owner is None:
                self.parse_struct(t)
            elif kw == "enum" and owner is None:
                self.parse_enum(t)
            elif kw == "impl" and owner is None:
                self.parse_impl(t)
            elif kw == "trait" and owner is None:
                t.eat("trait")
                name = t.eat()
                while t.peek() != "{":
                    t.eat()
                s, e = t.skip_balanced()
                self.trait_methods[name] = []
                self.parse_items(Toks(self.toks, s, e), None, name, True)
            elif kw == "macro_rules" and owner is None:
                t.eat("macro_rules")
                t.eat("!")
                t.eat()
                t.skip_balanced()
            elif kw == "type" and owner is not None:
                t.eat("type")
                name = t.eat()
                t.eat("=")
                ty = []
                while t.peek() != ";":
                    ty.append(t.eat())
                t.eat(";")
                self.impl_types.setdefault((owner, trait), {})[name] = ty
            elif kw == "const" and t.peek(1) != "fn":
                t.eat("const")
                name = t.eat()
                t.eat(":")
                ty = []
                while t.peek() != "=":
                    ty.append(t.eat())
                t.eat("=")
                s = t.i
                while t.peek() != ";":
                    t.eat()
                if (owner, name) in self.consts:
                    raise ShapeError("constant %s defined twice" % name)
                self.consts[(owner, name)] = (ty, (s, t.i))
                t.eat(";")
            elif kw in ("fn", "const", "async", "unsafe"):
                while t.peek() in ("const", "async", "unsafe"):
                    t.eat()
                self.parse_fn(t, owner, trait, in_trait_decl)
            else:
                raise ShapeError("item the translator does not know: `%s`" % t.near())

    def parse_struct(self, t):
        t.eat("struct")
        name = t.eat()
        if t.peek() == "<":
            t.skip_angles()
        if t.peek() != "{":
            raise ShapeError("struct %s is not a struct with named fields" % name)
        s, e = t.skip_balanced()
        ft = Toks(self.toks, s, e)
        fields = []
        while not ft.eof():
            self.skip_attrs_vis(ft)
            if ft.eof():
                break
            fname = ft.eat()
            ft.eat(":")
            ty, depth = [], 0
            while not ft.eof() and not (ft.peek() == "," and depth == 0):
                tok = ft.eat()
                depth += DEPTH.get(tok, 0)
                ty.append(tok)
            if not ft.eof():
                ft.eat(",")
            fields.append((fname, ty))
        if name in self.structs:
            raise ShapeError("struct %s defined twice" % name)
        self.structs[name] = fields

    def parse_enum(self, t):
        t.eat("enum")
        name = t.eat()
        if t.peek() != "{":
            raise ShapeError("enum %s has generics" % name)
        s, e = t.skip_balanced()
        et = Toks(self.toks, s, e)
        vs = []
        while not et.eof():
            self.skip_attrs_vis(et)
            if et.eof():
                break
            v = et.eat()
            if not et.eof():
                if et.peek() != ",":
                    vs = None            # not a plain enum: only an error if it is one we need
                    break
                et.eat(",")
            vs.append(v)
        if name in self.enums:
            raise ShapeError("enum %s defined twice" % name)
        self.enums[name] = vs

    def parse_impl(self, t):
        t.eat("impl")
        if t.peek() == "<":
            t.skip_angles()
        head = []
        while t.peek() not in ("{", "where"):
            if t.peek() == "<":
                head.append("<" + "".join(t.skip_angles()) + ">")
            else:
                head.append(t.eat())
        if t.peek() == "where":
            while t.peek() != "{":
                t.eat()
        trait = None
        if "for" in head:
            k = head.index("for")
            trait = "".join(head[:k])
            head = head[k + 1:]
        names = [h for h in head if not h.startswith("<") and h != "::"]
        if not names:
            raise ShapeError("impl header near `%s`" % t.near())
        owner = names[-1]
        s, e = t.skip_balanced()
        self.parse_items(Toks(self.toks, s, e), owner, trait, False)

    def parse_fn(self, t, owner, trait, in_trait_decl):
        t.eat("fn")
        f = Fn(owner, trait, t.eat())
        f.in_trait_decl = in_trait_decl
        if t.peek() == "<":
            f.generics = t.skip_angles()
        if t.peek() != "(":
            raise ShapeError("fn %s: parameter list" % f.name)
        s, e = t.skip_balanced()
        pt = Toks(self.toks, s, e)
        cur, depth = [], 0
        while not pt.eof():
            tok = pt.eat()
            if tok == "," and depth == 0:
                f.params.append(cur)
                cur = []
                continue
            depth += DEPTH.get(tok, 0)
            cur.append(tok)
        if cur:
            f.params.append(cur)
        if t.peek() == "->":
            t.eat("->")
            f.ret, depth = [], 0
            while not (depth == 0 and t.peek() in ("{", ";", "where")):
                tok = t.eat()
                depth += DEPTH.get(tok, 0)
                f.ret.append(tok)
        f.where = []
        if t.peek() == "where":
            t.eat("where")
            while t.peek() not in ("{", ";"):
                f.where.append(t.eat())
        if t.peek() == ";":
            t.eat(";")
        else:
            f.body = t.skip_balanced()
        if in_trait_decl:
            self.trait_methods[trait].append(f)
        else:
            self.fns.setdefault((owner, trait, f.name), []).append(f)


# ------------------------------------------------------------------------------------------ expression AST --
LEVELS = [["||"], ["&&"], ["==", "!=", "<", ">", "<=", ">="], ["|"], ["^"], ["&"], ["<<", ">>"], ["+", "-"],
          ["*", "/", "%"]]
ASSIGN_OPS = {"+=", "-=", "*=", "/=", "%=", "|=", "&=", "^=", "<<=", ">>="}
KEYWORDS = {"let", "mut", "fn", "while", "unsafe", "move", "as", "else", "in", "for", "ref", "continue", "struct",
            "impl", "use", "mod", "pub", "const", "static", "dyn", "where", "async", "await"}


class Parser:
    """statements / expressions of one function body (token range s..e of toks)"""

    def __init__(self, toks, s, e):
        self.toks = toks
        self.t = Toks(toks, s, e)

    def sub(self):
        s, e = self.t.skip_balanced()
        return Parser(self.toks, s, e)

    def block(self):
        """at `{`: the statements of the block"""
        return self.sub().block_body()

    def block_body(self):
        t, stmts = self.t, []
        while not t.eof():
            if t.peek() == ";":
                raise ShapeError("empty statement near `%s`" % t.near())
            if t.peek() == "const":
                t.eat("const")
                name = t.eat()
                t.eat(":")
                ty = self.type_until("=")
                t.eat("=")
                e = self.expr()
                t.eat(";")
                stmts.append(("const", name, ty, e))
                continue
            if t.peek() == "let":
                t.eat("let")
                mut = False
                if t.peek() == "mut":
                    t.eat("mut")
                    mut = True
                name = t.eat()
                if t.kind(-1) != "id" or name in KEYWORDS:
                    raise ShapeError("let pattern near `%s`" % t.near())
                ty = None
                if t.peek() == ":":
                    t.eat(":")
                    ty = self.type_until("=")
                t.eat("=")
                e = self.expr()
                t.eat(";")
                stmts.append(("let", mut, name, ty, e))
                continue
            e = self.expr()
            if t.eof():
                stmts.append(("tail", e))
            elif t.peek() == ";":
                t.eat(";")
                stmts.append(("expr", e))
            elif e[0] in ("if", "match", "loop", "block", "for"):
                stmts.append(("expr", e))
            else:
                raise ShapeError("statement not understood near `%s`" % t.near())
        return stmts

    def type_until(self, stop):
        t, ty, depth = self.t, [], 0
        while not (depth == 0 and t.peek() == stop):
            tok = t.eat()
            depth += DEPTH.get(tok, 0)
            ty.append(tok)
        return ty

    def expr(self, nostruct=False):
        t = self.t
        if t.peek() in ("return", "break"):
            kw = t.eat()
            if t.kind() == "life":
                raise ShapeError("labelled break")
            if t.eof() or t.peek() in (";", ",", "}"):
                return (kw, None)
            return (kw, self.expr(nostruct))
        if t.peek() in ("|", "||"):
            params = []
            if t.eat() == "|":
                while t.peek() != "|":
                    name = t.eat()
                    ty = None
                    if t.peek() == ":":
                        t.eat(":")
                        ty, depth = [], 0
                        while not (depth == 0 and t.peek() in (",", "|")):
                            tok = t.eat()
                            depth += DEPTH.get(tok, 0)
                            ty.append(tok)
                    params.append((name, ty))
                    if t.peek() == ",":
                        t.eat(",")
                t.eat("|")
            return ("closure", params, self.expr())
        e = self.binary(0, nostruct)
        if t.peek() == "=":
            t.eat("=")
            return ("assign", e, self.expr(nostruct))
        if t.peek() in ASSIGN_OPS:
            if t.peek() != "+=":
                raise ShapeError("compound assignment near `%s`" % t.near())
            t.eat("+=")
            return ("opassign", "+", e, self.expr(nostruct))
        if t.peek() in ("..", "..="):
            raise ShapeError("range expression near `%s`" % t.near())
        return e

    def binary(self, lvl, nostruct):
        if lvl == len(LEVELS):
            return self.cast(nostruct)
        e = self.binary(lvl + 1, nostruct)
        while self.t.peek() in LEVELS[lvl]:
            op = self.t.eat()
            r = self.binary(lvl + 1, nostruct)
            e = ("bin", op, e, r)
            if lvl == 2 and self.t.peek() in LEVELS[2]:
                raise ShapeError("chained comparison")
        return e

    def cast(self, nostruct):
        e = self.unary(nostruct)
        while self.t.peek() == "as":
            self.t.eat("as")
            ty = self.t.eat()
            if ty not in BITS:
                raise ShapeError("cast to %r" % ty)
            e = ("as", e, ty)
        return e

    def unary(self, nostruct):
        t = self.t
        if t.peek() == "&":
            t.eat("&")
            mut = False
            if t.peek() == "mut":
                t.eat("mut")
                mut = True
            return ("ref", mut, self.unary(nostruct))
        if t.peek() in ("!", "-", "*"):
            op = t.eat()
            return ("un", op, self.unary(nostruct))
        if t.peek() == "&&":
            raise ShapeError("&& in operand position")
        return self.postfix(nostruct)

    def args(self):
        p = self.sub()
        out = []
        while not p.t.eof():
            out.append(p.expr())
            if not p.t.eof():
                p.t.eat(",")
        return out

    def postfix(self, nostruct):
        t = self.t
        e = self.atom(nostruct)
        while True:
            if t.peek() == "?":
                t.eat("?")
                e = ("try", e)
            elif t.peek() == ".":
                t.eat(".")
                name = t.eat()
                if t.kind(-1) not in ("id", "num") or name in KEYWORDS:
                    raise ShapeError("field / method name %r" % name)
                tf = None
                if t.peek() == "::":
                    t.eat("::")
                    tf = t.skip_angles()
                if t.peek() == "(":
                    e = ("mcall", e, name, tf, self.args())
                elif tf is not None:
                    raise ShapeError("turbofish without a call")
                else:
                    e = ("field", e, name)
            elif t.peek() == "[":
                p = self.sub()
                lo = hi = None
                rng = False
                if p.t.peek() != "..":
                    lo = p.binary(0, False)
                if p.t.peek() == "..":
                    p.t.eat("..")
                    rng = True
                    if not p.t.eof():
                        hi = p.binary(0, False)
                if not p.t.eof():
                    raise ShapeError("index expression near `%s`" % p.t.near())
                e = ("index", e, ("range", lo, hi) if rng else lo)
            elif t.peek() == "(":
                raise ShapeError("call of a computed function near `%s`" % t.near())
            else:
                return e

    def atom(self, nostruct):
        t = self.t
        tok, kind = t.peek(), t.kind()
        if tok is None:
            raise ShapeError("expression expected near `%s`" % t.near())
        if tok == "(":
            p = self.sub()
            if p.t.eof():
                return ("unit",)
            e = p.expr()
            if not p.t.eof():
                raise ShapeError("tuple expression near `%s`" % p.t.near())
            return ("paren", e)
        if tok == "{":
            return ("block", self.block())
        if tok == "if":
            t.eat("if")
            if t.peek() == "let":
                raise ShapeError("if let")
            c = self.expr(nostruct=True)
            a = self.block()
            b = None
            if t.peek() == "else":
                t.eat("else")
                if t.peek() == "if":
                    b = [("tail", self.atom(nostruct))]
                else:
                    b = self.block()
            return ("if", c, a, b)
        if tok == "match":
            t.eat("match")
            s = self.expr(nostruct=True)
            p = self.sub()
            arms = []
            while not p.t.eof():
                pat = p.pattern()
                if p.t.peek() == "|":
                    raise ShapeError("or-pattern")
                if p.t.peek() == "if":
                    raise ShapeError("match guard")
                p.t.eat("=>")
                body = p.expr()
                if not p.t.eof():
                    if p.t.peek() == ",":
                        p.t.eat(",")
                    elif body[0] != "block":
                        raise ShapeError("match arm not followed by a comma")
                arms.append((pat, body))
            return ("match", s, arms)
        if tok == "loop":
            t.eat("loop")
            return ("loop", self.block())
        if tok == "for":
            t.eat("for")
            pat = t.eat()
            if t.kind(-1) != "id" or pat in KEYWORDS:
                raise ShapeError("for pattern near `%s`" % t.near())
            t.eat("in")
            lo = self.binary(0, True)
            t.eat("..")
            hi = self.binary(0, True)
            return ("for", pat, lo, hi, self.block())
        if kind == "life":
            raise ShapeError("labelled block / loop")
        if kind == "num":
            t.eat()
            v, suf = lit_value(tok)
            return ("lit", v, suf)
        if kind == "str":
            t.eat()
            return ("str",)
        if kind == "id":
            if tok in KEYWORDS:
                raise ShapeError("keyword %r in expression position near `%s`" % (tok, t.near()))
            segs = [t.eat()]
            while t.peek() == "::":
                if t.peek(1) == "<":
                    raise ShapeError("generic arguments in a path near `%s`" % t.near())
                t.eat("::")
                if t.kind() != "id":
                    raise ShapeError("path near `%s`" % t.near())
                segs.append(t.eat())
            if t.peek() == "!" and t.peek(1) in ("(", "[", "{"):
                t.eat("!")
                if t.peek() != "(":
                    raise ShapeError("macro %s! with other brackets" % segs[-1])
                return ("macro", "::".join(segs), self.args())
            if t.peek() == "(":
                return ("call", segs, self.args())
            if t.peek() == "{" and not nostruct and segs[-1][0].isupper():
                p = self.sub()
                fields = []
                while not p.t.eof():
                    if p.t.peek() == "..":
                        raise ShapeError("struct update syntax")
                    fname = p.t.eat()
                    if p.t.peek() == ":":
                        p.t.eat(":")
                        fields.append((fname, p.expr()))
                    else:
                        fields.append((fname, ("path", [fname])))
                    if not p.t.eof():
                        p.t.eat(",")
                return ("struct", segs, fields)
            return ("path", segs)
        raise ShapeError("unexpected token %r near `%s`" % (tok, t.near()))

    def pattern(self):
        t = self.t
        tok, kind = t.peek(), t.kind()
        if kind == "num":
            t.eat()
            if t.peek() in ("..", "..="):
                raise ShapeError("range pattern")
            return ("plit",) + lit_value(tok)
        if kind == "id":
            segs = [t.eat()]
            while t.peek() == "::":
                t.eat("::")
                segs.append(t.eat())
            if t.peek() in ("(", "{", "@"):
                raise ShapeError("pattern with sub-patterns near `%s`" % t.near())
            if segs == ["_"]:
                return ("pwild",)
            if len(segs) == 1 and re.fullmatch(r"[a-z_][a-z0-9_]*", segs[0]):
                return ("pbind", segs[0])
            return ("ppath", segs)
        raise ShapeError("pattern near `%s`" % t.near())


# ---------------------------------------------------------------------------------------------------- pins --
def squeeze(s):
    return re.sub(r"\s+", "", strip_comments(s))


def block_of(text, head):
    """the balanced {..} block that follows the first occurrence of head"""
    i = text.find(head)
    if i < 0:
        return ""
    i = text.find("{", i)
    depth = 0
    for j in range(i, len(text)):
        depth += {"{": 1, "}": -1}.get(text[j], 0)
        if depth == 0:
            return text[i:j + 1]
    return ""


def pins(repo, srcs):
    def rd(p):
        return squeeze(open(os.path.join(repo, p)).read())

    def need(text, pat, what):
        if not re.search(pat, text):
            raise ShapeError("pinned shape lost: %s" % what)

    # impl/src/bytes_io.rs: read_bytes_le is ONE read_exact of size_of::<T>() bytes, then from_le_bytes
    s = rd("impl/src/bytes_io.rs")
    a = "fnread_bytes_le<T>(&mutself)->io::Result<T>whereT:BytesConvertible,{T::read_bytes_le(self)}"
    b = ("fnread_bytes_le<R>(buf:&mutR)->io::Result<Self>whereR:io::Read,{letmuttmp=[0;std::mem::size_of::<$ty>()];"
         "buf.read_exact(&muttmp)?;Ok(<$ty>::from_le_bytes(tmp))}")
    if "impl<R>ReadBytesforRwhereR:io::Read,{" not in s or a not in s or s.count(b) != 1:
        raise ShapeError("impl/src/bytes_io.rs: read_bytes_le is no longer one read_exact of size_of::<T>() bytes "
                         "followed by from_le_bytes")
    m = re.search(r"impl_bytes_convertible!\{([a-z0-9,]*)\}", s)
    if not m or not {"u8", "u16", "u32", "u64"} <= set(m.group(1).split(",")):
        raise ShapeError("impl/src/bytes_io.rs: BytesConvertible is not implemented for u8/u16/u32/u64 by the macro")
    if not re.search(r"macro_rules!impl_bytes_convertible\{\(\$\(\$ty:ty,\)\*\)=>\{\$\(implBytesConvertiblefor\$ty\{", s):
        raise ShapeError("impl/src/bytes_io.rs: shape of the macro impl_bytes_convertible")
    # device: Result / Error / io::Error -> BufferIo / PixelFormat
    s = rd("device/src/u3v/mod.rs")
    need(s, r"pubtypeResult<T>=std::result::Result<T,Error>;", "u3v::Result<T> = Result<T, u3v::Error>")
    en = block_of(s, "pubenumError{")
    need(en, r"BufferIo\(#\[from\]std::io::Error\),", "u3v::Error::BufferIo(#[from] std::io::Error)")
    need(en, r"InvalidPacket\(", "u3v::Error::InvalidPacket")
    if len(re.findall(r"#\[from\]std::io::Error", s)) != 1 or re.search(r"implFrom<(std::)?io::Error>", s):
        raise ShapeError("device/src/u3v/mod.rs: more than one conversion from io::Error")
    need(rd("device/src/lib.rs"), r"pubusepixel_format::PixelFormat;", "cameleon_device::PixelFormat")
    need(rd("device/src/pixel_format.rs"), r"implTryFrom<u32>forPixelFormat\{typeError=String;",
         "impl TryFrom<u32> for PixelFormat with Error = String")
    u = "".join(srcs["stream"].uses).replace(" ", "")
    need(u, r"usecameleon_impl::bytes_io::ReadBytes;", "stream.rs: use cameleon_impl::bytes_io::ReadBytes")
    need(u, r"usecrate::\{u3v::\{Error,Result\},PixelFormat,?\};", "stream.rs: use crate::{u3v::{Error, Result}, PixelFormat}")
    need(u, r"usestd::\{convert::\{TryFrom,TryInto\},io::Cursor,time,?\};", "stream.rs: use std::{convert, io::Cursor, time}")
    if len(srcs["stream"].uses) != 3:
        raise ShapeError("stream.rs: other `use` items")
    # cameleon: StreamError / StreamResult / names of stream_handle.rs and payload.rs
    s = rd("cameleon/src/lib.rs")
    need(s, r"pubtypeStreamResult<T>=std::result::Result<T,StreamError>;", "StreamResult<T> = Result<T, StreamError>")
    need(block_of(s, "pubenumStreamError{"), r"InvalidPayload\(", "StreamError::InvalidPayload")
    us = " ".join(srcs["handle"].uses)
    u = us.replace(" ", "")
    need(u, r"usecameleon_device::u3v::\{[^;]*protocol::streamasu3v_stream[,}]", "stream_handle.rs: protocol::stream as u3v_stream")
    need(u, r"usecrate::\{[^;]*payload::\{ImageInfo,Payload,PayloadSender,PayloadType\},[^;]*StreamError,StreamResult,?\};",
         "stream_handle.rs: use crate::{payload::{ImageInfo, Payload, PayloadSender, PayloadType}, StreamError, StreamResult}")
    need(u, r"usestd::\{convert::(TryInto|\{(\w+,)*TryInto(,\w+)*,?\}),", "stream_handle.rs: use std::convert::TryInto")
    for n in ("ImageInfo", "Payload", "PayloadType", "StreamError", "StreamResult", "u3v_stream"):
        if len(re.findall(r"(?<![A-Za-z0-9_])%s(?![A-Za-z0-9_])" % n, us)) != 1:
            raise ShapeError("stream_handle.rs: the name %s is imported more than once" % n)
    u = "".join(srcs["payload"].uses).replace(" ", "")
    need(u, r"usecameleon_device::PixelFormat;", "payload.rs: pub use cameleon_device::PixelFormat")
    need(u, r"usestd::time;", "payload.rs: use std::time")


# --------------------------------------------------------------------------------------------------- types --
def show(ty):
    if isinstance(ty, tuple):
        return "%s(%s)" % (ty[0], ", ".join(show(x) if isinstance(x, (tuple, str)) else str(x) for x in ty[1:]))
    return str(ty)


PIXEL = ("enum", "pixel", "PixelFormat")


def coq_type(ty):
    if ty in BITS or ty == "duration" or (isinstance(ty, tuple) and ty[0] == "enum"):
        return "Z"
    if ty == "bool":
        return "bool"
    if ty == "unit":
        return "unit"
    if ty == "bytes" or (isinstance(ty, tuple) and ty[0] == "array"):
        return "(list Z)"
    if ty == "cursor":
        return "cursor"
    if ty == "pool":
        return "pool"
    if ty == "mutbuf":
        return "Z"
    if isinstance(ty, tuple) and ty[0] == "iter":
        return "(list %s)" % coq_type(ty[1])
    if isinstance(ty, tuple) and ty[0] == "struct":
        return "src_" + ty[2]
    if isinstance(ty, tuple) and ty[0] == "option":
        return "(option %s)" % coq_type(ty[1])
    if isinstance(ty, tuple) and ty[0] == "tvar":
        return ty[1]
    raise ShapeError("no Gallina type for %s" % show(ty))


class Val:
    def __init__(self, binds, term, ty, upd=None):
        self.binds, self.term, self.ty, self.upd = binds, term, ty, upd


class Sig:
    def __init__(self, coq, params, ret, mode, fuel, inout, dicts, oracle=False):
        self.coq, self.params, self.ret, self.mode = coq, params, ret, mode
        self.fuel, self.inout, self.dicts, self.oracle = fuel, inout, dicts, oracle


class Cx:
    def __init__(self, mod, f):
        self.mod, self.f, self.owner = mod, f, f.owner
        self.env = {}
        self.ret = None
        self.inout = []
        self.hints = {}
        self.tvars = {}
        self.consts = {}
        self.loop = None
        self.fieldov = {}
        self.used = None
        self.fuelbox = [False]
        self.oraclebox = [False]
        self.mut_self = False
        self.n = [0]
        self.coq = None

    def fresh(self):
        self.n[0] += 1
        return "t%d_" % self.n[0]

    def copy(self):
        c = Cx(self.mod, self.f)
        c.__dict__.update(self.__dict__)
        c.env = dict(self.env)
        c.fieldov = dict(self.fieldov)
        return c


def render(binds, tail):
    out = tail
    for b in reversed(binds):
        if b[0] == "opt":
            out = "match %s with Some %s => %s | None => Ok None end" % (b[2], b[1], out)
        else:
            out = "%s %s := %s in\n  %s" % (b[0], b[1], b[2], out)
    return out


def walk(ast, fn):
    if isinstance(ast, tuple):
        fn(ast)
        for x in ast:
            walk(x, fn)
    elif isinstance(ast, list):
        for x in ast:
            walk(x, fn)


def strip_paren(e):
    while e[0] == "paren":
        e = e[1]
    return e


# ------------------------------------------------------------------------------------------------ compiler --
class Compiler:
    def __init__(self, srcs, pixel_variants):
        self.srcs = srcs
        self.pixel_variants = pixel_variants
        self.sigs = {}            # (mod, owner, trait, name) -> Sig
        self.busy = set()
        self.out = []             # definitions in dependency order
        self.names = []
        self.records = {}         # struct name -> mod
        self.coq_names = set()

    # ---- names and types ----
    def resolve(self, mod, segs):
        """a type path -> (module, name)"""
        if mod == "handle" and segs[0] == "u3v_stream" and len(segs) == 2:
            return ("stream", segs[1])
        if len(segs) != 1:
            raise ShapeError("type path %s in %s" % ("::".join(segs), FILES[mod]))
        n = segs[0]
        if n == "PixelFormat" and mod in ("stream", "payload"):
            return ("pixel", n)
        if mod == "handle" and n in ("ImageInfo", "Payload", "PayloadType"):
            return ("payload", n)
        src = self.srcs[mod]
        if n in src.structs or n in src.enums or n in src.trait_methods:
            return (mod, n)
        raise ShapeError("unknown type %s in %s" % (n, FILES[mod]))

    def named_type(self, mod, segs):
        m, n = self.resolve(mod, segs)
        if m == "pixel":
            return PIXEL
        src = self.srcs[m]
        if n in src.structs:
            self.need_struct(m, n)
            return ("struct", m, n)
        if n in src.enums:
            self.enum_numbers(m, n)
            return ("enum", m, n)
        raise ShapeError("%s is not a struct or an enum" % n)

    def enum_numbers(self, m, n):
        if (m, n) == ("pixel", "PixelFormat"):
            return self.pixel_variants
        vs = self.srcs[m].enums.get(n)
        want = NUMBERING.get((m, n))
        if vs is None or want is None or sorted(vs) != sorted(want):
            raise ShapeError("enum %s of %s has variants %r, the numbering convention knows %r" % (n, FILES[m], vs, want))
        return {v: i for i, v in enumerate(want)}

    def parse_type(self, toks, mod, owner, tvars=()):
        toks = [x for x in toks if not x.startswith("'")]
        s = "".join(toks).replace("<>", "")
        if s in BITS or s == "bool":
            return s
        if s == "()":
            return "unit"
        if s in ("&[u8]", "[u8]", "Vec<u8>", "&(implAsRef<[u8]>+?Sized)"):
            return "bytes"
        if s == "&mutCursor<&[u8]>":
            return ("mutref", "cursor")
        if s == "time::Duration":
            return "duration"
        if s == "String":
            return "string"
        if s in tvars:
            return ("tvar", s)
        if s == "Self":
            if owner is None:
                raise ShapeError("Self outside an impl")
            return self.named_type(mod, [owner])
        m = re.fullmatch(r"(Result|StreamResult)<(.*)>", s)
        if m:
            if (m.group(1), mod) not in (("Result", "stream"), ("StreamResult", "handle"), ("StreamResult", "payload")):
                raise ShapeError("%s in %s" % (m.group(1), FILES[mod]))
            inner = self.parse_type(tokenize(m.group(2)) and [x[1] for x in tokenize(m.group(2))], mod, owner, tvars)
            return ("result", inner, "dev" if m.group(1) == "Result" else "strm")
        m = re.fullmatch(r"Option<&?(.*)>", s)
        if m:
            return ("option", self.parse_type([x[1] for x in tokenize(m.group(1))], mod, owner, tvars))
        if re.fullmatch(r"[A-Za-z_][A-Za-z0-9_]*(::[A-Za-z_][A-Za-z0-9_]*)*", s):
            return self.named_type(mod, s.split("::"))
        raise ShapeError("type `%s` in %s" % (" ".join(toks), FILES[mod]))

    def fields(self, m, n):
        return [(f, self.parse_type(ty, m, n)) for f, ty in self.srcs[m].structs[n]]

    def need_struct(self, m, n):
        if n in self.records:
            if self.records[n] != m:
                raise ShapeError("two structs named %s" % n)
            return
        self.records[n] = m
        fs = self.fields(m, n)
        if not fs:
            raise ShapeError("struct %s has no fields" % n)
        self.out.append("Record src_%s := { %s }." % (n, "; ".join("%s_%s : %s" % (n, f, coq_type(t)) for f, t in fs)))

    def claim(self, name):
        if name in self.coq_names:
            raise ShapeError("two definitions would be called %s" % name)
        self.coq_names.add(name)
        return name

    # ---- functions ----
    def find_fn(self, mod, owner, trait, name):
        fs = self.srcs[mod].fns.get((owner, trait, name), [])
        if len(fs) != 1:
            raise ShapeError("%d definitions of %s%s::%s in %s" % (len(fs), owner or "", (" as " + trait) if trait else "",
                                                                    name, FILES[mod]))
        return fs[0]

    def method_of(self, mod, owner, name):
        """the inherent method `name` of the type: exactly one definition among all impls without a trait"""
        keys = [k for k in self.srcs[mod].fns if k[0] == owner and k[2] == name]
        if len(keys) != 1 or keys[0][1] is not None:
            raise ShapeError("method %s::%s: %d candidates" % (owner, name, len(keys)))
        return keys[0]

    def trait_dict(self, mod, trait_segs):
        tm, tn = self.resolve(mod, trait_segs)
        ms = self.srcs[tm].trait_methods.get(tn)
        if not ms:
            raise ShapeError("trait %s" % tn)
        out = []
        for f in ms:
            if f.body is not None or f.generics:
                raise ShapeError("trait %s: provided / generic method %s" % (tn, f.name))
            if [p for p in f.params] != [["buf", ":", "&", "[", "u8", "]"]] or f.ret != ["Result", "<", "Self", ">"] \
                    or f.where not in ([], ["Self", ":", "Sized"]):
                raise ShapeError("trait %s: the signature of %s is not fn(buf: &[u8]) -> Result<Self>" % (tn, f.name))
            out.append(f.name)
        return tm, tn, out

    def sig(self, mod, owner, trait, name):
        key = (mod, owner, trait, name)
        if key in self.sigs:
            return self.sigs[key]
        if key in self.busy:
            raise ShapeError("recursive function %s" % name)
        self.busy.add(key)
        s = self.compile_fn(mod, self.find_fn(mod, owner, trait, name))
        self.busy.discard(key)
        self.sigs[key] = s
        return s

    def compile_fn(self, mod, f):
        if f.body is None:
            raise ShapeError("%s has no body" % f.label())
        cx = Cx(mod, f)
        cx.coq = self.claim("src_%s_%s" % (f.owner, f.name) if f.owner else "src_fn_%s" % f.name)
        dicts, dict_params = [], []
        if f.generics:
            g = f.generics
            if len(g) < 3 or g[1] != ":" or "," in g or f.where:
                raise ShapeError("generics of %s" % f.label())
            tm, tn, ms = self.trait_dict(mod, [x for x in g[2:] if x != "::"])
            cx.tvars[g[0]] = (tm, tn, {m: "%s_%s" % (g[0], m) for m in ms})
            dicts.append((g[0], tm, tn, ms))
            dict_params = ["{%s : Type}" % g[0]] + ["(%s_%s : list Z -> outcome %s)" % (g[0], m, g[0]) for m in ms]
        elif f.where:
            raise ShapeError("where clause on %s" % f.label())
        params, coq_params, inout = [], [], []
        mut_self = False
        for p in f.params:
            p = [x for x in p if not x.startswith("'")]
            if p in (["&", "self"], ["self"], ["mut", "self"]):
                if f.owner is None:
                    raise ShapeError("self outside an impl")
                ty = self.named_type(mod, [f.owner])
                if ty[0] != "struct":
                    raise ShapeError("method of the non-struct %s" % f.owner)
                cx.env["self"] = ("self", ty, False)
                mut_self = p[0] == "mut"
                params.append(("self", ty))
                coq_params.append("(self : %s)" % coq_type(ty))
                continue
            mut = False
            if p and p[0] == "mut":
                mut, p = True, p[1:]
            if len(p) < 3 or p[1] != ":" or not re.fullmatch(r"[a-z_][a-z0-9_]*", p[0]):
                raise ShapeError("parameter `%s` of %s" % (" ".join(p), f.label()))
            ty = self.parse_type(p[2:], mod, f.owner, cx.tvars)
            if isinstance(ty, tuple) and ty[0] == "mutref":
                ty, mut = ty[1], True
                inout.append(p[0])
            elif "mut" in p[2:] and ty != "mutbuf":
                raise ShapeError("&mut parameter of %s" % f.label())
            if mut and ty not in ("bytes", "cursor", "pool"):
                raise ShapeError("mutable parameter %s of %s" % (p[0], f.label()))
            cx.env[p[0]] = ("v_" + p[0], ty, mut)
            params.append((p[0], ty))
            coq_params.append("(v_%s : %s)" % (p[0], coq_type(ty)))
        if len(inout) > 1:
            raise ShapeError("more than one &mut parameter")
        cx.inout = inout
        cx.mut_self = mut_self
        cx.ret = self.parse_type(f.ret, mod, f.owner, cx.tvars) if f.ret is not None else "unit"
        s, e = f.body
        body = Parser(self.srcs[mod].toks, s, e).block_body()
        self.hints(body, cx)
        is_res = isinstance(cx.ret, tuple) and cx.ret[0] == "result"
        val_ty = cx.ret[1] if is_res else cx.ret
        # a pure function: one expression without effects
        if not is_res and not inout and len(body) == 1 and body[0][0] == "tail" and \
                strip_paren(body[0][1])[0] not in ("if", "match", "block", "loop"):
            v = self.cexpr(body[0][1], cx, val_ty)
            if not v.binds and v.upd is None:
                self.check_ty(v.ty, val_ty, "result of %s" % f.label())
                self.emit(cx.coq, dict_params + coq_params, coq_type(val_ty), v.term)
                return Sig(cx.coq, params, cx.ret, "pure", False, [], dicts)
        term = self.cblock(body, cx)
        rt = coq_type(val_ty)
        if inout:
            rt = "(%s * %s)" % (rt, " * ".join(coq_type(cx.env[n][1]) for n in inout))
        if cx.oraclebox[0]:
            coq_params = ["(res : Z -> option Z)"] + coq_params
        if cx.fuelbox[0]:
            coq_params = ["(fuel : nat)"] + coq_params
        self.emit(cx.coq, dict_params + coq_params, "outcome %s" % rt, term)
        return Sig(cx.coq, params, cx.ret, "outcome", cx.fuelbox[0], inout, dicts, cx.oraclebox[0])

    def emit(self, name, params, rty, term):
        self.out.append("Definition %s %s: %s :=\n  %s." % (name, "".join(p + " " for p in params), rty, term))
        self.names.append(name)

    def hints(self, body, cx):
        """the type of `let x = <read>` from the struct literal x ends up in"""
        def visit(node):
            if node and node[0] == "struct":
                try:
                    ty = self.struct_type(node[1], cx)
                except ShapeError:
                    return
                fts = dict(self.fields(ty[1], ty[2]))
                for fname, e in node[2]:
                    e = strip_paren(e)
                    if e[0] == "path" and len(e[1]) == 1 and fname in fts:
                        if cx.hints.get(e[1][0], fts[fname]) != fts[fname]:
                            raise ShapeError("the local %s is used at two types" % e[1][0])
                        cx.hints[e[1][0]] = fts[fname]
        walk(body, visit)

    def struct_type(self, segs, cx):
        if segs == ["Self"]:
            ty = self.named_type(cx.mod, [cx.owner])
        else:
            ty = self.named_type(cx.mod, segs)
        if ty[0] != "struct":
            raise ShapeError("struct literal of %s" % "::".join(segs))
        return ty

    def check_ty(self, got, want, what):
        if got != want:
            raise ShapeError("%s has type %s, not %s" % (what, show(got), show(want)))

    # ---- statements ----
    def ok(self, cx, term):
        if cx.loop is not None:
            raise ShapeError("function result inside a loop body")
        if cx.inout:
            return "Ok (%s, %s)" % (term, ", ".join(cx.env[n][0] for n in cx.inout))
        return "Ok %s" % term

    def diverges(self, stmts):
        return bool(stmts) and stmts[-1][0] in ("expr", "tail") and stmts[-1][1][0] in ("return", "break")

    def cblock(self, stmts, cx, i=0):
        if i == len(stmts):
            if cx.loop is not None:
                return "Ok (Continue %s)" % cx.env[cx.loop["var"]][0]
            is_res = isinstance(cx.ret, tuple) and cx.ret[0] == "result"
            if (cx.ret[1] if is_res else cx.ret) == "unit" and not is_res:
                return self.ok(cx, "tt")
            raise ShapeError("%s: block without a value" % cx.f.label())
        st = stmts[i]
        if st[0] == "const":
            ty = self.parse_type(st[2], cx.mod, cx.owner)
            e = strip_paren(st[3])
            if e[0] != "lit" or ty not in BITS or (e[2] is not None and e[2] != ty) or not 0 <= e[1] < 2 ** BITS[ty]:
                raise ShapeError("local constant %s" % st[1])
            name = self.claim("%s_%s" % (cx.coq, st[1]))
            self.emit(name, [], "Z", str(e[1]))
            cx.consts[st[1]] = (name, ty)
            return self.cblock(stmts, cx, i + 1)
        if st[0] == "let":
            _, mut, name, ann, e = st
            ann_ty = self.parse_type(ann, cx.mod, cx.owner, cx.tvars) if ann is not None else None
            if strip_paren(e)[0] == "loop":
                v = self.cloop(strip_paren(e), cx)
            else:
                v = self.cexpr(e, cx, ann_ty if ann_ty is not None else cx.hints.get(name))
            if v.upd is not None or (isinstance(v.ty, tuple) and v.ty[0] in ("result", "error")) or v.ty == "unit":
                raise ShapeError("let %s = a value of type %s" % (name, show(v.ty)))
            if ann_ty is not None:
                self.check_ty(v.ty, ann_ty, "let %s" % name)
            binds = list(v.binds)
            if name != "_" and v.ty != "string":
                if mut and v.ty not in BITS and v.ty != "cursor":
                    raise ShapeError("let mut %s of type %s" % (name, show(v.ty)))
                cv = "v_" + name
                if v.term != cv:
                    binds.append(("let", cv, v.term))
                cx.env[name] = (cv, v.ty, mut)
            elif name != "_":
                cx.env[name] = ("", "string", False)
            return render(binds, self.cblock(stmts, cx, i + 1))
        e = strip_paren(st[1])
        last = i == len(stmts) - 1
        if e[0] == "return":
            if not last or e[1] is None or cx.loop is not None:
                raise ShapeError("%s: `return` %s" % (cx.f.label(), "inside a loop body" if cx.loop else "in the middle"))
            return self.ctail(e[1], cx)
        if e[0] == "break":
            if not last or e[1] is None or cx.loop is None:
                raise ShapeError("%s: `break` here" % cx.f.label())
            v = self.cexpr(e[1], cx, cx.loop.get("ty"))
            if v.upd or (isinstance(v.ty, tuple) and v.ty[0] in ("result", "error", "option")):
                raise ShapeError("break with a value of type %s" % show(v.ty))
            if cx.loop.get("ty", v.ty) != v.ty:
                raise ShapeError("breaks with values of two types")
            cx.loop["ty"] = v.ty
            return render(v.binds, "Ok (Break %s)" % v.term)
        if st[0] == "tail" and not (e[0] == "if" and e[3] is None):
            if cx.loop is not None:
                raise ShapeError("value at the end of a loop body")
            return self.ctail(e, cx)
        # expression statements
        if e[0] == "assign":
            place = strip_paren(e[1])
            if place[0] != "path" or len(place[1]) != 1 or place[1][0] not in cx.env or not cx.env[place[1][0]][2]:
                raise ShapeError("assignment to something other than a `let mut` local")
            cv, ty, _ = cx.env[place[1][0]]
            if ty not in BITS:
                raise ShapeError("assignment to a local of type %s" % show(ty))
            v = self.cexpr(e[2], cx, ty)
            if v.upd:
                raise ShapeError("assignment of a reader result")
            self.check_ty(v.ty, ty, "assigned value")
            return render(v.binds + [("let", cv, v.term)], self.cblock(stmts, cx, i + 1))
        if e[0] == "if" and e[3] is None:
            c = self.cexpr(e[1], cx, "bool")
            self.check_ty(c.ty, "bool", "condition")
            if not self.diverges(e[2]):
                raise ShapeError("`if` statement whose body does not end with return / break")
            a = self.cblock(e[2], cx.copy())
            rest = self.cblock(stmts, cx, i + 1)
            return render(c.binds, "if %s then (%s) else (%s)" % (c.term, a, rest))
        if e[0] == "mcall" and e[2] == "resize":
            recv = strip_paren(e[1])
            if not (cx.mut_self and recv[0] == "field" and strip_paren(recv[1]) == ("path", ["self"]) and len(e[4]) == 2
                    and e[3] is None):
                raise ShapeError("resize of something other than a field of `mut self`")
            old = self.cexpr(recv, cx)
            self.check_ty(old.ty, "bytes", "resized value")
            n = self.cexpr(e[4][0], cx, "usize")
            self.check_ty(n.ty, "usize", "new length")
            fill = strip_paren(e[4][1])
            if fill[0] != "lit" or fill[2] not in (None, "u8") or not 0 <= fill[1] < 256:
                raise ShapeError("fill value of resize")
            nv = "self_%s_" % recv[2]
            cx.fieldov[recv[2]] = nv
            return render(old.binds + n.binds + [("let", nv, "vec_resize %s %s %d" % (old.term, n.term, fill[1]))],
                          self.cblock(stmts, cx, i + 1))
        if e[0] == "try":
            v = self.cexpr(e, cx, "unit")
            self.check_ty(v.ty, "unit", "expression statement")
            return render(v.binds, self.cblock(stmts, cx, i + 1))
        raise ShapeError("%s: statement `%s`" % (cx.f.label(), e[0]))

    def ctail(self, e, cx):
        e = strip_paren(e)
        is_res = isinstance(cx.ret, tuple) and cx.ret[0] == "result"
        if e[0] == "block":
            return self.cblock(e[1], cx.copy())
        if e[0] == "if":
            if e[3] is None:
                raise ShapeError("`if` without else as a value")
            c = self.cexpr(e[1], cx, "bool")
            self.check_ty(c.ty, "bool", "condition")
            return render(c.binds, "if %s then (%s) else (%s)" % (c.term, self.cblock(e[2], cx.copy()),
                                                                   self.cblock(e[3], cx.copy())))
        if e[0] == "match":
            return self.cmatch(e, cx)
        v = self.cexpr(e, cx, cx.ret[1] if is_res else cx.ret)
        if is_res:
            if not (isinstance(v.ty, tuple) and v.ty[0] == "result"):
                raise ShapeError("%s ends with a value of type %s" % (cx.f.label(), show(v.ty)))
            self.check_ty(v.ty, cx.ret, "result of %s" % cx.f.label())
            if v.upd is not None or (cx.inout and not getattr(v, "folded", False)):
                raise ShapeError("%s: result of a reader call returned as it is" % cx.f.label())
            return render(v.binds, v.term)
        if v.upd is not None:
            raise ShapeError("reader result as a value")
        self.check_ty(v.ty, cx.ret, "result of %s" % cx.f.label())
        return render(v.binds, self.ok(cx, v.term))

    def cmatch(self, e, cx):
        s = self.cexpr(e[1], cx)
        if s.upd:
            raise ShapeError("match on a reader result")
        if s.ty in BITS:
            kind = "int"
        elif isinstance(s.ty, tuple) and s.ty[0] == "enum" and s.ty != PIXEL:
            kind = "enum"
            numbers = self.enum_numbers(s.ty[1], s.ty[2])
        else:
            raise ShapeError("match on a value of type %s" % show(s.ty))
        sv = cx.fresh()
        arms, seen, closed = [], set(), False
        for pat, body in e[2]:
            if closed:
                raise ShapeError("unreachable match arm")
            bcx = cx.copy()
            if pat[0] == "pwild":
                cond, closed = None, True
            elif pat[0] == "pbind":
                bcx.env[pat[1]] = (sv, s.ty, False)
                cond, closed = None, True
            elif pat[0] == "plit" and kind == "int":
                if pat[2] not in (None, s.ty) or not 0 <= pat[1] < 2 ** BITS[s.ty] or pat[1] in seen:
                    raise ShapeError("literal pattern %d in a match on %s" % (pat[1], s.ty))
                seen.add(pat[1])
                cond = "%s =? %d" % (sv, pat[1])
            elif pat[0] == "ppath" and kind == "enum":
                ty, n = self.variant(pat[1], cx)
                if ty != s.ty or n in seen:
                    raise ShapeError("pattern %s in a match on %s" % ("::".join(pat[1]), show(s.ty)))
                seen.add(n)
                cond = "%s =? %d" % (sv, n)
                if seen == set(numbers.values()):
                    cond, closed = None, True
            else:
                raise ShapeError("pattern %r in a match on %s" % (pat, show(s.ty)))
            arms.append((cond, self.ctail(body, bcx)))
        if not closed:
            raise ShapeError("match is not seen to be exhaustive")
        code = arms[-1][1]
        for cond, b in reversed(arms[:-1]):
            code = "if %s then (%s) else (%s)" % (cond, b, code)
        return render(s.binds + [("let", sv, s.term)], code)

    def cloop(self, e, cx):
        assigned = []

        def visit(node):
            if node and node[0] == "assign":
                p = strip_paren(node[1])
                if p[0] == "path" and len(p[1]) == 1 and p[1][0] not in assigned:
                    assigned.append(p[1][0])
            if node and node[0] in ("loop", "closure") and node is not e:
                if node[0] == "loop":
                    raise ShapeError("nested loop")
        walk(e[1], visit)
        if len(assigned) != 1 or assigned[0] not in cx.env or not cx.env[assigned[0]][2] or cx.loop is not None:
            raise ShapeError("%s: a loop that does not mutate exactly one `let mut` local" % cx.f.label())
        var = assigned[0]
        cv, vty, _ = cx.env[var]
        bcx = cx.copy()
        bcx.loop = {"var": var}
        bcx.used = []
        body = self.cblock(e[1], bcx)
        if "ty" not in bcx.loop:
            raise ShapeError("loop without a break")
        free = []
        for n in bcx.used:
            if n != var and n in cx.env and n not in free:
                free.append(n)
        name = self.claim(cx.coq + "_loop")
        params = ["(%s : %s)" % (cx.env[n][0], coq_type(cx.env[n][1])) for n in free] + ["(%s : %s)" % (cv, coq_type(vty))]
        self.emit(name, params, "outcome (ctl %s %s)" % (coq_type(vty), coq_type(bcx.loop["ty"])), body)
        if cx.used is not None:
            cx.used.extend(free + [var])
        cx.fuelbox[0] = True
        r = cx.fresh()
        init = cx.env[var][0]
        del cx.env[var]           # the final value of the mutated local is not available after the loop
        return Val([("let?", r, "r_loop fuel (%s%s) %s" % (name, "".join(" " + cx.env[n][0] for n in free), init))],
                   r, bcx.loop["ty"])

    # ---- expressions ----
    def variant(self, segs, cx):
        """Enum::Variant -> (type, number)"""
        if len(segs) < 2:
            raise ShapeError("bare name %s used as an enum variant" % segs[0])
        ty = self.named_type(cx.mod, [cx.owner] if segs[:-1] == ["Self"] else segs[:-1])
        if ty[0] != "enum" or ty == PIXEL:
            raise ShapeError("%s is not a variant of a numbered enum" % "::".join(segs))
        numbers = self.enum_numbers(ty[1], ty[2])
        if segs[-1] not in numbers:
            raise ShapeError("unknown variant %s" % "::".join(segs))
        return ty, numbers[segs[-1]]

    def const(self, mod, owner, name):
        src = self.srcs[mod]
        if (owner, name) not in src.consts:
            raise ShapeError("constant %s::%s" % (owner, name))
        coq = "src_%s_%s" % (owner, name)
        tyt, (s, e) = src.consts[(owner, name)]
        ty = self.parse_type(tyt, mod, owner)
        if coq not in self.coq_names:
            ex = Parser(src.toks, s, e).expr()
            ex = strip_paren(ex)
            if ex[0] != "lit" or ty not in BITS or ex[2] not in (None, ty) or not 0 <= ex[1] < 2 ** BITS[ty]:
                raise ShapeError("constant %s::%s is not an integer literal of its type" % (owner, name))
            self.claim(coq)
            self.emit(coq, [], "Z", str(ex[1]))
        return Val([], coq, ty)

    def error_value(self, e, cx):
        """Error::InvalidPacket(<message>) / StreamError::InvalidPayload(<message>) -> (class, domain)"""
        e = strip_paren(e)
        while e[0] == "block" and len(e[1]) == 1 and e[1][0][0] == "tail":
            e = strip_paren(e[1][0][1])
        if e[0] != "call" or len(e[2]) != 1:
            raise ShapeError("error value `%s`" % e[0])
        dom = {("stream", "Error"): "dev", ("handle", "StreamError"): "strm"}.get((cx.mod, e[1][0])) if len(e[1]) == 2 else None
        if dom is None or (dom, e[1][1]) not in ERR_CLASS:
            raise ShapeError("error constructor %s in %s" % ("::".join(e[1]), FILES[cx.mod]))
        self.message(e[2][0], cx)
        return ERR_CLASS[(dom, e[1][1])], dom

    def message(self, e, cx):
        """the message of an error: opaque, but it must not do anything"""
        v = self.cexpr(e, cx, "string")
        if v.binds or v.upd or v.ty != "string":
            raise ShapeError("error message of type %s" % show(v.ty))

    def cexpr(self, e, cx, want=None):
        k = e[0]
        if k == "paren":
            return self.cexpr(e[1], cx, want)
        if k == "unit":
            return Val([], "tt", "unit")
        if k == "lit":
            ty = e[2] or want
            if ty not in BITS or not 0 <= e[1] < 2 ** BITS[ty]:
                raise ShapeError("literal %d at type %s" % (e[1], show(ty)))
            return Val([], str(e[1]), ty)
        if k == "str":
            return Val([], "", "string")
        if k == "macro":
            if e[1] != "format" or not e[2] or e[2][0][0] != "str":
                raise ShapeError("macro %s!" % e[1])
            for a in e[2][1:]:
                v = self.cexpr(a, cx)
                if v.binds or v.upd:
                    raise ShapeError("format! argument with effects")
            return Val([], "", "string")
        if k == "path":
            segs = e[1]
            if len(segs) == 1:
                n = segs[0]
                if n in cx.env:
                    if cx.used is not None:
                        cx.used.append(n)
                    return Val([], cx.env[n][0], cx.env[n][1])
                if n in cx.consts:
                    return Val([], cx.consts[n][0], cx.consts[n][1])
                if n == "None" and isinstance(want, tuple) and want[0] == "option":
                    return Val([], "None", want)
                raise ShapeError("%s: unknown name %s" % (cx.f.label(), n))
            if len(segs) == 2:
                owner = cx.owner if segs[0] == "Self" else segs[0]
                if (owner, segs[1]) in self.srcs[cx.mod].consts and (segs[0] == "Self" or owner in self.srcs[cx.mod].structs
                                                                     or owner in self.srcs[cx.mod].enums):
                    return self.const(cx.mod, owner, segs[1])
            ty, n = self.variant(segs, cx)
            return Val([], str(n), ty)
        if k == "field":
            if strip_paren(e[1]) == ("path", ["self"]) and e[2] in cx.fieldov:
                r = self.cexpr(e[1], cx)
                fts = dict(self.fields(r.ty[1], r.ty[2]))
                return Val([], cx.fieldov[e[2]], fts[e[2]])
            r = self.cexpr(e[1], cx)
            if r.upd or not (isinstance(r.ty, tuple) and r.ty[0] == "struct"):
                raise ShapeError("field .%s of a value of type %s" % (e[2], show(r.ty)))
            if r.ty[1] != cx.mod and not (r.ty[1], cx.mod) in (("payload", "handle"),):
                raise ShapeError("field .%s of %s is private to %s" % (e[2], r.ty[2], FILES[r.ty[1]]))
            fts = dict(self.fields(r.ty[1], r.ty[2]))
            if e[2] not in fts:
                raise ShapeError("%s has no field %s" % (r.ty[2], e[2]))
            return Val(r.binds, "(%s_%s %s)" % (r.ty[2], e[2], r.term), fts[e[2]])
        if k == "ref":
            if e[1]:
                raise ShapeError("&mut outside an argument list")
            return self.cexpr(e[2], cx, want)
        if k == "index":
            r = self.cexpr(e[1], cx)
            if r.upd or r.ty != "bytes" or not (isinstance(e[2], tuple) and e[2][0] == "range"):
                raise ShapeError("indexing that is not a range of a byte slice")
            binds, ts = list(r.binds), []
            for b in (e[2][1], e[2][2]):
                if b is not None:
                    v = self.cexpr(b, cx, "usize")
                    self.check_ty(v.ty, "usize", "slice bound")
                    if v.upd:
                        raise ShapeError("reader result as a slice bound")
                    binds += v.binds
                    ts.append(v.term)
            if e[2][1] is None and e[2][2] is None:
                raise ShapeError("full range")
            fn = "sl_range" if len(ts) == 2 else "sl_from" if e[2][2] is None else "sl_to"
            x = cx.fresh()
            binds.append(("let?", x, "%s %s %s" % (fn, r.term, " ".join(ts))))
            return Val(binds, x, "bytes")
        if k == "as":
            v = self.cexpr(e[1], cx)
            if v.upd or v.ty not in BITS or strip_paren(e[1])[0] == "lit":
                raise ShapeError("cast of a value of type %s" % show(v.ty))
            return Val(v.binds, "(r_cast %d %s)" % (BITS[e[2]], v.term), e[2])
        if k == "un":
            if e[1] != "!":
                raise ShapeError("unary %s" % e[1])
            v = self.cexpr(e[2], cx, "bool")
            self.check_ty(v.ty, "bool", "operand of !")
            return Val(v.binds, "(negb %s)" % v.term, "bool")
        if k == "bin":
            return self.cbin(e, cx, want)
        if k == "struct":
            ty = self.struct_type(e[1], cx)
            if ty[1] != cx.mod and (ty[1], cx.mod) != ("payload", "handle"):
                raise ShapeError("struct literal of %s outside %s" % (ty[2], FILES[ty[1]]))
            fts = self.fields(ty[1], ty[2])
            given = dict(e[2])
            if len(given) != len(e[2]) or set(given) != {f for f, _ in fts}:
                raise ShapeError("struct literal of %s does not give every field once" % ty[2])
            binds, parts = [], []
            for fname, fx in e[2]:          # evaluated in the order written
                v = self.cexpr(fx, cx, dict(fts)[fname])
                if v.upd:
                    raise ShapeError("reader result as a field")
                self.check_ty(v.ty, dict(fts)[fname], "field %s of %s" % (fname, ty[2]))
                binds += v.binds
                parts.append("%s_%s := %s" % (ty[2], fname, v.term))
            return Val(binds, "{| %s |}" % "; ".join(parts), ty)
        if k == "call":
            return self.ccall(e, cx, want)
        if k == "mcall":
            return self.cmcall(e, cx, want)
        if k == "try":
            v = self.cexpr(e[1], cx, want)
            if isinstance(v.ty, tuple) and v.ty[0] == "result":
                fdom = cx.ret[2] if isinstance(cx.ret, tuple) and cx.ret[0] == "result" else None
                if not (v.ty[2] == fdom or (v.ty[2] == "io" and fdom == "dev")):
                    raise ShapeError("%s: `?` on an error of kind %s in a function with errors of kind %s"
                                     % (cx.f.label(), v.ty[2], fdom))
                if cx.loop is not None and cx.inout:
                    raise ShapeError("`?` inside a loop of a function with a &mut parameter")
                x = cx.fresh()
                if v.upd is not None:
                    return Val(v.binds + [("let?", "(%s, %s)" % (x, cx.env[v.upd][0]), v.term)], x, v.ty[1])
                return Val(v.binds + [("let?", x, v.term)], x, v.ty[1])
            if isinstance(v.ty, tuple) and v.ty[0] == "option" and not v.upd:
                if not (isinstance(cx.ret, tuple) and cx.ret[0] == "option") or cx.loop is not None or cx.inout:
                    raise ShapeError("`?` on an option in %s" % cx.f.label())
                x = cx.fresh()
                return Val(v.binds + [("opt", x, v.term)], x, v.ty[1])
            raise ShapeError("`?` on a value of type %s" % show(v.ty))
        if k == "block" and len(e[1]) == 1 and e[1][0][0] == "tail":
            return self.cexpr(e[1][0][1], cx, want)
        raise ShapeError("%s: expression `%s` in value position" % (cx.f.label(), k))

    def cbin(self, e, cx, want):
        op, l, r = e[1], e[2], e[3]
        if op in ("==", "!=", "<", ">", "<=", ">="):
            if strip_paren(l)[0] == "lit" and strip_paren(l)[2] is None:
                b = self.cexpr(r, cx)
                a = self.cexpr(l, cx, b.ty)
            else:
                a = self.cexpr(l, cx)
                b = self.cexpr(r, cx, a.ty)
            if a.upd or b.upd or a.ty != b.ty:
                raise ShapeError("comparison of %s with %s" % (show(a.ty), show(b.ty)))
            if not (a.ty in BITS or (op in ("==", "!=") and isinstance(a.ty, tuple) and a.ty[0] == "enum" and a.ty != PIXEL)):
                raise ShapeError("comparison at type %s" % show(a.ty))
            c = {"==": "(%s =? %s)", "!=": "(negb (%s =? %s))", "<": "(%s <? %s)", ">": "(%s >? %s)",
                 "<=": "(%s <=? %s)", ">=": "(%s >=? %s)"}[op] % (a.term, b.term)
            return Val(a.binds + b.binds, c, "bool")
        if op in ("+", "-", "*"):
            if strip_paren(l)[0] == "lit" and strip_paren(l)[2] is None:
                b = self.cexpr(r, cx, want)
                a = self.cexpr(l, cx, b.ty)
            else:
                a = self.cexpr(l, cx, want)
                b = self.cexpr(r, cx, a.ty)
            if a.upd or b.upd or a.ty != b.ty or a.ty not in BITS:
                raise ShapeError("operands of %s have types %s and %s" % (op, show(a.ty), show(b.ty)))
            x = cx.fresh()
            fn = {"+": "r_add", "-": "r_sub", "*": "r_mul"}[op]
            return Val(a.binds + b.binds + [("let?", x, "%s %d %s %s" % (fn, BITS[a.ty], a.term, b.term))], x, a.ty)
        raise ShapeError("operator %s" % op)

    # ---- calls ----
    def apply(self, sig, dict_terms, arg_vals, cx):
        if len(arg_vals) != len(sig.params):
            raise ShapeError("arity of %s" % sig.coq)
        binds, terms = [], []
        upd = None
        for (pn, pty), a in zip(sig.params, arg_vals):
            if isinstance(a, tuple) and a and a[0] == "inout":      # `&mut local`
                name = a[1]
                if pn not in sig.inout or name not in cx.env or not cx.env[name][2] or cx.env[name][1] != pty:
                    raise ShapeError("&mut argument of %s" % sig.coq)
                if cx.used is not None:
                    cx.used.append(name)
                upd = name
                terms.append(cx.env[name][0])
                continue
            if pn in sig.inout or a.upd:
                raise ShapeError("argument of %s" % sig.coq)
            self.check_ty(a.ty, pty, "argument %s of %s" % (pn, sig.coq))
            binds += a.binds
            terms.append(a.term)
        if sig.fuel:
            cx.fuelbox[0] = True
        if sig.oracle:
            cx.oraclebox[0] = True
        head = "%s%s%s%s%s" % (sig.coq, " fuel" if sig.fuel else "", " res" if sig.oracle else "",
                               "".join(" " + d for d in dict_terms), "".join(" " + t for t in terms))
        if sig.mode == "pure":
            return Val(binds, "(%s)" % head, sig.ret)
        if isinstance(sig.ret, tuple) and sig.ret[0] == "result":
            return Val(binds, head, sig.ret, upd)
        if upd is not None:
            raise ShapeError("call of %s" % sig.coq)
        x = cx.fresh()
        return Val(binds + [("let?", x, head)], x, sig.ret)

    def subst_ret(self, sig, actual):
        """the signature with its type variable replaced"""
        def sub(ty):
            if isinstance(ty, tuple) and ty[0] == "tvar":
                return actual
            if isinstance(ty, tuple):
                return tuple(sub(x) if isinstance(x, tuple) else x for x in ty)
            return ty
        return Sig(sig.coq, [(n, sub(t)) for n, t in sig.params], sub(sig.ret), sig.mode, sig.fuel, sig.inout, sig.dicts,
                   sig.oracle)

    def dict_terms(self, sig, actual, cx):
        """the trait methods of `actual` for the type variable of a generic function"""
        (tv, tm, tn, ms), = sig.dicts
        if isinstance(actual, tuple) and actual[0] == "tvar":
            if actual[1] not in cx.tvars or cx.tvars[actual[1]][:2] != (tm, tn):
                raise ShapeError("type variable %s does not implement %s" % (actual[1], tn))
            return [cx.tvars[actual[1]][2][m] for m in ms]
        if not (isinstance(actual, tuple) and actual[0] == "struct" and actual[1] == tm):
            raise ShapeError("%s instantiated at %s" % (sig.coq, show(actual)))
        out = []
        for m in ms:
            s = self.sig(tm, actual[2], tn, m)
            if s.mode != "outcome" or s.fuel or s.inout or s.dicts or s.params != [("buf", "bytes")] \
                    or s.ret != ("result", actual, "dev"):
                raise ShapeError("<%s as %s>::%s does not have the signature of the trait" % (actual[2], tn, m))
            out.append(s.coq)
        return out

    def args_of(self, args, sig, cx, skip=0):
        out = []
        for a, (pn, pty) in zip(args, sig.params[skip:]):
            a = strip_paren(a)
            if a[0] == "ref" and a[1]:
                inner = strip_paren(a[2])
                if inner[0] != "path" or len(inner[1]) != 1:
                    raise ShapeError("&mut of something other than a local")
                out.append(("inout", inner[1][0]))
            else:
                out.append(self.cexpr(a, cx, pty if not (isinstance(pty, tuple) and pty[0] == "tvar") else None))
        if len(args) != len(sig.params) - skip:
            raise ShapeError("arity of %s" % sig.coq)
        return out

    def call_fn(self, mod, key, recv, args, cx, want):
        """call of a translated function; recv: the value of self, or None"""
        sig = self.sig(mod, *key)
        dts = []
        if sig.dicts:
            if not (isinstance(sig.ret, tuple) and sig.ret[0] == "result" and sig.ret[1] == ("tvar", sig.dicts[0][0])):
                raise ShapeError("generic function %s" % sig.coq)
            if want is None or want in BITS:
                raise ShapeError("the type argument of %s is not given by the context" % sig.coq)
            dts = self.dict_terms(sig, want, cx)
            sig = self.subst_ret(sig, want)
        has_self = bool(sig.params) and sig.params[0][0] == "self"
        if has_self != (recv is not None):
            raise ShapeError("receiver of %s" % sig.coq)
        vals = ([recv] if recv is not None else []) + self.args_of(args, sig, cx, 1 if recv is not None else 0)
        return self.apply(sig, dts, vals, cx)

    def ccall(self, e, cx, want):
        segs, args = e[1], e[2]
        path = "::".join(segs)
        is_res = isinstance(cx.ret, tuple) and cx.ret[0] == "result"
        if path in ("Ok", "Err"):
            if not is_res or len(args) != 1:
                raise ShapeError("%s(..) in %s" % (path, cx.f.label()))
            if path == "Ok":
                v = self.cexpr(args[0], cx, cx.ret[1])
                if v.upd:
                    raise ShapeError("Ok of a reader result")
                self.check_ty(v.ty, cx.ret[1], "Ok(..)")
                r = Val(v.binds, self.ok(cx, v.term), cx.ret)
            else:
                cls, dom = self.error_value(args[0], cx)
                if dom != cx.ret[2]:
                    raise ShapeError("Err of kind %s in %s" % (dom, cx.f.label()))
                r = Val([], "Err %s" % cls, cx.ret)
            r.folded = True
            return r
        if path == "Some":
            if len(args) != 1:
                raise ShapeError("Some(..)")
            v = self.cexpr(args[0], cx, want[1] if isinstance(want, tuple) and want[0] == "option" else None)
            if v.upd or (isinstance(v.ty, tuple) and v.ty[0] in ("result", "error")):
                raise ShapeError("Some of a value of type %s" % show(v.ty))
            return Val(v.binds, "(Some %s)" % v.term, ("option", v.ty))
        if path == "Cursor::new" and cx.mod == "stream":
            v = self.cexpr(args[0], cx, "bytes") if len(args) == 1 else None
            if v is None or v.upd or v.ty != "bytes":
                raise ShapeError("Cursor::new of something other than a byte slice")
            return Val(v.binds, "(cur_new %s)" % v.term, "cursor")
        if path == "time::Duration::from_nanos" and cx.mod in ("stream", "payload"):
            v = self.cexpr(args[0], cx, "u64") if len(args) == 1 else None
            if v is None or v.upd or v.ty != "u64":
                raise ShapeError("Duration::from_nanos of something other than a u64")
            return Val(v.binds, v.term, "duration")
        if path == "u32::from_be_bytes":
            v = self.cexpr(args[0], cx, ("array", 4)) if len(args) == 1 else None
            if v is None or v.upd or v.ty != ("array", 4):
                raise ShapeError("u32::from_be_bytes of something other than a [u8; 4]")
            return Val(v.binds, "(of_be %s)" % v.term, "u32")
        if len(segs) == 2 and segs[0] in cx.tvars:
            tm, tn, ms = cx.tvars[segs[0]]
            if segs[1] not in ms or len(args) != 1:
                raise ShapeError("%s is not a method of %s" % (path, tn))
            v = self.cexpr(args[0], cx, "bytes")
            if v.upd or v.ty != "bytes":
                raise ShapeError("argument of %s" % path)
            return Val(v.binds, "%s %s" % (ms[segs[1]], v.term), ("result", ("tvar", segs[0]), "dev"))
        if len(segs) == 2:
            owner = cx.owner if segs[0] == "Self" else segs[0]
            src = self.srcs[cx.mod]
            if owner in src.structs or owner in src.enums:
                return self.call_fn(cx.mod, self.method_of(cx.mod, owner, segs[1]), None, args, cx, want)
        raise ShapeError("%s: call of %s" % (cx.f.label(), path))

    def cmcall(self, e, cx, want):
        _, recv_e, name, tf, args = e
        recv_e = strip_paren(recv_e)
        local = recv_e[1][0] if recv_e[0] == "path" and len(recv_e[1]) == 1 and recv_e[1][0] in cx.env else None
        if name == "read_bytes_le":
            if local is None or args or not cx.env[local][2] or cx.env[local][1] not in ("cursor", "bytes") or cx.mod != "stream":
                raise ShapeError("read_bytes_le on something other than a mutable cursor / slice local")
            ty = want
            if tf is not None:
                ty = "".join(tf)
                if want is not None and want in BITS and want != ty:
                    raise ShapeError("read_bytes_le::<%s> where a %s is expected" % (ty, want))
            if ty not in ("u8", "u16", "u32", "u64"):
                raise ShapeError("%s: the type read by read_bytes_le is not determined (%s)" % (cx.f.label(), show(ty)))
            if cx.used is not None:
                cx.used.append(local)
            fn = "cur_read_le" if cx.env[local][1] == "cursor" else "sl_read_le"
            return Val([], "%s %d %s" % (fn, BITS[ty] // 8, cx.env[local][0]), ("result", ty, "io"), local)
        if tf is not None:
            raise ShapeError("turbofish on .%s" % name)
        if name in ("map_err", "unwrap"):
            r = self.cexpr(recv_e, cx, want)
            if r.upd or not (isinstance(r.ty, tuple) and r.ty[0] == "result"):
                raise ShapeError(".%s on a value of type %s" % (name, show(r.ty)))
            if name == "unwrap":
                if args:
                    raise ShapeError("unwrap with arguments")
                x = cx.fresh()
                return Val(r.binds + [("let?", x, "r_unwrap (%s)" % r.term)], x, r.ty[1])
            c = strip_paren(args[0]) if len(args) == 1 else None
            if c is None or c[0] != "closure" or len(c[1]) != 1:
                raise ShapeError("map_err without a one-parameter closure")
            pn, pt = c[1][0]
            if pt is not None and not (pt == ["String"] and r.ty[2] == "string"):
                raise ShapeError("type of the closure parameter of map_err")
            bcx = cx.copy()
            bcx.env[pn] = ("", "string", False)      # the old error: only usable inside the message
            cls, dom = self.error_value(c[2], bcx)
            return Val(r.binds, "r_map_err %s (%s)" % (cls, r.term), ("result", r.ty[1], dom))
        if name == "into" and not args:
            r = self.cexpr(recv_e, cx)
            if r.ty != "string" or r.binds:
                raise ShapeError(".into() of a value of type %s" % show(r.ty))
            return Val([], "", "string")
        r = self.cexpr(recv_e, cx)
        if r.upd:
            raise ShapeError("method .%s on a reader result" % name)
        if r.ty == "cursor" and not args and name in ("get_ref", "position"):
            return Val(r.binds, "(c_data %s)" % r.term, "bytes") if name == "get_ref" else \
                Val(r.binds, "(c_pos %s)" % r.term, "u64")
        if r.ty == "bytes" and name == "as_ref" and not args:
            return r
        if r.ty == "bytes" and name == "try_into" and not args:
            if not (isinstance(want, tuple) and want[0] == "array"):
                raise ShapeError("try_into of a slice where no array type is expected")
            return Val(r.binds, "arr_try_into %d %s" % (want[1], r.term), ("result", want, "opaque"))
        if r.ty in BITS and name == "try_into" and not args:
            if want == PIXEL:
                if r.ty != "u32":
                    raise ShapeError("PixelFormat::try_from of a %s" % r.ty)
                return Val(r.binds, "pixel_try_from %s" % r.term, ("result", PIXEL, "string"))
            if isinstance(want, tuple) and want[0] == "enum" and want[1] == cx.mod:
                trait = "TryFrom<%s>" % r.ty
                if self.srcs[cx.mod].impl_types.get((want[2], trait), {}).get("Error") != ["Error"]:
                    raise ShapeError("impl %s for %s with Error = Error not found" % (trait, want[2]))
                sig = self.sig(cx.mod, want[2], trait, "try_from")
                return self.apply(sig, [], [r], cx)
            raise ShapeError("try_into of a %s into %s" % (r.ty, show(want)))
        if r.ty in BITS and name == "checked_sub" and len(args) == 1:
            b = self.cexpr(args[0], cx, r.ty)
            self.check_ty(b.ty, r.ty, "argument of checked_sub")
            return Val(r.binds + b.binds, "(r_checked_sub %s %s)" % (r.term, b.term), ("option", r.ty))
        if isinstance(r.ty, tuple) and r.ty[0] == "option" and name == "as_ref" and not args:
            return r
        if isinstance(r.ty, tuple) and r.ty[0] == "option" and name == "ok_or_else":
            c = strip_paren(args[0]) if len(args) == 1 else None
            if c is None or c[0] != "closure" or c[1]:
                raise ShapeError("ok_or_else without a parameterless closure")
            cls, dom = self.error_value(c[2], cx)
            return Val(r.binds, "r_ok_or %s %s" % (r.term, cls), ("result", r.ty[1], dom))
        if isinstance(r.ty, tuple) and r.ty[0] == "struct":
            return self.call_fn(r.ty[1], self.method_of(r.ty[1], r.ty[2], name), r, args, cx, want)
        raise ShapeError("%s: method .%s on a value of type %s" % (cx.f.label(), name, show(r.ty)))


# -------------------------------------------------------------------------------------------------- driver --
def load(repo):
    srcs = {}
    for mod, rel in FILES.items():
        text = strip_comments(open(os.path.join(repo, rel)).read())
        text = text.split("#[cfg(test)]")[0]
        srcs[mod] = Source(text)
    return srcs


def translate(repo):
    srcs = load(repo)
    pins(repo, srcs)
    c = Compiler(srcs, {})
    for mod, owner, trait, name in WANT:
        c.sig(mod, owner, trait, name)
    for mod, owner in GETTER_TYPES:
        for key in sorted(k for k in srcs[mod].fns if k[0] == owner and k[1] is None):
            c.sig(mod, *key)
    # every method of PayloadBuilder is translated (nothing else can build a Payload in stream_handle.rs)
    for key in sorted(k for k in srcs["handle"].fns if k[0] == "PayloadBuilder"):
        c.sig("handle", *key)
    # discipline: Payload / ImageInfo values are only built by PayloadBuilder
    for mod in ("handle", "payload"):
        src = srcs[mod]
        for key, fs in src.fns.items():
            for f in fs:
                if f.body is None or (mod == "handle" and f.owner == "PayloadBuilder"):
                    continue
                toks = [x[1] for x in src.toks[f.body[0]:f.body[1]]]
                for i, tok in enumerate(toks[:-1]):
                    if toks[i + 1] == "{" and tok in ("Payload", "ImageInfo", "PayloadBuilder", "Self") and \
                            (tok != "Self" or f.owner in ("Payload", "ImageInfo", "PayloadBuilder")) and \
                            not (mod == "handle" and tok == "PayloadBuilder" and f.owner == "StreamingLoop"):
                        raise ShapeError("%s of %s builds a %s with a struct literal" % (f.label(), FILES[mod], tok))
    return c


def render_file(c):
    o = ["(* GENERATED by tools/translate_streamparse.py from device/src/u3v/protocol/stream.rs (leader / trailer decoders),",
         "   cameleon/src/u3v/stream_handle.rs (PayloadBuilder) and cameleon/src/payload.rs (Payload views) - do not edit.",
         "   Cursor reads, slicing and loops have the meaning of model/RdOps.v; integer arithmetic has the debug-build",
         "   semantics of lib/RustInt.v.  PayloadType: Image 0, ImageExtendedChunk 1, Chunk 2; PayloadStatus: Success 0,",
         "   DataDiscarded 1, DataOverrun 2; a PixelFormat is its index in gen/PixelTable.v; a Duration is its nanoseconds. *)",
         "From Cam Require Import Outcome RustInt Bytes RdOps.", ""]
    for d in c.out:
        o.append(d)
        o.append("")
    o.append("#[global] Hint Unfold %s : srcsp." % " ".join(c.names))
    o.append("")
    return "\n".join(o)


def regenerate(repo=None, out=None):
    repo = repo or os.environ.get("VERIF_REPO", "/repo")
    out = out or OUT
    text = render_file(translate(repo))
    old = open(out).read() if os.path.exists(out) else None
    if old != text:
        with open(out, "w") as f:
            f.write(text)
        return True
    return False


if __name__ == "__main__":
    try:
        ch = regenerate(sys.argv[1] if len(sys.argv) > 1 else None, sys.argv[2] if len(sys.argv) > 2 else None)
    except (ShapeError, OSError) as e:
        print("translate_streamparse: ShapeError: %s" % e)
        sys.exit(3)
    print("gen/StreamParseSrc.v", "rewritten" if ch else "unchanged")
