#!/bin/sh
# usage: tools/seedpipe.sh <table> [id-regex]  -- table lines: id|seed_dir|worktree|place|demo|checks
# confirm each listed seed (tools/confirmseed.sh) and run the quick checks on it (tools/tryseed2.sh); logs in ${SEEDLOGS:-/var/tmp/seedG-logs}
mkdir -p ${SEEDLOGS:-/var/tmp/seedG-logs}
grep -E "^${2:-.}" "$1" | while IFS='|' read -r id sd wt place demo checks; do
  [ -n "$id" ] || continue
  /verif/tools/confirmseed.sh "$sd" "$id" "$wt" "$place" "$demo" > ${SEEDLOGS:-/var/tmp/seedG-logs}/$id.confirm 2>&1
  n=$(echo "$id" | tr -d '-')
  /verif/tools/tryseed2.sh "$sd/patch.diff" "s$n" $checks > ${SEEDLOGS:-/var/tmp/seedG-logs}/$id.try 2>&1
  echo "== $id: $(tail -1 ${SEEDLOGS:-/var/tmp/seedG-logs}/$id.confirm)"; grep -E "^RESULT|^VIOLATION" ${SEEDLOGS:-/var/tmp/seedG-logs}/$id.try | head -4
done
