#!/usr/bin/env python3
"""Translator for CODE (not a table): regenerates coq/theories/gen/EnableStreaming.v from the body of
`<ControlHandle as DeviceControl>::enable_streaming` in cameleon/src/u3v/control_handle.rs and from the Sirm accessors it
calls in cameleon/src/u3v/register_map.rs.

What is translated (a shallow embedding into Gallina over lib/RustInt.v, the debug-build semantics of Rust's integer
operations): every `let` of the size computation (the `align!` macro is expanded by the translator after its text has
been checked against the expected macro body), the registers the getters read and the registers the setters write, in
program order.  The generated function

    src_enable_streaming_writes payload_alignment required_leader_size required_payload_size required_trailer_size
      : outcome (list (Z * Z))

returns the (register offset, value) pairs of the six size-register writes in the order of the source.  proofs/P_C15s.v
proves that the hand-written model (model/Control.v compute_sizes, P_C15.six) computes exactly this, for every alignment
2^k (k < 32) and all register contents.

Accepted shapes only (anything else: ShapeError, exit 3):
   let N = unwrap_or_log!(sirm.GETTER(self));            GETTER's body must be `self.read_register(device, sirm::REG)`
   let N[: T] = EXPR;         EXPR ::= IDENT | CONST | LITERAL | (EXPR) | EXPR / EXPR | EXPR % EXPR | EXPR as T
                                       | align!(EXPR, T) | unwrap_or_log!((EXPR).try_into()) | if IDENT == 0 { EXPR } else { EXPR }
   unwrap_or_log!(sirm.SETTER(self, N));                 SETTER's body must be `self.write_register(device, sirm::REG, ARG)`
The disable-if-enabled prologue, the alignment read and the final enable_stream are checked to be where the model has
them (first / before the size computation / last)."""
import os
import re
import sys

VERIF = os.path.dirname(os.path.dirname(os.path.abspath(__file__)))


class ShapeError(Exception):
    pass


ALIGN_MACRO = """macro_rules! align { ($expr:expr, $ty: ty) => { unwrap_or_log!($expr .checked_add(payload_alignment as $ty - 1)
 .map(|size| size & !(payload_alignment as $ty - 1)) .ok_or_else(|| ControlError::InvalidDevice(
 "required size can't be aligned to the payload size alignment".into() ))) }; }"""

BITS = {"u8": 8, "u16": 16, "u32": 32, "u64": 64, "usize": 64}


def strip_comments(s):
    s = re.sub(r"/\*.*?\*/", "", s, flags=re.S)
    return re.sub(r"//[^\n]*", "", s)


def norm(s):
    return re.sub(r"\s+", "", s)


def block_after(src, start):
    """text between the brace at/after `start` and its matching brace"""
    i = src.index("{", start)
    depth = 0
    for j in range(i, len(src)):
        if src[j] == "{":
            depth += 1
        elif src[j] == "}":
            depth -= 1
            if depth == 0:
                return src[i + 1:j], j + 1
    raise ShapeError("unbalanced braces")


def split_statements(body):
    out, depth, cur = [], 0, ""
    for ch in body:
        if ch in "({[":
            depth += 1
        elif ch in ")}]":
            depth -= 1
        if ch == ";" and depth == 0:
            out.append(cur.strip())
            cur = ""
        else:
            cur += ch
    if cur.strip():
        out.append(cur.strip())
    return out


# ------------------------------------------------------------------ expressions --
TOK = re.compile(r"\s*(unwrap_or_log!|align!|\.try_into\(\)|==|[A-Za-z_][A-Za-z0-9_]*|\d[\d_]*|[(){}/%,*+\-])")


def tokenize(s):
    out, pos = [], 0
    s = s.strip()
    while pos < len(s):
        m = TOK.match(s, pos)
        if not m:
            raise ShapeError("cannot tokenize %r" % s[pos:pos + 40])
        out.append(m.group(1))
        pos = m.end()
    return out


class P:
    def __init__(self, toks, env, consts):
        self.t, self.i, self.env, self.consts = toks, 0, env, consts

    def peek(self):
        return self.t[self.i] if self.i < len(self.t) else None

    def eat(self, x=None):
        tok = self.peek()
        if tok is None or (x is not None and tok != x):
            raise ShapeError("expected %r, found %r in %r" % (x, tok, " ".join(self.t)))
        self.i += 1
        return tok

    # expr := 'if' IDENT '==' '0' '{' expr '}' 'else' '{' expr '}' | cast
    def expr(self):
        if self.peek() == "if":
            self.eat("if")
            v = self.eat()
            if v not in self.env:
                raise ShapeError("unknown variable %r in a condition" % v)
            self.eat("==")
            if self.eat() != "0":
                raise ShapeError("only `== 0` conditions are translated")
            self.eat("{")
            a = self.expr()
            self.eat("}")
            self.eat("else")
            self.eat("{")
            b = self.expr()
            self.eat("}")
            if a[1] != b[1]:
                raise ShapeError("branches of different types %r / %r" % (a[1], b[1]))
            return ("(if %s =? 0 then %s else %s)" % (v, a[0], b[0]), a[1])
        return self.cast()

    # cast := mul ('as' TYPE)*
    def cast(self):
        e = self.mul()
        while self.peek() == "as":
            self.eat("as")
            ty = self.eat()
            if ty not in BITS:
                raise ShapeError("cast to %r" % ty)
            e = ("(let? x_ := %s in Ok (r_cast %d x_))" % (e[0], BITS[ty]), ty)
        return e

    # mul := atomcast (('/' | '%') atomcast)*      (operands of / and % bind tighter than `as` in Rust: `a / b as u64`
    #                                                parses as a / (b as u64))
    def mul(self):
        e = self.atomcast()
        while self.peek() in ("/", "%"):
            op = self.eat()
            r = self.atomcast()
            ty = self.unify(e[1], r[1])
            e = ("(let? x_ := %s in let? y_ := %s in %s x_ y_)" % (e[0], r[0], "r_div" if op == "/" else "r_rem"), ty)
        return e

    def atomcast(self):
        e = self.atom()
        while self.peek() == "as":
            self.eat("as")
            ty = self.eat()
            if ty not in BITS:
                raise ShapeError("cast to %r" % ty)
            e = ("(let? x_ := %s in Ok (r_cast %d x_))" % (e[0], BITS[ty]), ty)
        return e

    def unify(self, a, b):
        if a == "lit":
            return b
        if b == "lit" or a == b:
            return a
        raise ShapeError("operands of different types %r and %r" % (a, b))

    def atom(self):
        tok = self.eat()
        if tok == "(":
            e = self.expr()
            self.eat(")")
            if self.peek() == ".try_into()":
                raise ShapeError(".try_into() outside unwrap_or_log!")
            return e
        if tok == "align!":
            self.eat("(")
            e = self.expr()
            self.eat(",")
            ty = self.eat()
            self.eat(")")
            if ty not in ("u32", "u64"):
                raise ShapeError("align! at type %r" % ty)
            w = BITS[ty]
            self.unify(e[1], ty)
            # expansion of the (checked) macro text; `payload_alignment as T - 1` is evaluated twice in the source
            code = ("(let? x_ := %s in let? m_ := r_sub %d (r_cast %d payload_alignment) 1 in "
                    "let? m2_ := r_sub %d (r_cast %d payload_alignment) 1 in "
                    "r_ok_or (option_map (fun size => r_and size (r_not %d m2_)) (r_checked_add %d x_ m_)) CE_INVALID_DEVICE)"
                    % (e[0], w, w, w, w, w, w))
            return (code, ty)
        if tok == "unwrap_or_log!":
            self.eat("(")
            self.eat("(")
            e = self.expr()
            self.eat(")")
            self.eat(".try_into()")
            self.eat(")")
            return ("TRYINTO:" + e[0], "tryinto:" + e[1])
        if re.fullmatch(r"\d[\d_]*", tok):
            return ("(Ok %d)" % int(tok.replace("_", "")), "lit")
        if tok in self.env:
            return ("(Ok %s)" % tok, self.env[tok])
        if tok in self.consts:
            return ("(Ok %d)" % self.consts[tok][0], self.consts[tok][1])
        raise ShapeError("unknown identifier %r" % tok)


def const_value(src, name):
    m = re.search(r"const %s\s*:\s*(\w+)\s*=\s*([^;]+);" % name, src)
    if not m:
        raise ShapeError("const %s not found" % name)
    expr = m.group(2).replace("_", "")
    if not re.fullmatch(r"[\d\s*+]+", expr):
        raise ShapeError("const %s = %r is not a product / sum of literals" % (name, expr))
    return eval(expr), m.group(1)


def accessors(rm):
    """Sirm accessors: name -> ('r'|'w', REGISTER, type)"""
    i = rm.index("impl Sirm")
    body, _ = block_after(rm, i)
    out = {}
    for m in re.finditer(r"pub fn (\w+)<Ctrl: DeviceControl \+ \?Sized>\(\s*&?self,\s*device: &mut Ctrl,\s*(?:(\w+): (\w+),\s*)?\)"
                         r"\s*->\s*ControlResult<([\w()]+)>\s*\{", body):
        fb, _ = block_after(body, m.end() - 1)
        name, arg, argty, ret = m.group(1), m.group(2), m.group(3), m.group(4)
        r = re.fullmatch(r"\s*self\.read_register\(device, sirm::(\w+)\)\s*", fb)
        w = re.fullmatch(r"\s*self\.write_register\(device, sirm::(\w+), (\w+)\)\s*", fb)
        if r and arg is None:
            out[name] = ("r", r.group(1), ret)
        elif w and arg is not None and w.group(2) == arg:
            out[name] = ("w", w.group(1), argty)
        else:
            out[name] = ("other", None, ret)
    return out


def translate(repo):
    ch = strip_comments(open(os.path.join(repo, "cameleon/src/u3v/control_handle.rs")).read())
    rm = strip_comments(open(os.path.join(repo, "cameleon/src/u3v/register_map.rs")).read())
    acc = accessors(rm)
    m = re.search(r"fn enable_streaming\(&mut self\)\s*->\s*ControlResult<\(\)>\s*\{", ch)
    if not m:
        raise ShapeError("enable_streaming not found")
    body, _ = block_after(ch, m.end() - 1)
    # the align! macro: text checked, then removed
    mm = re.search(r"macro_rules! align\s*\{", body)
    if not mm:
        raise ShapeError("macro align! not found in enable_streaming")
    mtext, mend = block_after(body, mm.end() - 1)
    if norm("macro_rules! align {" + mtext + "}") != norm(ALIGN_MACRO):
        raise ShapeError("the body of macro align! changed: %r" % norm(mtext)[:200])
    body = body[:mm.start()] + body[mend:]
    consts = {"PAYLOAD_TRANSFER_SIZE": const_value(ch, "PAYLOAD_TRANSFER_SIZE")}
    pro = re.search(r"if unwrap_or_log!\(sirm\.is_stream_enable\(self\)\)\s*\{\s*unwrap_or_log!\(sirm\.disable_stream\(self\)\);\s*\}", body)
    if not pro:
        raise ShapeError("the disable-if-enabled prologue was not found")
    body = body[:pro.start()] + "__PROLOGUE__;" + body[pro.end():]
    stmts = split_statements(body)
    env = {}
    reads, lets, writes = [], [], []
    phase = 0       # 0 prologue, 1 computation, 2 writes, 3 done
    saw = []
    for s in stmts:
        s1 = re.sub(r"\s+", " ", s)
        if s1 == "let sirm = unwrap_or_log!(self.sirm())":
            saw.append("sirm")
            continue
        if s1 == "__PROLOGUE__":
            if phase != 0 or reads or lets:
                raise ShapeError("the disable-if-enabled prologue is not first")
            saw.append("disable")
            continue
        mlet = re.fullmatch(r"let (\w+)(?:\s*:\s*(\w+))? = (.*)", s1, flags=re.S)
        if mlet:
            if phase > 1:
                raise ShapeError("a `let` after the register writes began: %r" % s1[:80])
            phase = 1
            name, decl, rhs = mlet.group(1), mlet.group(2), mlet.group(3).strip()
            g = re.fullmatch(r"unwrap_or_log!\(sirm\.(\w+)\(self\)\)", rhs)
            if g:
                a = acc.get(g.group(1))
                if g.group(1) == "payload_size_alignment":
                    env[name] = "usize"
                    if name != "payload_alignment":
                        raise ShapeError("the alignment variable is not called payload_alignment")
                    saw.append("alignment")
                    continue
                if not a or a[0] != "r":
                    raise ShapeError("getter %s is not a plain register read" % g.group(1))
                env[name] = a[2]
                reads.append((name, a[1]))
                continue
            p = P(tokenize(rhs), env, consts)
            code, ty = p.expr()
            if p.peek() is not None:
                raise ShapeError("trailing tokens in %r" % rhs)
            if ty.startswith("tryinto:"):
                if decl not in BITS:
                    raise ShapeError("try_into without a declared integer type")
                code = "(let? x_ := %s in r_try_into %d x_ CE_INVALID_DEVICE)" % (code[len("TRYINTO:"):], BITS[decl])
                ty = decl
            elif ty == "lit":
                ty = decl or "u32"
            elif decl and decl != ty:
                raise ShapeError("declared type %s, expression type %s" % (decl, ty))
            env[name] = ty
            lets.append((name, code, ty))
            continue
        w = re.fullmatch(r"unwrap_or_log!\(sirm\.(\w+)\(self(?:, (\w+))?\)\)", s1)
        if w:
            a = acc.get(w.group(1))
            if w.group(1) == "enable_stream" and w.group(2) is None:
                phase = 3
                saw.append("enable")
                continue
            if phase == 3:
                raise ShapeError("a register write after enable_stream")
            if not a or a[0] != "w" or w.group(2) not in env:
                raise ShapeError("setter %s is not a plain register write of a known variable" % w.group(1))
            if env[w.group(2)] != a[2]:
                raise ShapeError("setter %s takes %s, the variable is %s" % (w.group(1), a[2], env[w.group(2)]))
            phase = 2
            writes.append((a[1], w.group(2)))
            continue
        if s1 == "Ok(())":
            continue
        raise ShapeError("statement outside the accepted shapes: %r" % s1[:120])
    # canonical order of the pure `let`s: by the first register write that (transitively) uses them - the order in
    # which the source happens to compute independent values is not part of the behaviour
    names = [n for n, _, _ in lets]
    deps = {n: {m for m in names if m != n and re.search(r"\b%s\b" % re.escape(m), c)} for n, c, _ in lets}

    def users(n, seen=None):
        seen = seen or set()
        out = {n}
        for m in names:
            if n in deps[m] and m not in seen:
                seen.add(m)
                out |= users(m, seen)
        return out
    first_use = {}
    for n in names:
        us = users(n)
        idx = [i for i, (_, v) in enumerate(writes) if v in us]
        if not idx:
            raise ShapeError("the value %s reaches no register write" % n)
        first_use[n] = min(idx)
    order = sorted(range(len(lets)), key=lambda i: (first_use[lets[i][0]], i))
    lets = [lets[i] for i in order]
    placed = set()
    for n, _, _ in lets:
        if not deps[n] <= placed:
            raise ShapeError("canonical order breaks a dependency of %s" % n)
        placed.add(n)
    if saw != ["sirm", "disable", "alignment", "enable"]:
        raise ShapeError("prologue / alignment read / final enable not in the expected places: %r" % saw)
    return dict(reads=reads, lets=lets, writes=writes, consts=consts)


def render(t):
    args = ["payload_alignment"] + [n for n, _ in t["reads"]]
    out = ["(* GENERATED by tools/translate_code.py from `enable_streaming` (cameleon/src/u3v/control_handle.rs) and the Sirm",
           "   accessors of cameleon/src/u3v/register_map.rs - do not edit. *)",
           "From Cam Require Import Outcome RustInt RegTables.", "",
           "Definition CE_INVALID_DEVICE : Z := 6.", "",
           "(* registers read for the requirements, in program order *)",
           "Definition src_es_reads : list (Z * Z) := [%s]." % "; ".join("sirm_" + r for _, r in t["reads"]),
           "Definition src_es_read_names : list (list Z) := [%s]." % "; ".join(
               "[" + "; ".join(str(b) for b in n.encode()) + "]" for n, _ in t["reads"]),
           "",
           "Definition src_enable_streaming_writes (%s : Z) : outcome (list (Z * Z)) :=" % " ".join(args)]
    for name, code, ty in t["lets"]:
        out.append("  let? %s := %s in   (* %s *)" % (name, code, ty))
    out.append("  Ok [%s]." % "; ".join("(fst sirm_%s, %s)" % (r, v) for r, v in t["writes"]))
    return "\n".join(out) + "\n"


def regenerate(repo=None):
    repo = repo or os.environ.get("VERIF_REPO", "/repo")
    text = render(translate(repo))
    path = os.path.join(VERIF, "coq/theories/gen/EnableStreaming.v")
    if os.path.exists(path) and open(path).read() == text:
        return False
    with open(path, "w") as f:
        f.write(text)
    return True


if __name__ == "__main__":
    try:
        print("gen/EnableStreaming.v", "rewritten" if regenerate() else "unchanged")
    except (ShapeError, OSError) as e:
        print("translate_code: %s" % e)
        sys.exit(3)
