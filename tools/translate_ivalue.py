#!/usr/bin/env python3
"""tools/translate_ivalue.py -- CODE translator for the value-dispatch layer of the GenApi node interpreter (property C03).

Re-run on every `./check C03`.  Reads

    genapi/src/ivalue.rs       trait IValue<T> and EVERY implementation: the macros impl_ivalue_for_imm! /
                               impl_ivalue_for_vid! (expanded token-wise from their parsed definitions, once per
                               invocation), StringId, NodeId as IValue<i64> / <f64> / <String>, ImmOrPNode<Ty>,
                               ValueKind<Ty>, PValue<Ty>, PIndex<Ty>, PIndex::index
    genapi/src/elem_type.rs    enum ImmOrPNode / ValueKind, struct PValue / PIndex / ValueIndexed and their getters
    genapi/src/store.rs        the provided methods integer_value / float_value / str_value of trait ValueStore,
                               impl_value_data_conversion!, NodeId::as_*_kind / expect_*_kind
    genapi/src/interface.rs    I{Integer,Float,String,Enumeration,Boolean}Kind::maybe_from (which node variants a kind has)
    genapi/src/{integer,float,boolean,enumeration,command}.rs
                               value / set_value / min / max of IntegerNode and FloatNode, value / set_value of
                               BooleanNode, current_value / set_entry_by_value of EnumerationNode, execute / is_done of
                               CommandNode

and writes coq/theories/gen/IValueSrc.v over the vocabulary of coq/theories/model/IvOps.v:

  * the trait becomes a record of its methods value / set_value / is_readable (is_writable is not translated), every
    `impl` an instance; a generic impl takes one dictionary per `where` bound (dictionary passing), a call
    `x.value(device, store, cx)` is resolved from the static type of x exactly as rustc resolves it: a bound in
    scope, else the unique impl that unifies (recursively for its bounds);
  * a function that returns GenApiResult<X> becomes a computation `M X` of model/Graph.v's state monad: every statement
    in program order, `?` = mbind, `return Err(..)` / `Err(..)` = merr <class>, `for x in l { ..?; }` = iv_for,
    `if let` / `match` = match, `a? && { .. }` evaluates the block only if a is true;  a Result that is neither
    `?`-propagated nor returned is a ShapeError;
  * method calls on an interface kind (IIntegerKind::value ..) are the vocabulary's requests to another node.

Anything outside the accepted shapes raises ShapeError - the check then reports the proof obligations of C03 as broken
instead of translating something else.  proofs/P_C03s.v proves the translated functions equal to model/Graph.v."""
import os, re, sys

HERE = os.path.dirname(os.path.abspath(__file__))
OUT = os.path.join(os.path.dirname(HERE), "coq", "theories", "gen", "IValueSrc.v")


class ShapeError(Exception):
    pass


# ------------------------------------------------------------------------------------------------ tokens --
def strip_comments(s):
    s = re.sub(r"/\*.*?\*/", " ", s, flags=re.S)
    return re.sub(r"//[^\n]*", "", s)


TOK = re.compile(r"""\s*(
    "(?:[^"\\]|\\.)*" |
    '[a-z_]+(?!') |
    [A-Za-z_][A-Za-z0-9_]* |
    \d[\d_]*(?:_?[iu](?:8|16|32|64|size))? |
    :: | -> | => | == | != | <= | >= | \|\| | && | \.\. | \+= | -= | &= | \|= |
    [(){}\[\],;:.|&^!\-+*/%<>=\#?$@]
)""", re.X)


def tokenize(s):
    out, pos = [], 0
    s = strip_comments(s).strip()
    while pos < len(s):
        m = TOK.match(s, pos)
        if not m:
            raise ShapeError("cannot tokenize %r" % s[pos:pos + 40])
        out.append(m.group(1))
        pos = m.end()
        while pos < len(s) and s[pos].isspace():
            pos += 1
    return out


OPEN = {"(": ")", "[": "]", "{": "}"}
KEYWORDS = {"let", "mut", "if", "else", "match", "for", "in", "return", "fn", "impl", "pub", "struct", "enum", "trait",
            "while", "loop", "as", "where", "type", "use", "const", "static", "ref", "move", "break", "continue", "unsafe",
            "dyn", "mod", "crate", "super"}
IDENT = re.compile(r"[A-Za-z_][A-Za-z0-9_]*\Z")


def is_ident(x):
    return x is not None and IDENT.match(x) is not None and x not in KEYWORDS


def match_close(t, i):
    depth = 0
    for j in range(i, len(t)):
        if t[j] in OPEN:
            depth += 1
        elif t[j] in (")", "]", "}"):
            depth -= 1
            if depth == 0:
                return j
    raise ShapeError("unbalanced brackets")


def skip_attr(t, i):
    while i < len(t) and t[i] == "#":
        if t[i + 1] == "!":
            i += 1
        if t[i + 1] != "[":
            raise ShapeError("attribute")
        i = match_close(t, i + 1) + 1
    return i


def items(tokens):
    """top-level items: list of (kind, header tokens, body tokens or None, attribute tokens)"""
    out, i, t = [], 0, tokens
    while i < len(t):
        a0 = i
        i = skip_attr(t, i)
        attrs = t[a0:i]
        if i >= len(t):
            break
        j = i
        while j < len(t) and t[j] not in ("{", ";"):
            if t[j] in ("(", "["):
                j = match_close(t, j)
            j += 1
        if j >= len(t):
            raise ShapeError("item without end")
        flat = " ".join(t[i:j])
        flat = re.sub(r"pub \( (?:crate|super) \) ", "", flat)
        flat = re.sub(r"^pub ", "", flat)
        hdr = flat.split(" ") if flat else []
        kind = hdr[0] if hdr else ""
        if t[j] == ";":
            out.append((kind, hdr, None, attrs))
            i = j + 1
            continue
        k = match_close(t, j)
        out.append((kind, hdr, t[j + 1:k], attrs))
        i = k + 1
    return out


def find_item(its, kind, header):
    hits = [it for it in its if it[0] == kind and " ".join(it[1]) == header]
    if len(hits) != 1:
        raise ShapeError("expected exactly one `%s`, found %d" % (header, len(hits)))
    return hits[0]


def split_top(t, sep=","):
    out, cur, i, depth = [], [], 0, 0
    while i < len(t):
        x = t[i]
        if x in OPEN:
            j = match_close(t, i)
            cur.extend(t[i:j + 1])
            i = j + 1
            continue
        if x == "<":
            depth += 1
        elif x == ">":
            depth -= 1
        if x == sep and depth == 0:
            out.append(cur)
            cur = []
        else:
            cur.append(x)
        i += 1
    if cur:
        out.append(cur)
    return out


# ------------------------------------------------------------------------------------------------ types --
class TP:
    def __init__(self, t, i=0):
        self.t, self.i = t, i

    def peek(self, k=0):
        return self.t[self.i + k] if self.i + k < len(self.t) else None

    def eat(self, x=None):
        tok = self.peek()
        if tok is None or (x is not None and tok != x):
            raise ShapeError("type: expected %r, found %r in %r" % (x, tok, " ".join(self.t)))
        self.i += 1
        return tok

    def ty(self):
        p = self.peek()
        if p == "&":
            self.eat()
            if self.peek() is not None and self.peek().startswith("'"):
                self.eat()
            m = False
            if self.peek() == "mut":
                self.eat()
                m = True
            return ("ref", m, self.ty())
        if p == "(":
            self.eat()
            xs = []
            while self.peek() != ")":
                xs.append(self.ty())
                if self.peek() == ",":
                    self.eat()
            self.eat(")")
            if not xs:
                return ("unit",)
            if len(xs) == 1:
                return xs[0]
            return ("tuple", tuple(xs))
        if p == "[":
            self.eat()
            e = self.ty()
            self.eat("]")
            return ("slice", e)
        if p == "impl":
            self.eat()
            return ("impl", self.ty())
        if not is_ident(p) and p not in ("crate", "super", "Self"):
            raise ShapeError("type: unexpected %r in %r" % (p, " ".join(self.t)))
        segs = [self.eat()]
        while self.peek() == "::":
            self.eat()
            segs.append(self.eat())
        args = ()
        if self.peek() == "<":
            self.eat()
            xs = []
            while self.peek() != ">":
                if self.peek() is not None and self.peek().startswith("'"):
                    self.eat()
                else:
                    xs.append(self.ty())
                if self.peek() == ",":
                    self.eat()
            self.eat(">")
            args = tuple(xs)
        return ("path", segs[-1], args)


def parse_type(toks):
    p = TP(toks)
    r = p.ty()
    if p.i != len(toks):
        raise ShapeError("trailing tokens in type %r" % " ".join(toks))
    return r


def strip_ref(ty):
    while ty is not None and ty[0] == "ref":
        ty = ty[2]
    return ty


def T(name, *args):
    return ("path", name, tuple(args))


T_I64, T_F64, T_BOOL, T_STRING, T_NODEID, T_UNIT = T("i64"), T("f64"), T("bool"), T("String"), T("NodeId"), ("unit",)


def subst(ty, m):
    if ty[0] == "path":
        if not ty[2] and ty[1] in m:
            return m[ty[1]]
        return ("path", ty[1], tuple(subst(a, m) for a in ty[2]))
    if ty[0] == "ref":
        return ("ref", ty[1], subst(ty[2], m))
    if ty[0] == "slice":
        return ("slice", subst(ty[1], m))
    if ty[0] == "tuple":
        return ("tuple", tuple(subst(a, m) for a in ty[1]))
    return ty


def unify(pat, ty, tvars, m):
    """match the pattern type (type variables tvars) against ty, extending m; False on mismatch"""
    pat, ty = strip_ref(pat), strip_ref(ty)
    if pat[0] == "path" and not pat[2] and pat[1] in tvars:
        if pat[1] in m:
            return m[pat[1]] == ty
        m[pat[1]] = ty
        return True
    if pat[0] != ty[0]:
        return False
    if pat[0] == "path":
        if pat[1] != ty[1] or len(pat[2]) != len(ty[2]):
            return False
        return all(unify(a, b, tvars, m) for a, b in zip(pat[2], ty[2]))
    if pat[0] == "slice":
        return unify(pat[1], ty[1], tvars, m)
    return pat == ty


def show_type(ty):
    ty = strip_ref(ty)
    if ty is None:
        return "?"
    if ty[0] == "path":
        return ty[1] + ("<" + ", ".join(show_type(a) for a in ty[2]) + ">" if ty[2] else "")
    if ty[0] == "unit":
        return "()"
    if ty[0] == "slice":
        return "[" + show_type(ty[1]) + "]"
    return repr(ty)


# ------------------------------------------------------------------------------------------------ functions --
def fns_of(body):
    """functions of an impl / trait body: name -> dict(recv, params, ret, body, generics, where), and the order"""
    out, order, i, t = {}, [], 0, body
    while i < len(t):
        i = skip_attr(t, i)
        if i >= len(t):
            break
        if t[i] == "pub":
            i += 1
            if t[i] == "(":
                i = match_close(t, i) + 1
        if t[i] == "type":
            while t[i] != ";":
                i += 1
            i += 1
            continue
        if t[i] != "fn":
            raise ShapeError("member %r of an impl / trait is not a fn" % " ".join(t[i:i + 6]))
        name = t[i + 1]
        i += 2
        gen = []
        if t[i] == "<":
            depth, j = 0, i
            while True:
                if t[j] == "<":
                    depth += 1
                elif t[j] == ">":
                    depth -= 1
                    if depth == 0:
                        break
                j += 1
            gen = t[i + 1:j]
            i = j + 1
        if t[i] != "(":
            raise ShapeError("fn %s: parameter list" % name)
        j = match_close(t, i)
        ptoks = t[i + 1:j]
        i = j + 1
        ret = None
        stop = i
        while t[stop] not in ("{", ";", "where"):
            if t[stop] in ("(", "["):
                stop = match_close(t, stop)
            stop += 1
        if t[i] == "->":
            ret = parse_type(t[i + 1:stop])
        elif stop != i:
            raise ShapeError("fn %s: signature" % name)
        i = stop
        where = []
        if t[i] == "where":
            k = i
            while t[k] not in ("{", ";"):
                k += 1
            where = t[i + 1:k]
            i = k
        if t[i] == ";":
            fbody = None
            i += 1
        else:
            k = match_close(t, i)
            fbody = t[i + 1:k]
            i = k + 1
        recv, params = None, []
        for p in split_top(ptoks):
            s = " ".join(p)
            if s in ("& self", "& mut self", "self"):
                recv = s
                continue
            if ":" not in p:
                raise ShapeError("fn %s: parameter %r" % (name, s))
            c = p.index(":")
            pat = p[:c]
            if len(pat) != 1 or not (is_ident(pat[0]) or pat[0] == "_"):
                raise ShapeError("fn %s: parameter pattern %r" % (name, s))
            params.append((pat[0], parse_type(p[c + 1:])))
        if name in out:
            raise ShapeError("fn %s defined twice" % name)
        out[name] = dict(name=name, recv=recv, params=params, ret=ret, body=fbody, generics=gen, where=where)
        order.append(name)
    return out, order


# ------------------------------------------------------------------------------------------------ bodies --
class BP:
    """recursive-descent parser for function bodies (the subset the translated functions use)"""

    def __init__(self, t):
        self.t, self.i = t, 0

    def peek(self, k=0):
        return self.t[self.i + k] if self.i + k < len(self.t) else None

    def eat(self, x=None):
        tok = self.peek()
        if tok is None or (x is not None and tok != x):
            raise ShapeError("expected %r, found %r near %r" % (x, tok, " ".join(self.t[max(0, self.i - 6):self.i + 6])))
        self.i += 1
        return tok

    def type_here(self, stop):
        """a type from the current position up to (not including) the first top-level token in `stop`"""
        tp = TP(self.t, self.i)
        ty = tp.ty()
        self.i = tp.i
        if self.peek() not in stop:
            raise ShapeError("type annotation near %r" % " ".join(self.t[self.i - 4:self.i + 4]))
        return ty

    def block_body(self):
        stmts, tail = [], None
        while self.peek() not in ("}", None):
            if tail is not None:
                raise ShapeError("statement after a tail expression")
            p = self.peek()
            if p == ";":
                self.eat()
                continue
            if p == "let":
                self.eat()
                if self.peek() == "mut":
                    raise ShapeError("let mut")
                pat = self.pattern()
                ty = None
                if self.peek() == ":":
                    self.eat()
                    ty = self.type_here(("=",))
                self.eat("=")
                e = self.expr()
                self.eat(";")
                stmts.append(("let", pat, ty, e))
                continue
            if p in ("while", "loop", "use", "const", "fn", "static", "unsafe"):
                raise ShapeError("statement `%s`" % p)
            e = self.expr(stmt=True)
            if self.peek() in ("=", "+=", "-=", "&=", "|="):
                raise ShapeError("assignment")
            if self.peek() == ";":
                self.eat()
                stmts.append(("expr", e))
                continue
            if e[0] in ("if", "iflet", "match", "for", "block") and self.peek() not in ("}", None):
                stmts.append(("expr", e))
                continue
            tail = e
        return stmts, tail

    def braced(self):
        self.eat("{")
        s, t = self.block_body()
        self.eat("}")
        return ("block", s, t)

    def pattern(self):
        p = self.peek()
        if p == "_":
            self.eat()
            return ("wild",)
        if p == "..":
            self.eat()
            return ("rest",)
        if p == "(":
            raise ShapeError("tuple pattern")
        if p in ("&", "ref", "mut"):
            raise ShapeError("pattern with %r" % p)
        if not is_ident(p) and p != "Self":
            raise ShapeError("pattern %r" % p)
        segs = [self.eat()]
        while self.peek() == "::":
            self.eat()
            segs.append(self.eat())
        if self.peek() == "(":
            self.eat()
            xs = []
            while self.peek() != ")":
                xs.append(self.pattern())
                if self.peek() == ",":
                    self.eat()
            self.eat(")")
            return ("pctor", segs, xs)
        if self.peek() == "{":
            raise ShapeError("struct pattern")
        if len(segs) == 1 and segs[0][0].islower():
            return ("pvar", segs[0])
        return ("pctor", segs, [])

    def expr(self, stmt=False):
        a = self.andx(stmt)
        if stmt and a[0] in ("if", "iflet", "match", "for", "block"):
            return a
        while self.peek() == "||":
            raise ShapeError("operator ||")
        return a

    def andx(self, stmt=False):
        a = self.cmp(stmt)
        if stmt and a[0] in ("if", "iflet", "match", "for", "block"):
            return a
        while self.peek() == "&&":
            self.eat()
            b = self.cmp()
            a = ("and", a, b)
        return a

    def cmp(self, stmt=False):
        a = self.cast(stmt)
        if stmt and a[0] in ("if", "iflet", "match", "for", "block"):
            return a
        if self.peek() in ("==", "!=", "<", ">", "<=", ">="):
            op = self.eat()
            b = self.cast()
            a = ("bin", op, a, b)
        if self.peek() in ("+", "-", "*", "/", "%", "..", "|", "^", "&"):
            raise ShapeError("operator %r" % self.peek())
        return a

    def cast(self, stmt=False):
        a = self.unary(stmt)
        while self.peek() == "as":
            self.eat()
            tp = TP(self.t, self.i)
            ty = tp.ty()
            self.i = tp.i
            a = ("cast", a, ty)
        return a

    def unary(self, stmt=False):
        p = self.peek()
        if p == "&":
            self.eat()
            if self.peek() == "mut":
                raise ShapeError("&mut expression")
            return ("ref", self.unary())
        if p == "*":
            self.eat()
            return ("deref", self.unary())
        if p == "!":
            self.eat()
            return ("not", self.unary())
        if p == "-":
            raise ShapeError("unary minus")
        return self.postfix(stmt)

    def args(self):
        self.eat("(")
        xs = []
        while self.peek() != ")":
            xs.append(self.expr())
            if self.peek() == ",":
                self.eat()
            elif self.peek() != ")":
                raise ShapeError("argument list near %r" % " ".join(self.t[self.i - 4:self.i + 4]))
        self.eat(")")
        return xs

    def postfix(self, stmt=False):
        e = self.primary()
        if stmt and e[0] in ("if", "iflet", "match", "for", "block"):
            return e
        while True:
            p = self.peek()
            if p == ".":
                self.eat()
                name = self.eat()
                if not is_ident(name):
                    raise ShapeError("field / method %r" % name)
                if self.peek() == "::":
                    raise ShapeError("turbofish on a method")
                if self.peek() == "(":
                    e = ("mcall", e, name, self.args())
                else:
                    e = ("field", e, name)
            elif p == "(":
                e = ("call", e, self.args())
            elif p == "?":
                self.eat()
                e = ("try", e)
            elif p == "[":
                raise ShapeError("indexing")
            else:
                return e

    def cond_block(self):
        """after `if`: the rest of an if / if let expression, `else if` chains included"""
        if self.peek() == "let":
            self.eat()
            pat = self.pattern()
            self.eat("=")
            e = self.expr()
            th = self.braced()
            return ("iflet", pat, e, th, self.else_part())
        c = self.expr()
        th = self.braced()
        return ("if", c, th, self.else_part())

    def else_part(self):
        if self.peek() != "else":
            return None
        self.eat()
        if self.peek() == "if":
            self.eat()
            return ("block", [], self.cond_block())
        return self.braced()

    def primary(self):
        p = self.peek()
        if p is None:
            raise ShapeError("unexpected end of the body")
        if p == "(":
            self.eat()
            xs = []
            trailing = False
            while self.peek() != ")":
                xs.append(self.expr())
                trailing = False
                if self.peek() == ",":
                    self.eat()
                    trailing = True
            self.eat(")")
            if not xs:
                return ("unit",)
            if len(xs) == 1 and not trailing:
                return xs[0]
            raise ShapeError("tuple expression")
        if p == "{":
            return self.braced()
        if p == "|" or p == "||":
            pats = []
            if p == "||":
                self.eat()
            else:
                self.eat("|")
                while self.peek() != "|":
                    pats.append(self.pattern())
                    if self.peek() == ":":
                        raise ShapeError("closure parameter with a type")
                    if self.peek() == ",":
                        self.eat()
                self.eat("|")
            if self.peek() == "->":
                raise ShapeError("closure with a result type")
            return ("closure", pats, self.expr())
        if p == "move":
            raise ShapeError("move closure")
        if p == "if":
            self.eat()
            return self.cond_block()
        if p == "match":
            self.eat()
            e = self.expr()
            self.eat("{")
            arms = []
            while self.peek() != "}":
                pat = self.pattern()
                if self.peek() in ("|", "if"):
                    raise ShapeError("match arm with `|` or a guard")
                self.eat("=>")
                b = self.expr(stmt=True)
                if self.peek() == ",":
                    self.eat()
                elif self.peek() != "}" and b[0] != "block":
                    raise ShapeError("match arm without a comma")
                arms.append((pat, b))
            self.eat("}")
            return ("match", e, arms)
        if p == "for":
            self.eat()
            pat = self.pattern()
            self.eat("in")
            e = self.expr()
            return ("for", pat, e, self.braced())
        if p == "return":
            self.eat()
            if self.peek() in (";", "}", ","):
                return ("return", None)
            return ("return", self.expr())
        if re.match(r"\d", p):
            self.eat()
            m = re.match(r"(\d[\d_]*?)_?([iu](?:8|16|32|64|size))?\Z", p)
            return ("lit", int(m.group(1).replace("_", "")), m.group(2))
        if p.startswith('"'):
            self.eat()
            return ("str", p)
        if is_ident(p) or p in ("crate", "super", "Self"):
            segs = [self.eat()]
            targs = {}
            while self.peek() == "::":
                self.eat()
                if self.peek() == "<":
                    self.eat()
                    xs = []
                    while self.peek() != ">":
                        tp = TP(self.t, self.i)
                        xs.append(tp.ty())
                        self.i = tp.i
                        if self.peek() == ",":
                            self.eat()
                    self.eat(">")
                    targs[len(segs) - 1] = xs
                    continue
                segs.append(self.eat())
            if self.peek() == "!":
                self.eat()
                if self.peek() not in OPEN:
                    raise ShapeError("macro call")
                j = match_close(self.t, self.i)
                toks = self.t[self.i + 1:j]
                self.i = j + 1
                return ("macro", "::".join(segs), toks)
            if targs:
                return ("tpath", segs, targs)
            return ("path", segs)
        raise ShapeError("unexpected token %r near %r" % (p, " ".join(self.t[max(0, self.i - 6):self.i + 6])))


def parse_body(tokens):
    p = BP(tokens)
    s, t = p.block_body()
    if p.i != len(tokens):
        raise ShapeError("trailing tokens in a body")
    return ("block", s, t)


def paren(s):
    s = s.strip()
    if re.fullmatch(r"[A-Za-z_][A-Za-z0-9_.']*|\d+|\[\]", s) or (s.startswith("(") and _closed(s)):
        return s
    return "(" + s + ")"


def _closed(s):
    depth = 0
    for k, c in enumerate(s):
        if c == "(":
            depth += 1
        elif c == ")":
            depth -= 1
            if depth == 0:
                return k == len(s) - 1
    return False


def is_path(e, *segs):
    return e[0] == "path" and tuple(e[1]) == segs


# ------------------------------------------------------------------------------------------------ declarations --
IDS = ("NodeId", "IntegerId", "FloatId", "StringId")
KINDS = {"IIntegerKind": "IInteger", "IFloatKind": "IFloat", "IStringKind": "IString", "IEnumerationKind": "IEnumeration",
         "IBooleanKind": "IBoolean"}
# the methods of an interface kind the translated code may call: (kind, method) -> (value parameter types, result)
KIND_METHODS = {}
for _k, _t in (("IIntegerKind", T_I64), ("IFloatKind", T_F64), ("IStringKind", T_STRING), ("IBooleanKind", T_BOOL)):
    KIND_METHODS[(_k, "value")] = ([], _t)
    KIND_METHODS[(_k, "set_value")] = ([_t], T_UNIT)
    KIND_METHODS[(_k, "is_readable")] = ([], T_BOOL)
KIND_METHODS[("IEnumerationKind", "current_value")] = ([], T_I64)
KIND_METHODS[("IEnumerationKind", "set_entry_by_value")] = ([T_I64], T_UNIT)
KIND_METHODS[("IEnumerationKind", "is_readable")] = ([], T_BOOL)
ERRS = {"not_writable": "E_NOT_WRITABLE", "invalid_node": "Mem.E_INVALID_NODE", "invalid_data": "Mem.E_INVALID_DATA"}
# NodeData variant -> constructor of model/Graph.v's [body] and its arity
BODY = {"Integer": ("NInteger", 4), "IntReg": ("NIntReg", 3), "MaskedIntReg": ("NMaskedIntReg", 5),
        "Boolean": ("NBoolean", 3), "Command": ("NCommand", 2), "Enumeration": ("NEnumeration", 2),
        "Float": ("NFloat", 4), "FloatReg": ("NFloatReg", 2), "String": ("NString", 1), "StringReg": ("NStringReg", 1),
        "Register": ("NRegister", 1), "IntSwissKnife": ("NIntSwissKnife", 2), "SwissKnife": ("NSwissKnife", 2),
        "IntConverter": ("NIntConverter", 4), "Converter": ("NConverter", 4), "Port": ("NPort", 1)}
VALUEDATA = {"Integer": ("VI", T_I64), "Float": ("VF", T_F64), "Str": ("VS", T_STRING)}
PLUMB = {"device": ("ref", True, ("impl", T("Device"))), "store": ("ref", False, ("impl", T("NodeStore")))}
IVALUE_METHODS = ("value", "set_value", "is_readable")      # translated; is_writable is read but not translated
PHANTOM = "PhantomData"


def is_cx_type(ty):
    return ty[0] == "ref" and ty[1] and ty[2][0] == "path" and ty[2][1] == "ValueCtxt" and len(ty[2][2]) == 2


class Decls:
    """struct / enum declarations with their type parameters, getters, and the Coq text of the data types"""

    def __init__(self):
        self.structs = {}     # name -> (tparams, [(field, type)])
        self.enums = {}       # name -> (tparams, [(variant, [types])])
        self.getters = {}     # (struct, method) -> field
        self.used = {}        # struct -> set of used fields (node structs: only those are emitted)
        self.lazy = set()     # structs whose record lists the used fields only

    @staticmethod
    def header_generics(hdr, kw):
        """`struct X < T >` / `enum X < T >` -> (X, [T])"""
        if hdr[0] != kw or not is_ident(hdr[1]):
            raise ShapeError("declaration %r" % " ".join(hdr))
        name, rest = hdr[1], hdr[2:]
        tps = []
        if rest:
            if rest[0] != "<" or rest[-1] != ">":
                raise ShapeError("declaration %r" % " ".join(hdr))
            tps = [x for x in rest[1:-1] if x != ","]
            if not all(is_ident(x) for x in tps):
                raise ShapeError("generics of %s" % name)
        return name, tps

    def add_struct(self, item, lazy=False):
        name, tps = self.header_generics(item[1], "struct")
        if item[2] is None:
            raise ShapeError("struct %s without named fields" % name)
        fields = []
        for part in split_top(item[2]):
            part = part[skip_attr(part, 0):]
            if not part:
                continue
            if part[0] == "pub":
                part = part[1:]
                if part and part[0] == "(":
                    part = part[match_close(part, 0) + 1:]
            if len(part) < 3 or part[1] != ":" or not is_ident(part[0]):
                raise ShapeError("struct %s: field %r" % (name, " ".join(part)))
            fields.append((part[0], parse_type(part[2:])))
        self.structs[name] = (tps, fields)
        self.used[name] = set()
        if lazy:
            self.lazy.add(name)

    def add_enum(self, item):
        name, tps = self.header_generics(item[1], "enum")
        variants = []
        for part in split_top(item[2]):
            part = part[skip_attr(part, 0):]
            if not part:
                continue
            if not is_ident(part[0]):
                raise ShapeError("enum %s: variant %r" % (name, " ".join(part)))
            if len(part) == 1:
                variants.append((part[0], []))
            elif part[1] == "(" and match_close(part, 1) == len(part) - 1:
                variants.append((part[0], [parse_type(x) for x in split_top(part[2:-1])]))
            else:
                raise ShapeError("enum %s: variant %r" % (name, " ".join(part)))
        self.enums[name] = (tps, variants)

    def add_getters(self, its, name):
        """getters of the inherent impls of a struct: `fn f(&self [, _: &impl NodeStore]) -> .. { [&] self.field }`"""
        for k, h, b, a in its:
            hs = " ".join(h)
            if k != "impl" or b is None or " for " in hs:
                continue
            if not re.fullmatch(r"impl (?:< [A-Za-z_, ]+ > )?%s(?: < [A-Za-z_, ]+ >)?" % re.escape(name), hs):
                continue
            fs, order = fns_of(b)
            self.scan_getters(fs, name)

    def scan_getters(self, fs, name):
        for n, f in fs.items():
            if f["recv"] != "& self" or f["body"] is None:
                continue
            if any(strip_ref(t) != ("impl", T("NodeStore")) for _, t in f["params"]):
                continue
            body = [x for x in f["body"] if x != "&"]
            if len(body) == 3 and body[0] == "self" and body[1] == "." and any(fn == body[2] for fn, _ in self.structs[name][1]):
                self.getters[(name, n)] = body[2]

    def field(self, sname, targs, fname):
        tps, fields = self.structs[sname]
        for f, ty in fields:
            if f == fname:
                self.used[sname].add(f)
                return subst(ty, dict(zip(tps, targs)))
        raise ShapeError("struct %s has no field %r" % (sname, fname))

    # -- Coq types -----------------------------------------------------------------------------------------
    def ct(self, ty, tvars=()):
        ty = strip_ref(ty)
        if ty[0] == "unit":
            return "unit"
        if ty[0] == "slice":
            return "(list %s)" % self.ct(ty[1], tvars)
        if ty[0] == "path":
            n, a = ty[1], ty[2]
            if not a:
                if n in ("i64", "f64"):
                    return "Z"
                if n == "bool":
                    return "bool"
                if n == "String":
                    return "(list Z)"
                if n in IDS or n in KINDS or n in ("NodeAttributeBase", "ValueId"):
                    return "nat"
                if n == "EnumEntryNode":
                    return "eentry"
                if n == "ValueData":
                    return "vslot"
                if n in tvars:
                    return n
                if n in self.structs and not self.structs[n][0]:
                    return "src_" + n
            if n == "Vec" and len(a) == 1:
                return "(list %s)" % self.ct(a[0], tvars)
            if n == "Option" and len(a) == 1:
                return "(option %s)" % self.ct(a[0], tvars)
            if (n in self.structs and len(self.structs[n][0]) == len(a)) or (n in self.enums and len(self.enums[n][0]) == len(a)):
                return "(src_%s %s)" % (n, " ".join(self.ct(x, tvars) for x in a))
        raise ShapeError("type %s has no translation" % show_type(ty))

    def emit_enum(self, name):
        tps, variants = self.enums[name]
        tp = "".join(" (%s : Type)" % t for t in tps)
        lines = ["Inductive src_%s%s :=" % (name, tp)]
        for v, tys in variants:
            args = "".join(" (a%d : %s)" % (i, self.ct(t, tps)) for i, t in enumerate(tys))
            lines.append("| %s_%s%s" % (name, v, args))
        s = "\n".join(lines) + "."
        if tps:
            for v, tys in variants:
                s += "\nArguments %s_%s {%s}%s." % (name, v, " ".join(tps), " _" * len(tys))
        return s

    def emit_struct(self, name):
        tps, fields = self.structs[name]
        tp = "".join(" (%s : Type)" % t for t in tps)
        fl = []
        for f, ty in fields:
            if strip_ref(ty)[0] == "path" and strip_ref(ty)[1] == PHANTOM:
                continue
            if name in self.lazy and f not in self.used[name]:
                continue
            fl.append((f, self.ct(ty, tps)))
        if not fl:
            raise ShapeError("struct %s: no translated field" % name)
        s = "Record src_%s%s := { " % (name, tp) + ";\n  ".join("%s_%s : %s" % (name, f, t) for f, t in fl) + " }."
        if tps:
            for f, _ in fl:
                s += "\nArguments %s_%s {%s} _." % (name, f, " ".join(tps))
            s += "\nArguments Build_src_%s {%s}%s." % (name, " ".join(tps), " _" * len(fl))
        return s


# ------------------------------------------------------------------------------------------------ compiler --
COQ_RESERVED = {"end", "in", "at", "fun", "match", "return", "with", "then", "else", "if", "let", "fix", "forall", "exists",
                "as", "using", "where", "Type", "Prop", "Set", "E"}


def cname(n):
    return n + "_" if n in COQ_RESERVED else n


class TVar:
    count = 0

    def __init__(self):
        TVar.count += 1
        self.n = TVar.count
        self.ty = None


def resolve_tv(ty):
    while ty is not None and ty[0] == "tv" and ty[1].ty is not None:
        ty = ty[1].ty
    return ty


def same(a, b):
    """type equality modulo references; binds a deferred type variable"""
    a, b = resolve_tv(strip_ref(a)), resolve_tv(strip_ref(b))
    if a[0] == "tv" and b[0] != "tv":
        a[1].ty = b
        return True
    if b[0] == "tv" and a[0] != "tv":
        b[1].ty = a
        return True
    if a[0] == "path" and b[0] == "path" and a[1] == b[1] and len(a[2]) == len(b[2]):
        return all(same(x, y) for x, y in zip(a[2], b[2]))
    lists = lambda t: t[1] if t[0] == "slice" else (t[2][0] if t[0] == "path" and t[1] == "Vec" and len(t[2]) == 1 else None)
    if lists(a) is not None and lists(b) is not None:
        return same(lists(a), lists(b))
    return a == b


def elem_type(ty):
    ty = strip_ref(ty)
    if ty[0] == "slice":
        return ty[1]
    if ty[0] == "path" and ty[1] == "Vec" and len(ty[2]) == 1:
        return ty[2][0]
    return None


class Fn:
    """one function body -> a Coq term"""

    def __init__(self, P, where, mode, okty, self_ty, tvars=(), bounds=(), trait_T=None, plumb=None, self_methods=None,
                 self_dicts=""):
        self.P, self.where, self.mode, self.okty, self.self_ty = P, where, mode, okty, self_ty
        self.tvars, self.bounds, self.trait_T = tuple(tvars), list(bounds), trait_T
        self.plumb = plumb or {}
        self.self_methods = self_methods or {}    # name -> (def name, value parameter types, ok type)
        self.self_dicts = self_dicts
        self.fresh = 0
        self.deferred = []                        # (TVar, receiver type, placeholder)
        self.RET, self.BIND = ("mret", "mbind") if mode == "M" else ("Some", "iv_obind")

    def err(self, msg):
        return ShapeError("%s: %s" % (self.where, msg))

    def tmp(self):
        self.fresh += 1
        return "t%d_" % self.fresh

    # -- binds ---------------------------------------------------------------------------------------------
    def wrap(self, binds, term):
        for b in reversed(binds):
            if b[0] == "let":
                term = "let %s := %s in\n%s" % (b[1], b[2], term)
            else:
                term = "%s (%s) (fun %s =>\n%s)" % (self.BIND, b[2], b[1], term)
        return term

    def toM(self, r):
        if r[0] == "M":
            return r[1]
        if r[0] != "P":
            raise self.err("an iterator is used as a value")
        binds, term = r[1], r[2]
        if binds and binds[-1][0] == "bind" and (binds[-1][1] == term or
                                                (term == "tt" and binds[-1][1] == "_" and binds[-1][3] == T_UNIT)):
            return self.wrap(binds[:-1], binds[-1][2])
        return self.wrap(binds, "%s %s" % (self.RET, paren(term)))

    def needP(self, r, what):
        if r[0] == "M":
            raise self.err("%s: a Result that is neither `?`-propagated nor returned" % what)
        if r[0] != "P":
            raise self.err("%s: an iterator used as a value" % what)
        return r[1], r[2], r[3]

    def is_plumb(self, e, kind):
        return e[0] == "path" and len(e[1]) == 1 and self.plumb.get(kind) == e[1][0]

    def plumbing(self, args):
        return (len(args) >= 3 and self.is_plumb(args[-3], "device") and self.is_plumb(args[-2], "store")
                and self.is_plumb(args[-1], "cx"))

    # -- dictionaries --------------------------------------------------------------------------------------
    def dict_for(self, Tt, S):
        Tt, S = resolve_tv(strip_ref(Tt)), strip_ref(S)
        if Tt[0] == "tv":
            ph = "<<TV%d>>" % Tt[1].n
            self.deferred.append((Tt[1], S, ph))
            return ph
        for bT, bS, name in self.bounds:
            if bT == Tt and bS == S:
                return name
        return self.P.resolve(Tt, S, self.where)

    def finish(self, term):
        for tv, S, ph in self.deferred:
            if tv.ty is None:
                raise self.err("the type of a `.value(..)` result cannot be inferred")
            term = term.replace(ph, self.P.resolve(tv.ty, S, self.where))
        return term

    # -- expressions ---------------------------------------------------------------------------------------
    def P_(self, e, env, want=None, what="expression"):
        return self.needP(self.ev(e, env, want), what)

    def ev(self, e, env, want=None, tp=False):
        k = e[0]
        D = self.P.D
        if k == "unit":
            return ("P", [], "tt", T_UNIT)
        if k == "path":
            if len(e[1]) == 1:
                n = e[1][0]
                if n in env:
                    return ("P", [], cname(n), env[n])
                if n in ("true", "false"):
                    return ("P", [], n, T_BOOL)
                if n == "None" and self.mode == "opt":
                    return ("M", "None", want)
                raise self.err("unknown name %r" % n)
            raise self.err("path %s as a value" % "::".join(e[1]))
        if k in ("ref", "deref"):
            return self.ev(e[1], env, want, tp)
        if k == "cast":
            b, t, ty = self.P_(e[1], env, None, "cast operand")
            src, dst = resolve_tv(strip_ref(ty)), strip_ref(e[2])
            if (src, dst) in ((T_I64, T_I64), (T_F64, T_F64)):
                return ("P", b, t, dst)
            if (src, dst) == (T_I64, T_F64):
                return ("P", b, "(iv_i64_as_f64 E %s)" % paren(t), dst)
            if (src, dst) == (T_F64, T_I64):
                return ("P", b, "(iv_f64_as_i64 E %s)" % paren(t), dst)
            raise self.err("cast of %s to %s" % (show_type(src), show_type(dst)))
        if k == "not":
            b, t, ty = self.P_(e[1], env, T_BOOL, "operand of `!`")
            if not same(ty, T_BOOL):
                raise self.err("`!` on %s" % show_type(ty))
            return ("P", b, "(negb %s)" % paren(t), T_BOOL)
        if k == "bin":
            b1, t1, ty1 = self.P_(e[2], env, None, "comparison")
            b2, t2, ty2 = self.P_(e[3], env, None, "comparison")
            if not same(ty1, ty2) or resolve_tv(strip_ref(ty1)) != T_I64:
                raise self.err("comparison of %s with %s" % (show_type(ty1), show_type(ty2)))
            op = {"==": "(%s =? %s)", "!=": "(negb (%s =? %s))", "<": "(%s <? %s)", ">": "(%s >? %s)",
                  "<=": "(%s <=? %s)", ">=": "(%s >=? %s)"}[e[1]]
            return ("P", b1 + b2, op % (paren(t1), paren(t2)), T_BOOL)
        if k == "and":
            b1, t1, ty1 = self.P_(e[1], env, T_BOOL, "operand of &&")
            r2 = self.ev(e[2], env, T_BOOL)
            b2, t2, ty2 = self.needP(r2, "operand of &&")
            if not (same(ty1, T_BOOL) and same(ty2, T_BOOL)):
                raise self.err("&& on %s and %s" % (show_type(ty1), show_type(ty2)))
            if not b2:
                return ("P", b1, "(%s && %s)" % (paren(t1), paren(t2)), T_BOOL)
            t = self.tmp()
            return ("P", b1 + [("bind", t, "if %s then %s else %s false" % (t1, paren(self.toM(r2)), self.RET), T_BOOL)],
                    t, T_BOOL)
        if k == "field":
            if self.is_plumb(e[1], "cx"):
                raise self.err("cx.%s outside a call" % e[2])
            b, t, ty = self.P_(e[1], env, None, "field base")
            sty = strip_ref(ty)
            if sty[0] != "path" or sty[1] not in D.structs:
                raise self.err("field %s of a value of type %s" % (e[2], show_type(sty)))
            return ("P", b, "(%s_%s %s)" % (sty[1], e[2], t), D.field(sty[1], sty[2], e[2]))
        if k == "try":
            r = self.ev(e[1], env, want)
            if r[0] != "M":
                raise self.err("`?` on something that is not a %s" % ("Result" if self.mode == "M" else "Option"))
            t = self.tmp()
            return ("P", [("bind", t, r[1], r[2])], t, r[2])
        if k == "return":
            if not tp or e[1] is None:
                raise self.err("`return` outside a tail position")
            r = self.ev(e[1], env, self.okty, tp=True)
            if r[0] != "M":
                raise self.err("`return` of something that is not a Result")
            return r
        if k == "block":
            return self.seq(e[1], e[2], dict(env), want, tp=tp, top=False)
        if k == "if":
            cb, ct, cty = self.P_(e[1], env, T_BOOL, "condition")
            if not same(cty, T_BOOL) or e[3] is None:
                raise self.err("`if` without else, or on %s" % show_type(cty))
            a = self.ev(e[2], env, want, tp)
            b = self.ev(e[3], env, want, tp)
            return self.join(cb, [("if %s then" % ct, a), ("else", b)], "if")
        if k == "iflet":
            return self.ev_match(e[2], [(e[1], e[3])] + ([(("wild",), e[4])] if e[4] is not None else []), env, want, tp)
        if k == "match":
            return self.ev_match(e[1], e[2], env, want, tp)
        if k == "call":
            return self.ev_call(e, env, want, tp)
        if k == "mcall":
            return self.ev_mcall(e, env, want)
        if k == "macro":
            raise self.err("macro %s! as a value" % e[1])
        raise self.err("expression %r" % k)

    def join(self, pre, arms, kind, prefix="", suffix=""):
        """arms: [(head text, result)]: all Result-valued, or all plain"""
        par = (lambda x: paren(x)) if kind == "if" else (lambda x: x)
        kinds = {r[0] for _, r in arms}
        if kinds == {"M"}:
            ok = None
            for _, r in arms:
                if r[2] is not None:
                    if ok is not None and not same(ok, r[2]):
                        raise self.err("the branches of `%s` have different types" % kind)
                    ok = ok or r[2]
            body = "\n".join("%s %s" % (h, par(r[1])) for h, r in arms)
            return ("M", self.wrap(pre, prefix + body + suffix), ok)
        if kinds != {"P"}:
            raise self.err("the branches of `%s` mix plain values and Results" % kind)
        ty = arms[0][1][3]
        for _, r in arms[1:]:
            if not same(ty, r[3]):
                raise self.err("the branches of `%s` have different types" % kind)
        if all(not r[1] for _, r in arms):
            body = "\n".join("%s %s" % (h, r[2]) for h, r in arms)
            return ("P", pre, "(" + prefix + body + suffix + ")", ty)
        body = "\n".join("%s %s" % (h, par(self.toM(r))) for h, r in arms)
        t = self.tmp()
        return ("P", pre + [("bind", t, prefix + body + suffix, ty)], t, ty)

    def ev_match(self, scrut, arms, env, want, tp):
        D = self.P.D
        sb, st, sty = self.P_(scrut, env, None, "scrutinee")
        sty = strip_ref(sty)
        if sty[0] != "path":
            raise self.err("match on %s" % show_type(sty))
        out, seen, wild = [], [], False
        for pat, body in arms:
            if wild:
                raise self.err("match arm after a wildcard")
            env2 = dict(env)
            if pat[0] == "wild":
                wild = True
                head = "| _ =>"
            elif pat[0] == "pctor":
                segs, subs = pat[1], pat[2]
                if sty[1] == "Option" and segs == ["Some"] and len(subs) == 1:
                    ctor, tys = "Some", [sty[2][0]]
                elif sty[1] == "Option" and segs == ["None"] and not subs:
                    ctor, tys = "None", []
                elif sty[1] == "ValueData" and len(segs) == 2 and segs[0] == "ValueData" and segs[1] in VALUEDATA:
                    ctor, tys = VALUEDATA[segs[1]][0], [VALUEDATA[segs[1]][1]]
                elif sty[1] in D.enums and len(segs) == 2 and segs[0] in (sty[1], "Self"):
                    tps, variants = D.enums[sty[1]]
                    hit = [v for v in variants if v[0] == segs[1]]
                    if not hit:
                        raise self.err("enum %s has no variant %s" % (sty[1], segs[1]))
                    ctor = "%s_%s" % (sty[1], segs[1])
                    tys = [subst(t, dict(zip(tps, sty[2]))) for t in hit[0][1]]
                else:
                    raise self.err("pattern %s on a value of type %s" % ("::".join(segs), show_type(sty)))
                if ctor in seen:
                    raise self.err("duplicate match arm %s" % ctor)
                seen.append(ctor)
                if len(subs) == 1 and subs[0][0] == "rest":
                    subs = [("wild",)] * len(tys)
                if len(subs) != len(tys):
                    raise self.err("pattern %s: arity" % "::".join(segs))
                names = []
                for sp, ty in zip(subs, tys):
                    if sp[0] == "pvar":
                        env2[sp[1]] = ty
                        names.append(cname(sp[1]))
                    elif sp[0] == "wild":
                        names.append("_")
                    else:
                        raise self.err("nested pattern")
                head = "| %s =>" % " ".join([ctor] + names)
            else:
                raise self.err("match pattern %r" % (pat[0],))
            out.append((head, self.ev(body, env2, want, tp)))
        if not wild:
            if sty[1] == "Option":
                full = ["Some", "None"]
            elif sty[1] in D.enums:
                full = ["%s_%s" % (sty[1], v) for v, _ in D.enums[sty[1]][1]]
            else:
                raise self.err("match on %s without a wildcard" % sty[1])
            if sorted(seen) != sorted(full):
                raise self.err("match does not cover %s" % sty[1])
        return self.join(sb, out, "match", "match %s with\n" % st, "\nend")

    # -- statements ----------------------------------------------------------------------------------------
    def seq(self, stmts, tail, env, want, tp=False, top=False, unit=False):
        pre = []
        for idx, s in enumerate(stmts):
            rest = stmts[idx + 1:]
            if s[0] == "let":
                _, pat, ann, e = s
                if pat[0] != "pvar":
                    raise self.err("let pattern")
                n = pat[1]
                if n in self.plumb.values() or n == "self":
                    raise self.err("let shadows %r" % n)
                if e[0] == "match" and any(b[0] == "return" for _, b in e[2]):
                    # let x = match v { P => return R, Q(y) => y };   (function body only)
                    if not top:
                        raise self.err("`return` inside a nested block")
                    arms = []
                    for p, b in e[2]:
                        if b[0] == "return":
                            arms.append((p, b))
                        else:
                            arms.append((p, ("block", [("let", pat, ann, b)] + rest, tail)))
                    r = self.ev_match(e[1], arms, env, want, tp=True)
                    if r[0] != "M":
                        raise self.err("let .. = match with return")
                    return ("M", self.wrap(pre, r[1]), r[2])
                b, t, ty = self.P_(e, env, ann, "let %s" % n)
                if ann is not None and not same(ann, ty):
                    raise self.err("let %s: %s = <%s>" % (n, show_type(ann), show_type(ty)))
                if b and b[-1][0] == "bind" and b[-1][1] == t:
                    b = b[:-1] + [("bind", cname(n), b[-1][2], b[-1][3])]
                    pre += b
                else:
                    pre += b + [("let", cname(n), t)]
                env[n] = ty
                continue
            if s[0] != "expr":
                raise self.err("statement %r" % (s[0],))
            e = s[1]
            if e[0] == "if" and e[3] is None:
                th = e[2]
                if not (top and not th[1] and th[2] is not None and th[2][0] == "return") and \
                   not (top and len(th[1]) == 1 and th[2] is None and th[1][0][0] == "expr" and th[1][0][1][0] == "return"):
                    raise self.err("`if` without else that is not `if c { return .. }` in the function body")
                ret = th[2] if th[2] is not None else th[1][0][1]
                cb, ct, cty = self.P_(e[1], env, T_BOOL, "condition")
                if not same(cty, T_BOOL):
                    raise self.err("if on %s" % show_type(cty))
                r = self.ev(ret, env, self.okty, tp=True)
                k = self.seq(rest, tail, env, want, tp, top, unit)
                return ("M", self.wrap(pre + cb, "if %s then %s else\n%s" % (ct, paren(r[1]), self.toM(k))),
                        k[2] if k[0] == "M" else k[3])
            if e[0] == "for":
                pat, it, body = e[1], e[2], e[3]
                if pat[0] != "pvar":
                    raise self.err("for pattern")
                lb, lt, lty = self.P_(it, env, None, "for iterator")
                ety = elem_type(lty)
                if ety is None:
                    raise self.err("for over a value of type %s" % show_type(lty))
                env2 = dict(env)
                env2[pat[1]] = ety
                r = self.seq(body[1], body[2], env2, T_UNIT, unit=True)
                if r[0] != "P" or not same(r[3], T_UNIT):
                    raise self.err("the body of `for` has a value")
                pre += lb + [("bind", "_", "iv_for %s (fun %s =>\n%s)" % (paren(lt), cname(pat[1]), self.toM(r)), T_UNIT)]
                continue
            r = self.ev(e, env, None)
            b, t, ty = self.needP(r, "statement")
            if not same(ty, T_UNIT):
                raise self.err("the value of a statement of type %s is dropped" % show_type(ty))
            if b and b[-1][0] == "bind" and b[-1][1] == t:
                b = b[:-1] + [("bind", "_", b[-1][2], b[-1][3])]
            pre += b
        if tail is None:
            return ("P", pre, "tt", T_UNIT)
        r = self.ev(tail, env, want, tp)
        if r[0] == "M":
            return ("M", self.wrap(pre, r[1]), r[2])
        b, t, ty = self.needP(r, "tail expression")
        return ("P", pre + b, t, ty)

    # -- calls ---------------------------------------------------------------------------------------------
    def ev_call(self, e, env, want, tp):
        f, args = e[1], e[2]
        if self.mode == "M" and is_path(f, "Ok") and len(args) == 1:
            r = self.ev(args[0], env, self.okty)
            b, t, ty = self.needP(r, "Ok(..)")
            if self.okty is not None and not same(self.okty, ty):
                raise self.err("Ok(..) of a %s in a function that returns %s" % (show_type(ty), show_type(self.okty)))
            return ("M", self.toM(("P", b, t, ty)), ty)
        if self.mode == "M" and is_path(f, "Err") and len(args) == 1:
            x = args[0]
            if x[0] == "call" and x[1][0] == "path" and len(x[1][1]) == 2 and x[1][1][0] == "GenApiError" and x[1][1][1] in ERRS:
                return ("M", "merr %s" % ERRS[x[1][1][1]], None)
            raise self.err("Err(..) of an unknown error")
        if is_path(f, "Some") and len(args) == 1:
            b, t, ty = self.P_(args[0], env, None, "Some(..)")
            if self.mode == "opt":
                return ("M", self.toM(("P", b, t, ty)), ty)
            return ("P", b, "(Some %s)" % paren(t), T("Option", ty))
        if f[0] == "tpath" and f[1] == ["IValue"] + f[1][1:] and len(f[1]) == 2 and list(f[2]) == [0] and len(f[2][0]) == 1:
            # IValue::<T>::method(&x, device, store, cx)
            if not args or not self.plumbing(args):
                raise self.err("IValue::<..>::%s must be passed (.., device, store, cx)" % f[1][1])
            return self.ivalue_call(args[0], f[1][1], args[1:-3], env, f[2][0][0], want)
        raise self.err("call of %s" % ("::".join(f[1]) if f[0] in ("path", "tpath") else f[0]))

    def ivalue_call(self, recv, name, vals, env, Tg, want):
        if name not in IVALUE_METHODS:
            raise self.err("IValue::%s is not translated" % name)
        rb, rt, rty = self.P_(recv, env, None, "receiver of .%s" % name)
        S = strip_ref(rty)
        vb, vt = [], []
        if name == "set_value":
            if len(vals) != 1:
                raise self.err(".set_value: arguments")
            b, t, ty = self.P_(vals[0], env, Tg, "argument of .set_value")
            vb, vt = b, [paren(t)]
            if Tg is not None and not same(Tg, ty):
                raise self.err(".set_value of a %s through IValue<%s>" % (show_type(ty), show_type(Tg)))
            Tg = resolve_tv(strip_ref(ty))
        elif vals:
            raise self.err(".%s: arguments" % name)
        if Tg is None:
            if self.trait_T is not None:
                Tg = self.trait_T
            elif name == "value" and want is not None:
                Tg = strip_ref(want)
            elif name == "value":
                Tg = ("tv", TVar())
            else:
                raise self.err(".%s: which IValue<T>?" % name)
        d = self.dict_for(Tg, S)
        ok = {"value": Tg, "set_value": T_UNIT, "is_readable": T_BOOL}[name]
        m = "IValue_%s %s %s" % (name, paren(d), " ".join([paren(rt)] + vt))
        return ("M", self.wrap(rb + vb, m), ok)

    def closure(self, c, ptys, env):
        """-> (parameter names, 'pure' | 'M', body term, result type)"""
        if c[0] != "closure" or len(c[1]) != len(ptys):
            raise self.err("closure")
        env2, names = dict(env), []
        for p, ty in zip(c[1], ptys):
            if p[0] != "pvar":
                raise self.err("closure parameter pattern")
            env2[p[1]] = ty
            names.append(cname(p[1]))
        r = self.ev(c[2], env2, None)
        b, t, ty = self.needP(r, "closure body")
        if not b:
            return names, "pure", t, ty
        return names, "M", self.toM(r), ty

    def ev_mcall(self, e, env, want):
        recv, name, args = e[1], e[2], e[3]
        D = self.P.D
        # ---- the context ----
        if self.is_plumb(recv, "cx"):
            if name in ("invalidate_cache_by", "invalidate_cache_of") and len(args) == 1:
                b, t, ty = self.P_(args[0], env, T_NODEID, "argument of cx.%s" % name)
                if not same(ty, T_NODEID):
                    raise self.err("cx.%s of a %s" % (name, show_type(ty)))
                return ("P", b + [("bind", "_", "iv_cx_%s E %s" % (name, paren(t)), T_UNIT)], "tt", T_UNIT)
            raise self.err("cx.%s(..)" % name)
        if recv[0] == "field" and self.is_plumb(recv[1], "cx") and recv[2] == "value_store":
            if name in self.P.vs_methods and len(args) == 1:
                b, t, ty = self.P_(args[0], env, None, "value id")
                if strip_ref(ty) not in (T("IntegerId"), T("FloatId"), T("StringId")):
                    raise self.err("value_store.%s of a %s" % (name, show_type(ty)))
                x = self.tmp()
                return ("P", b + [("bind", x, "iv_value_store E (fun value_opt => src_ValueStore_%s value_opt %s)" % (name, paren(t)),
                                   self.P.vs_methods[name])], x, self.P.vs_methods[name])
            raise self.err("cx.value_store.%s(..)" % name)
        if recv[0] == "mcall" and self.is_plumb(recv[1], "cx") and recv[2] == "value_store_mut" and not recv[3]:
            if name == "update" and len(args) == 2:
                b1, t1, ty1 = self.P_(args[0], env, None, "value id")
                b2, t2, ty2 = self.P_(args[1], env, None, "value")
                if strip_ref(ty1) not in (T("IntegerId"), T("FloatId"), T("StringId")):
                    raise self.err("update of a %s" % show_type(ty1))
                ctor = self.P.into_valuedata.get(resolve_tv(strip_ref(ty2)))
                if ctor is None:
                    raise self.err("update with a value of type %s" % show_type(ty2))
                return ("P", b1 + b2 + [("bind", "_", "iv_update E %s (%s %s)" % (paren(t1), ctor, paren(t2)), T_UNIT)],
                        "tt", T_UNIT)
            raise self.err("cx.value_store_mut().%s(..)" % name)
        # ---- self.node_base().id() ----
        if (name == "id" and not args and recv[0] == "mcall" and recv[2] == "node_base" and not recv[3]
                and is_path(recv[1], "self")):
            sty = strip_ref(self.self_ty)
            if sty[1] not in self.P.node_base_ok:
                raise self.err("self.node_base() of %s" % show_type(sty))
            fty = D.field(sty[1], sty[2], "attr_base")
            if fty != T("NodeAttributeBase"):
                raise self.err("attr_base")
            return ("P", [], "(%s_attr_base self)" % sty[1], T_NODEID)
        # ---- option mode: the required method of the trait ----
        if self.mode == "opt" and is_path(recv, "self") and name == "value_opt" and len(args) == 1:
            b, t, ty = self.P_(args[0], env, None, "value id")
            return ("M", self.wrap(b, "value_opt %s" % paren(t)), T("ValueData"))
        # ---- receiver ----
        r = self.ev(recv, env, None)
        if r[0] == "M":
            if name == "map" and len(args) == 1:
                ns, kind, body, ty = self.closure(args[0], [r[2]], env)
                if kind != "pure":
                    raise self.err("Result::map with a closure that can fail")
                return ("M", "iv_map %s (fun %s => %s)" % (paren(r[1]), ns[0], body), ty)
            if name == "unwrap" and not args:
                x = self.tmp()
                return ("P", [("bind", x, "iv_unwrap_result %s" % paren(r[1]), r[2])], x, r[2])
            raise self.err(".%s(..) on a Result" % name)
        if r[0] == "I":
            _, ib, il, ity, mp = r
            if name == "map" and len(args) == 1 and mp is None:
                ns, kind, body, ty = self.closure(args[0], [ity], env)
                return ("I", ib, il, ity, (kind, "fun %s => %s" % (ns[0], body), ty))
            if name == "find" and len(args) == 1 and mp is None:
                ns, kind, body, ty = self.closure(args[0], [ity], env)
                if kind != "pure" or not same(ty, T_BOOL):
                    raise self.err(".find predicate")
                return ("P", ib, "(find (fun %s => %s) %s)" % (ns[0], body, paren(il)), T("Option", ity))
            if name == "any" and len(args) == 1:
                ns, kind, body, ty = self.closure(args[0], [mp[2] if mp else ity], env)
                if kind != "pure" or not same(ty, T_BOOL):
                    raise self.err(".any predicate")
                g = "(fun %s => %s)" % (ns[0], body)
                if mp is None:
                    return ("P", ib, "(existsb %s %s)" % (g, paren(il)), T_BOOL)
                if mp[0] == "pure":
                    raise self.err(".map(pure).any(..)")
                x = self.tmp()
                return ("P", ib + [("bind", x, "iv_iter_map_any %s (%s) %s" % (paren(il), mp[1], g), T_BOOL)], x, T_BOOL)
            raise self.err(".%s(..) on an iterator" % name)
        rb, rt, rty = r[1], r[2], r[3]
        S = resolve_tv(strip_ref(rty))
        # ---- calls with (.., device, store, cx) ----
        if self.plumbing(args):
            vals = args[:-3]
            if is_path(recv, "self") and name in self.self_methods:
                dn, ptys, ok = self.self_methods[name]
                if len(vals) != len(ptys):
                    raise self.err("self.%s: arguments" % name)
                vb, vt = [], []
                for a, pty in zip(vals, ptys):
                    b, t, ty = self.P_(a, env, pty, "argument of self.%s" % name)
                    if not same(ty, pty):
                        raise self.err("self.%s: argument of type %s for %s" % (name, show_type(ty), show_type(pty)))
                    vb += b
                    vt.append(paren(t))
                return ("M", self.wrap(vb, " ".join([dn + self.self_dicts, "self"] + vt)), ok)
            if S[0] == "path" and (S[1], name) in KIND_METHODS:
                ptys, ok = KIND_METHODS[(S[1], name)]
                if len(vals) != len(ptys):
                    raise self.err("%s::%s: arguments" % (S[1], name))
                vb, vt = [], []
                for a, pty in zip(vals, ptys):
                    b, t, ty = self.P_(a, env, pty, "argument of .%s" % name)
                    if not same(ty, pty):
                        raise self.err("%s::%s: argument of type %s" % (S[1], name, show_type(ty)))
                    vb += b
                    vt.append(paren(t))
                return ("M", self.wrap(rb + vb, "iv_%s_%s E %s" % (KINDS[S[1]], name, " ".join([paren(rt)] + vt))), ok)
            if S[0] == "path" and S[1] in KINDS:
                raise self.err("%s::%s is not in the vocabulary" % (S[1], name))
            return self.ivalue_call(recv, name, vals, env, None, want)
        # ---- calls with (store) ----
        if len(args) == 1 and self.is_plumb(args[0], "store"):
            if S == T_NODEID and name in self.P.nodeid_fns:
                kind, ok = self.P.nodeid_fns[name]
                if kind == "opt":
                    return ("P", rb, "(src_NodeId_%s %s)" % (name, paren(rt)), T("Option", ok))
                return ("M", self.wrap(rb, "src_NodeId_%s %s" % (name, paren(rt))), ok)
            if S == T_NODEID and name == "expect_enum_entry":
                return ("M", self.wrap(rb, "iv_expect_enum_entry E %s" % paren(rt)), T("EnumEntryNode"))
            if S[0] == "path" and (S[1], name) in D.getters:
                f = D.getters[(S[1], name)]
                return ("P", rb, "(%s_%s %s)" % (S[1], f, rt), D.field(S[1], S[2], f))
            raise self.err(".%s(store) on a %s" % (name, show_type(S)))
        # ---- without arguments ----
        if not args:
            if S[0] == "path" and (S[1], name) in D.getters:
                f = D.getters[(S[1], name)]
                return ("P", rb, "(%s_%s %s)" % (S[1], f, rt), D.field(S[1], S[2], f))
            if name == "unwrap" and S[0] == "path" and S[1] == "Option":
                x = self.tmp()
                return ("P", rb + [("bind", x, "iv_unwrap %s" % paren(rt), S[2][0])], x, S[2][0])
            if name == "iter" and elem_type(S) is not None:
                return ("I", rb, rt, ("ref", False, elem_type(S)), None)
            if name == "into" and S == T_STRING and (want is None or same(want, T_STRING)):
                return ("P", rb, rt, T_STRING)
            if name == "value" and S == T("EnumEntryNode"):
                return ("P", rb, "(ee_val %s)" % rt, T_I64)
        raise self.err("method .%s(..) on a value of type %s" % (name, show_type(S)))


# ------------------------------------------------------------------------------------------------ program --
def read_items(repo, rel):
    return items(tokenize(open(os.path.join(repo, rel)).read()))


def norm_text(repo, rel):
    return " ".join(tokenize(open(os.path.join(repo, rel)).read()))


def parse_macro(item):
    """macro_rules! with ONE rule whose parameters are `$x:ty` / `$x:ident` separated by commas -> (names, template)"""
    b = item[2]
    if not b or b[0] != "(":
        raise ShapeError("macro %s: rule" % " ".join(item[1]))
    j = match_close(b, 0)
    names = []
    for p in split_top(b[1:j]):
        if len(p) != 4 or p[0] != "$" or p[2] != ":" or p[3] not in ("ty", "ident") or not is_ident(p[1]):
            raise ShapeError("macro %s: parameter %r" % (" ".join(item[1]), " ".join(p)))
        names.append(p[1])
    if b[j + 1] != "=>" or b[j + 2] != "{":
        raise ShapeError("macro %s: rule" % " ".join(item[1]))
    k = match_close(b, j + 2)
    if [x for x in b[k + 1:] if x != ";"]:
        raise ShapeError("macro %s: more than one rule" % " ".join(item[1]))
    return names, b[j + 3:k]


def expand_macro(mac, item):
    names, tmpl = mac
    h = item[1]
    if len(h) < 4 or h[1] != "!" or h[2] != "(" or h[-1] != ")":
        raise ShapeError("macro invocation %r" % " ".join(h))
    args = split_top(h[3:-1])
    if len(args) != len(names):
        raise ShapeError("macro invocation %r: number of arguments" % " ".join(h))
    m = dict(zip(names, args))
    out, i = [], 0
    while i < len(tmpl):
        if tmpl[i] == "$":
            if tmpl[i + 1] not in m:
                raise ShapeError("macro: unknown fragment $%s" % tmpl[i + 1])
            out.extend(m[tmpl[i + 1]])
            i += 2
        else:
            out.append(tmpl[i])
            i += 1
    its = [x for x in items(out) if x[0]]
    if len(its) != 1 or its[0][0] != "impl":
        raise ShapeError("macro %s does not expand to one impl" % h[0])
    return its[0]


def type_head(ty):
    ty = strip_ref(ty)
    return ty[1] if ty[0] == "path" else "unit"


class Program:
    def __init__(self, repo):
        self.repo = repo
        self.D = Decls()
        self.defs = []                 # (name, text) in emission order
        self.vs_methods = {}
        self.into_valuedata = {}
        self.nodeid_fns = {}
        self.node_base_ok = set()
        self.impls = []                # IValue impls
        self.late = []                 # node structs (emitted after their functions are translated)

    def emit(self, name, text):
        self.defs.append((name, text))

    # -- instance resolution -------------------------------------------------------------------------------
    def resolve(self, Tt, S, where, depth=0):
        if depth > 8:
            raise ShapeError("%s: instance resolution does not terminate" % where)
        hits = []
        for im in self.impls:
            m = {}
            if unify(im["T"], Tt, im["tparams"], m) and unify(im["S"], S, im["tparams"], m):
                hits.append((im, m))
        if len(hits) != 1:
            raise ShapeError("%s: %d implementations of IValue<%s> for %s" % (where, len(hits), show_type(Tt), show_type(S)))
        im, m = hits[0]
        if not im["tparams"] and not im["bounds"]:
            return im["name"]
        if set(m) != set(im["tparams"]):
            raise ShapeError("%s: IValue<%s> for %s: undetermined type parameter" % (where, show_type(Tt), show_type(S)))
        args = [self.D.ct(m[t]) for t in im["tparams"]]
        for bT, bS, _ in im["bounds"]:
            args.append(paren(self.resolve(subst(bT, m), subst(bS, m), where, depth + 1)))
        return "@%s %s" % (im["name"], " ".join(args))

    # -- a function ----------------------------------------------------------------------------------------
    def classify(self, f, where):
        plumb, vals = {}, []
        for n, ty in f["params"]:
            if ty == PLUMB["device"]:
                plumb["device"] = n
            elif ty == PLUMB["store"] or (ty[0] == "ref" and not ty[1] and ty[2] == ("impl", T("NodeStore"))):
                plumb["store"] = n
            elif is_cx_type(ty):
                plumb["cx"] = n
            else:
                vals.append((n, ty))
        plumb = {k: v for k, v in plumb.items() if v != "_"}
        return plumb, vals

    def compile_fn(self, f, where, self_ty, mode="M", **kw):
        ret = f["ret"]
        if mode == "M":
            if not ret or ret[0] != "path" or ret[1] != "GenApiResult" or len(ret[2]) != 1:
                raise ShapeError("%s: result type" % where)
        else:
            if not ret or ret[0] != "path" or ret[1] != "Option" or len(ret[2]) != 1:
                raise ShapeError("%s: result type" % where)
        okty = ret[2][0]
        if f["recv"] != "& self" or f["body"] is None:
            raise ShapeError("%s: receiver / body" % where)
        plumb, vals = self.classify(f, where)
        C = Fn(self, where, mode, okty, self_ty, plumb=plumb, **kw)
        env = {"self": self_ty}
        for n, ty in vals:
            if n != "_":
                env[n] = ty
        body = parse_body(f["body"])
        r = C.seq(body[1], body[2], env, okty, tp=True, top=True)
        if r[0] == "M":
            if r[2] is not None and not same(r[2], okty):
                raise ShapeError("%s: returns %s, declared %s" % (where, show_type(r[2]), show_type(okty)))
            term = r[1]
        else:
            raise ShapeError("%s: the body does not end in a Result" % where)
        return C.finish(term), vals, okty

    # -- elem_type.rs --------------------------------------------------------------------------------------
    def load_elem_types(self):
        its = read_items(self.repo, "genapi/src/elem_type.rs")
        for n in ("ImmOrPNode", "ValueKind"):
            self.D.add_enum(find_item(its, "enum", "enum %s < T >" % n))
        for n in ("PValue", "ValueIndexed", "PIndex"):
            self.D.add_struct(find_item(its, "struct", "struct %s < T >" % n))
            self.D.add_getters(its, n)
        for n in ("ImmOrPNode",):
            self.emit("src_" + n, self.D.emit_enum(n))
        for n in ("PValue", "ValueIndexed", "PIndex"):
            self.emit("src_" + n, self.D.emit_struct(n))
        self.emit("src_ValueKind", self.D.emit_enum("ValueKind"))

    # -- store.rs ------------------------------------------------------------------------------------------
    def load_store(self):
        its = read_items(self.repo, "genapi/src/store.rs")
        mac = find_item(its, "macro_rules", "macro_rules ! impl_value_data_conversion")
        if " ".join(mac[2]) != ("( $ ty : ty , $ ctor : expr ) => { impl From < $ ty > for ValueData { fn from ( v : $ ty ) "
                                "-> Self { $ ctor ( v ) } } } ;"):
            raise ShapeError("macro impl_value_data_conversion! is not `impl From<$ty> for ValueData { $ctor(v) }`")
        for it in its:
            if it[0] == "impl_value_data_conversion":
                h = " ".join(it[1])
                m = re.fullmatch(r"impl_value_data_conversion ! \( (\w+) , Self :: (\w+) \)", h)
                if not m:
                    raise ShapeError("invocation %r" % h)
                if m.group(2) in VALUEDATA:
                    if VALUEDATA[m.group(2)][1] != T(m.group(1)):
                        raise ShapeError("ValueData::%s holds a %s" % (m.group(2), m.group(1)))
                    self.into_valuedata[T(m.group(1))] = VALUEDATA[m.group(2)][0]
        vd = find_item(its, "enum", "enum ValueData")
        variants = {p[0]: " ".join(p[1:]) for p in split_top(vd[2]) if p}
        for v, (c, ty) in VALUEDATA.items():
            if variants.get(v) != "( %s )" % ty[1]:
                raise ShapeError("ValueData::%s is not (%s)" % (v, ty[1]))
        tr = find_item(its, "trait", "trait ValueStore")
        fs, order = fns_of(tr[2])
        if "value_opt" not in fs or fs["value_opt"]["body"] is not None:
            raise ShapeError("ValueStore::value_opt is not a required method")
        for n in ("integer_value", "float_value", "str_value"):
            f = fs.get(n)
            if not f or f["generics"] != ["T"] or " ".join(f["where"]).rstrip(" ,") != "T : Into < ValueId >" \
                    or f["params"] != [("id", T("T"))]:
                raise ShapeError("ValueStore::%s: signature" % n)
            f = dict(f)
            f["params"] = [("id", T("ValueId"))]
            term, vals, okty = self.compile_fn(f, "ValueStore::" + n, ("ref", False, T("ValueStore")), mode="opt")
            okty = strip_ref(okty)
            self.vs_methods[n] = T("Option", okty)
            self.emit("src_ValueStore_" + n,
                      "Definition src_ValueStore_%s (value_opt : nat -> option vslot) (id : nat) : option %s :=\n%s."
                      % (n, self.D.ct(okty), term))
        # NodeId::as_*_kind / expect_*_kind
        nfs, _ = fns_of(find_item(its, "impl", "impl NodeId")[2])
        for kind in KINDS:
            low = kind.lower()[:-4]
            a, x = nfs.get("as_%s_kind" % low), nfs.get("expect_%s_kind" % low)
            if not a or not x:
                raise ShapeError("NodeId::as_%s_kind / expect_%s_kind" % (low, low))
            for f in (a, x):
                if f["recv"] != "self" or [t for _, t in f["params"]] != [("ref", False, ("impl", T("NodeStore")))] \
                        or f["params"][0][0] != "store":
                    raise ShapeError("NodeId::%s: signature" % f["name"])
            if " ".join(a["body"]) != "%s :: maybe_from ( self , store )" % kind or a["ret"] != T("Option", T(kind)):
                raise ShapeError("NodeId::as_%s_kind is not %s::maybe_from(self, store)" % (low, kind))
            m = re.fullmatch(r"self \. as_%s_kind \( store \) \. ok_or_else \( \|\| (?:\{ )?GenApiError :: (\w+) \( .* \)(?: \})? \)"
                             % low, " ".join(x["body"]))
            if not m or m.group(1) not in ERRS or x["ret"] != T("GenApiResult", T(kind)):
                raise ShapeError("NodeId::expect_%s_kind is not as_%s_kind(store).ok_or_else(|| GenApiError::..)" % (low, low))
            self.nodeid_fns["as_%s_kind" % low] = ("opt", T(kind))
            self.nodeid_fns["expect_%s_kind" % low] = ("M", T(kind))
            self.emit("src_NodeId_as_%s_kind" % low,
                      "Definition src_NodeId_as_%s_kind (self : nat) : option nat :=\n  src_%s_maybe_from self." % (low, kind))
            self.emit("src_NodeId_expect_%s_kind" % low,
                      "Definition src_NodeId_expect_%s_kind (self : nat) : M nat :=\n  iv_ok_or (src_NodeId_as_%s_kind self) %s."
                      % (low, low, ERRS[m.group(1)]))

    # -- interface.rs --------------------------------------------------------------------------------------
    def load_kinds(self):
        its = read_items(self.repo, "genapi/src/interface.rs")
        for kind in KINDS:
            fs, _ = fns_of(find_item(its, "impl", "impl < 'a > %s < 'a >" % kind)[2])
            f = fs.get("maybe_from")
            if (not f or f["recv"] is not None or [n for n, _ in f["params"]] != ["id", "store"]
                    or f["params"][0][1] != T_NODEID or f["ret"] != T("Option", T("Self"))):
                raise ShapeError("%s::maybe_from: signature" % kind)
            b = f["body"]
            head = "match store . node_opt ( id ) ? {".split(" ")
            if b[:len(head)] != head or b[-1] != "}":
                raise ShapeError("%s::maybe_from is not `match store.node_opt(id)? { .. }`" % kind)
            arms, seen, wild = [], [], False
            for part in split_top(b[len(head):-1]):
                s = " ".join(part)
                m = re.fullmatch(r"NodeData :: (\w+) \( (\w+) \) => Some \( Self :: (\w+) \( (\w+) \) \)", s)
                if m and m.group(1) == m.group(3) and m.group(2) == m.group(4) and not wild:
                    v = m.group(1)
                    if v not in BODY or v in seen:
                        raise ShapeError("%s::maybe_from: variant %s" % (kind, v))
                    seen.append(v)
                    arms.append("  | %s%s => Some id" % (BODY[v][0], " _" * BODY[v][1]))
                elif s == "_ => None" and not wild:
                    wild = True
                    arms.append("  | _ => None")
                else:
                    raise ShapeError("%s::maybe_from: arm %r" % (kind, s))
            if not wild:
                raise ShapeError("%s::maybe_from: no wildcard arm" % kind)
            self.emit("src_%s_maybe_from" % kind,
                      "Definition src_%s_maybe_from (id : nat) : option nat :=\n  iv_obind (iv_node_opt E id) (fun t1_ =>\n"
                      "  match t1_ with\n%s\n  end)." % (kind, "\n".join(arms)))

    # -- ivalue.rs -----------------------------------------------------------------------------------------
    def load_ivalue(self):
        its = read_items(self.repo, "genapi/src/ivalue.rs")
        tr = find_item(its, "trait", "trait IValue < T >")
        tfs, torder = fns_of(tr[2])
        if torder != ["value", "set_value", "is_readable", "is_writable"] or any(f["body"] is not None for f in tfs.values()):
            raise ShapeError("trait IValue<T> is not { value, set_value, is_readable, is_writable } without provided methods")
        sig = {"value": ([], T("T")), "set_value": ([T("T")], T_UNIT), "is_readable": ([], T_BOOL), "is_writable": ([], T_BOOL)}
        for n, f in tfs.items():
            plumb, vals = self.classify(f, "trait IValue")
            if (f["recv"] != "& self" or set(plumb) != {"device", "store", "cx"} or [t for _, t in vals] != sig[n][0]
                    or f["ret"] != T("GenApiResult", sig[n][1])):
                raise ShapeError("trait IValue<T>: signature of %s" % n)
        self.emit("src_IValue",
                  "Record src_IValue (T Self_ : Type) := { IValue_value : Self_ -> M T;\n  IValue_set_value : Self_ -> T -> M unit;\n"
                  "  IValue_is_readable : Self_ -> M bool }.\nArguments IValue_value {T Self_} _ _.\n"
                  "Arguments IValue_set_value {T Self_} _ _ _.\nArguments IValue_is_readable {T Self_} _ _.\n"
                  "Arguments Build_src_IValue {T Self_} _ _ _.")
        self.ivalue_sig = sig
        macros = {}
        todo = []
        for it in its:
            k, h = it[0], it[1]
            if k in ("use", "", "trait"):
                continue
            if k == "macro_rules":
                macros[h[2]] = parse_macro(it)
            elif k in macros:
                todo.append((expand_macro(macros[k], it), " ".join(h)))
            elif k == "impl":
                todo.append((it, None))
            else:
                raise ShapeError("ivalue.rs: unexpected item %r" % " ".join(h))
        # inherent impls first (their methods are called by the trait impls)
        inherent = {}
        for it, origin in todo:
            hs = " ".join(it[1])
            if " for " in hs:
                continue
            m = re.fullmatch(r"impl < (\w+) > (\w+) < \1 >", hs)
            if not m or m.group(2) not in self.D.structs:
                raise ShapeError("ivalue.rs: unexpected impl %r" % hs)
            tv, sname = m.group(1), m.group(2)
            fs, order = fns_of(it[2])
            for n in order:
                f = fs[n]
                where = "%s::%s" % (sname, n)
                if " ".join(f["generics"]) != "U : ValueStore , S : CacheStore" or f["where"]:
                    raise ShapeError("%s: generics" % where)
                sty = T(sname, T(tv))
                term, vals, okty = self.compile_fn(f, where, ("ref", False, sty), tvars=(tv,))
                if vals:
                    raise ShapeError("%s: value parameters" % where)
                dn = "src_%s_%s" % (sname, n)
                self.emit(dn, "Definition %s {%s : Type} (self : %s) : M %s :=\n%s."
                          % (dn, tv, self.D.ct(sty, (tv,)), self.D.ct(okty, (tv,)), term))
                inherent.setdefault(sname, {})[n] = (dn, [], okty)
        for it, origin in todo:
            hs = " ".join(it[1])
            if " for " in hs:
                self.ivalue_impl(it, origin, inherent)
        names = [im["S"] for im in self.impls]

    def ivalue_impl(self, it, origin, inherent):
        h = it[1]
        hs = " ".join(h)
        i = 1
        tparams = []
        if h[i] == "<":
            j = h.index(">")
            tparams = [x for x in h[i + 1:j] if x != ","]
            i = j + 1
        if h[i] != "IValue" or h[i + 1] != "<":
            raise ShapeError("ivalue.rs: `%s` is not an implementation of IValue" % hs)
        fo = h.index("for")
        Tt = parse_type(h[i + 2:fo - 1])
        if h[fo - 1] != ">":
            raise ShapeError("ivalue.rs: impl header %r" % hs)
        wh = h.index("where") if "where" in h else len(h)
        S = parse_type(h[fo + 1:wh])
        bounds = []
        for part in split_top(h[wh + 1:]):
            if not part:
                continue
            c = part.index(":")
            lhs, rhs = parse_type(part[:c]), part[c + 1:]
            if rhs == ["Copy"]:
                continue
            rt = parse_type(rhs)
            if rt[0] != "path" or rt[1] != "IValue" or len(rt[2]) != 1:
                raise ShapeError("ivalue.rs: bound %r" % " ".join(part))
            bounds.append((rt[2][0], lhs, "D%d" % (len(bounds) + 1)))
        if tparams:
            name = "src_%s_IValue" % type_head(S)
        else:
            name = "src_%s_IValue_%s" % (type_head(S), type_head(Tt))
        if any(im["name"] == name for im in self.impls):
            raise ShapeError("ivalue.rs: two implementations called %s" % name)
        where = "impl IValue<%s> for %s" % (show_type(Tt), show_type(S))
        fs, order = fns_of(it[2])
        if sorted(order) != sorted(self.ivalue_sig):
            raise ShapeError("%s: members %r" % (where, order))
        tp = ("{%s : Type} " % " ".join(tparams)) if tparams else ""
        dargs = "".join("(%s : src_IValue %s %s) " % (dn, self.D.ct(bT, tparams), self.D.ct(bS, tparams)) for bT, bS, dn in bounds)
        dnames = "".join(" " + dn for _, _, dn in bounds)
        im = dict(name=name, tparams=tparams, T=Tt, S=S, bounds=bounds)
        sname = type_head(S)
        meths = {}
        for n in IVALUE_METHODS:
            f = fs[n]
            w = "%s::%s" % (where, n)
            gens = " ".join(f["generics"])
            if gens not in ("U : ValueStore , S : CacheStore", "U , S") or f["where"]:
                raise ShapeError("%s: generics %r" % (w, gens))
            want_vals, want_ok = self.ivalue_sig[n]
            want_ok = subst(want_ok, {"T": Tt})
            if f["ret"] != T("GenApiResult", want_ok):
                raise ShapeError("%s: result type" % w)
            term, vals, okty = self.compile_fn(f, w, ("ref", False, S), tvars=tparams, bounds=bounds, trait_T=Tt if tparams else None,
                                               self_methods=inherent.get(sname, {}))
            if [strip_ref(t) for _, t in vals] != [subst(t, {"T": Tt}) for t in want_vals]:
                raise ShapeError("%s: parameters" % w)
            ps = "".join("(%s : %s) " % (cname(pn) if pn != "_" else "a%d_" % k, self.D.ct(pt, tparams)) for k, (pn, pt) in enumerate(vals))
            dn = "%s_%s" % (name, n)
            self.emit(dn, "Definition %s %s%s(self : %s) %s: M %s :=\n%s."
                      % (dn, tp, dargs, self.D.ct(S, tparams), ps, self.D.ct(okty, tparams), term))
            meths[n] = dn
        self.emit(name, "Definition %s %s%s: src_IValue %s %s :=\n  {| %s |}."
                  % (name, tp, dargs, self.D.ct(Tt, tparams), self.D.ct(S, tparams),
                     ";\n     ".join("IValue_%s := %s%s" % (n, meths[n], dnames) for n in IVALUE_METHODS)))
        self.impls.append(im)

    # -- node files ----------------------------------------------------------------------------------------
    def load_node(self, rel, sname, iface, fnames):
        its = read_items(self.repo, "genapi/src/" + rel)
        self.D.add_struct(find_item(its, "struct", "struct " + sname), lazy=True)
        self.D.add_getters(its, sname)
        nb, _ = fns_of(find_item(its, "impl", "impl INode for " + sname)[2])
        if "node_base" not in nb or " ".join(nb["node_base"]["body"]) != "NodeBase :: new ( & self . attr_base , & self . elem_base )":
            raise ShapeError("%s::node_base is not NodeBase::new(&self.attr_base, &self.elem_base)" % sname)
        self.node_base_ok.add(sname)
        fs, order = fns_of(find_item(its, "impl", "impl %s for %s" % (iface, sname))[2])
        self.D.scan_getters(fs, sname)
        pos = len(self.defs)
        for n in fnames:
            f = fs.get(n)
            where = "%s::%s" % (sname, n)
            if not f:
                raise ShapeError("%s is gone" % where)
            if " ".join(f["generics"]) != "T : ValueStore , U : CacheStore" or f["where"]:
                raise ShapeError("%s: generics" % where)
            sty = T(sname)
            term, vals, okty = self.compile_fn(f, where, ("ref", False, sty))
            ps = "".join("(%s : %s) " % (cname(pn), self.D.ct(pt)) for pn, pt in vals)
            dn = "src_%s_%s" % (sname, n)
            self.emit(dn, "Definition %s (self : src_%s) %s: M %s :=\n%s." % (dn, sname, ps, self.D.ct(okty), term))
        self.defs.insert(pos, ("src_" + sname, self.D.emit_struct(sname)))


NODES = [("integer.rs", "IntegerNode", "IInteger", ["value", "set_value", "min", "max"]),
         ("float.rs", "FloatNode", "IFloat", ["value", "set_value", "min", "max"]),
         ("boolean.rs", "BooleanNode", "IBoolean", ["value", "set_value"]),
         ("enumeration.rs", "EnumerationNode", "IEnumeration", ["current_value", "set_entry_by_value"]),
         ("command.rs", "CommandNode", "ICommand", ["execute", "is_done"])]


def translate(repo):
    TVar.count = 0
    P = Program(repo)
    nbt = norm_text(repo, "genapi/src/node_base.rs")
    for pin in ("fn new ( attr : & 'a NodeAttributeBase , elem : & 'a NodeElementBase ) -> Self { Self { attr , elem } }",
                "fn id ( & self ) -> NodeId { self . attr . id }"):
        if nbt.count(pin) != 1:
            raise ShapeError("node_base.rs: NodeBase::new / NodeBase::id changed (`%s`)" % pin)
    li = norm_text(repo, "genapi/src/lib.rs")
    for n in ERRS:
        if not re.search(r"fn %s \(" % n, li):
            raise ShapeError("GenApiError::%s is gone" % n)
    P.load_elem_types()
    P.load_kinds()
    P.load_store()
    P.load_ivalue()
    for rel, sname, iface, fnames in NODES:
        P.load_node(rel, sname, iface, fnames)
    return P.defs


HEADER = """(* GENERATED by tools/translate_ivalue.py from genapi/src/{ivalue,elem_type,store,interface}.rs and
   genapi/src/{integer,float,boolean,enumeration,command}.rs - do not edit.  The operations are those of model/IvOps.v:
   a function that returns GenApiResult<X> is a computation M X of model/Graph.v's state monad, the trait IValue<T> is
   the record src_IValue of its methods, an impl is an instance (a generic impl takes one dictionary per where bound). *)
From Cam Require Import Outcome Bytes Mem BitField RegCodec Formula Graph IvOps.
"""


def render(defs):
    o = [HEADER]
    for n, text in defs:
        if not text.startswith("Definition"):
            o.append(text)
            o.append("")
    o.append("Section Src.\nVariable E : ivenv.\n")
    for n, text in defs:
        if text.startswith("Definition"):
            o.append(text)
            o.append("")
    o.append("End Src.")
    o.append("")
    names = [n for n, text in defs if text.startswith("Definition")]
    o.append("Create HintDb ivsrc.")
    line = "#[global] Hint Unfold"
    for n in names:
        if len(line) + len(n) + 1 > 110:
            o.append(line)
            line = "   "
        line += " " + n
    o.append(line + " : ivsrc.")
    o.append("")
    return "\n".join(o)


def regenerate(repo=None, out=None):
    repo = repo or os.environ.get("VERIF_REPO", "/repo")
    out = out or OUT
    text = render(translate(repo))
    old = open(out).read() if os.path.exists(out) else None
    if old != text:
        with open(out, "w") as f:
            f.write(text)
    return text


if __name__ == "__main__":
    try:
        text = regenerate(sys.argv[1] if len(sys.argv) > 1 else None, sys.argv[2] if len(sys.argv) > 2 else None)
    except ShapeError as e:
        print("ShapeError:", e)
        sys.exit(3)
    print(text)
