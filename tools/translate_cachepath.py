#!/usr/bin/env python3
"""tools/translate_cachepath.py -- CODE translator for the register caching path of genapi (property C04).

Re-run on every `./check C04`.  Reads

    genapi/src/register_base.rs         RegisterBase::{with_cache_or_read, read_and_cache, write_and_cache}
    genapi/src/port.rs                  <PortNode as IPort>::{read, write}
    genapi/src/lib.rs                   the ValueCtxt forwarders cache_data / get_cache / invalidate_cache_by /
                                        invalidate_cache_of / clear_cache
    genapi/src/store.rs                 trait CacheStore, struct DefaultCacheStore / CacheSink and their
                                        `impl CacheStore` / `impl builder::CacheStoreBuilder`
    genapi/src/builder.rs               trait CacheStoreBuilder
    genapi/src/parser/register_base.rs  RegisterBase::store_invalidators
    genapi/src/elem_type.rs             enum CachingMode (pinned)

and writes coq/theories/gen/CachePathSrc.v over the operation vocabulary of coq/theories/model/CacheOps.v:

  * the store methods become functions on the store value (`&mut self` -> the new `self`): HashMap / Vec operations
    as hm_get / hm_insert / hm_upsert / hm_or_default / hm_modify / vec_push, `if let Some(x) = m.get_mut(k)` and
    `for x in l` as match / fold_left over the rebinding of the one variable their body writes;
  * traits become records of their methods (src_CacheStore U, src_CacheStoreBuilder B), impls become instances;
  * the ValueCtxt forwarders become functions on the `cache_store` field, generic in the trait record D;
  * the register paths and the port methods become computations `X U A` (state: device, variables, cache store):
    every statement in program order, `?` = xbind, `return Err(..)` = xerr, `cx.m(..)` = x_cx_upd / x_cx_get of the
    translated forwarder, `self.length(..)` / `self.address(..)` / `expect_iport_kind` / `device.read_mem` /
    `device.write_mem` = the abstract operations x_length / x_address / x_expect_iport_kind / x_device_read /
    x_device_write.  A `&mut [u8]` parameter is returned as the result of a function whose Rust result is
    GenApiResult<()>.  A Result that is neither `?`-propagated nor returned is a ShapeError.

Anything outside the accepted shapes raises ShapeError - the check then reports the proof obligations of C04 as broken
instead of translating something else.  proofs/P_C04s.v proves the translated functions equal to model/Cache.v."""
import os, re, sys

HERE = os.path.dirname(os.path.abspath(__file__))
OUT = os.path.join(os.path.dirname(HERE), "coq", "theories", "gen", "CachePathSrc.v")


class ShapeError(Exception):
    pass


# ------------------------------------------------------------------------------------------------ tokens --
def strip_comments(s):
    s = re.sub(r"/\*.*?\*/", " ", s, flags=re.S)
    return re.sub(r"//[^\n]*", "", s)


TOK = re.compile(r"""\s*(
    "(?:[^"\\]|\\.)*" |
    '[a-z_]+(?!') |
    [A-Za-z_][A-Za-z0-9_]* |
    \d[\d_]*(?:_?[iu](?:8|16|32|64|size))? |
    :: | -> | => | == | != | <= | >= | \|\| | && | \.\. | \+= | -= |
    [(){}\[\],;:.|&^!\-+*/%<>=\#?$@]
)""", re.X)


def tokenize(s):
    out, pos = [], 0
    s = strip_comments(s).strip()
    while pos < len(s):
        m = TOK.match(s, pos)
        if not m:
            raise ShapeError("cannot tokenize %r" % s[pos:pos + 40])
        out.append(m.group(1))
        pos = m.end()
        while pos < len(s) and s[pos].isspace():
            pos += 1
    return out


OPEN = {"(": ")", "[": "]", "{": "}"}


def match_close(t, i):
    """t[i] is an opening bracket: index of its partner"""
    depth = 0
    for j in range(i, len(t)):
        if t[j] in OPEN:
            depth += 1
        elif t[j] in (")", "]", "}"):
            depth -= 1
            if depth == 0:
                return j
    raise ShapeError("unbalanced brackets")


IDENT = re.compile(r"[A-Za-z_][A-Za-z0-9_]*\Z")


def is_ident(x):
    return x is not None and IDENT.match(x) is not None and x not in KEYWORDS


KEYWORDS = {"let", "mut", "if", "else", "match", "for", "in", "return", "fn", "impl", "pub", "struct", "enum", "trait",
            "while", "loop", "as", "where", "type", "use", "const", "static", "ref", "move", "break", "continue", "unsafe",
            "dyn", "mod", "crate", "super"}


# ------------------------------------------------------------------------------------------------ items --
def skip_attr(t, i):
    while i < len(t) and t[i] == "#":
        if t[i + 1] == "!":
            i += 1
        if t[i + 1] != "[":
            raise ShapeError("attribute")
        i = match_close(t, i + 1) + 1
    return i


def items(tokens):
    """top-level items of a file: list of (kind, header tokens, body tokens or None, attribute tokens)"""
    out, i, t = [], 0, tokens
    while i < len(t):
        a0 = i
        i = skip_attr(t, i)
        attrs = t[a0:i]
        if i >= len(t):
            break
        j = i
        while j < len(t) and t[j] not in ("{", ";"):
            if t[j] in ("(", "["):
                j = match_close(t, j)
            j += 1
        if j >= len(t):
            raise ShapeError("item without end")
        hdr = t[i:j]
        words = [w for w in hdr if w not in ("pub", "crate", "super")]
        # pub(crate) -> drop the parenthesis pair too
        flat = " ".join(hdr)
        flat = re.sub(r"pub \( (?:crate|super) \) ", "", flat)
        flat = re.sub(r"^pub ", "", flat)
        hdr2 = flat.split(" ") if flat else []
        kind = hdr2[0] if hdr2 else ""
        if t[j] == ";":
            out.append((kind, hdr2, None, attrs))
            i = j + 1
            continue
        k = match_close(t, j)
        body = t[j + 1:k]
        i = k + 1
        if kind == "macro_rules":
            pass
        # `struct X { .. }` needs no `;`; `macro_rules! x { .. }` neither
        out.append((kind, hdr2, body, attrs))
    return out


def find_item(its, kind, header):
    """the unique item whose header (joined by blanks) equals `header`"""
    hits = [it for it in its if it[0] == kind and " ".join(it[1]) == header]
    if len(hits) != 1:
        raise ShapeError("expected exactly one `%s`, found %d" % (header, len(hits)))
    return hits[0]


# ------------------------------------------------------------------------------------------------ types --
class TP:
    """parser for types over a token list"""

    def __init__(self, t, i=0):
        self.t, self.i = t, i

    def peek(self, k=0):
        return self.t[self.i + k] if self.i + k < len(self.t) else None

    def eat(self, x=None):
        tok = self.peek()
        if tok is None or (x is not None and tok != x):
            raise ShapeError("type: expected %r, found %r in %r" % (x, tok, " ".join(self.t)))
        self.i += 1
        return tok

    def ty(self):
        p = self.peek()
        if p == "&":
            self.eat()
            if self.peek() is not None and self.peek().startswith("'"):
                self.eat()
            m = False
            if self.peek() == "mut":
                self.eat()
                m = True
            return ("ref", m, self.ty())
        if p == "&&":
            raise ShapeError("type &&")
        if p == "(":
            self.eat()
            xs = []
            while self.peek() != ")":
                xs.append(self.ty())
                if self.peek() == ",":
                    self.eat()
            self.eat(")")
            if not xs:
                return ("unit",)
            if len(xs) == 1:
                return xs[0]
            return ("tuple", tuple(xs))
        if p == "[":
            self.eat()
            e = self.ty()
            self.eat("]")
            return ("slice", e)
        if p == "impl":
            self.eat()
            inner = self.ty()
            if self.peek() == "(":            # impl FnOnce(&[u8]) -> GenApiResult<R>
                self.eat()
                args = []
                while self.peek() != ")":
                    args.append(self.ty())
                    if self.peek() == ",":
                        self.eat()
                self.eat(")")
                self.eat("->")
                r = self.ty()
                return ("implfn", inner, tuple(args), r)
            return ("impl", inner)
        if not is_ident(p) and p not in ("crate", "super"):
            raise ShapeError("type: unexpected %r in %r" % (p, " ".join(self.t)))
        segs = [self.eat()]
        while self.peek() == "::":
            self.eat()
            segs.append(self.eat())
        args = ()
        if self.peek() == "<":
            self.eat()
            xs = []
            while self.peek() != ">":
                xs.append(self.ty())
                if self.peek() == ",":
                    self.eat()
            self.eat(">")
            args = tuple(xs)
        return ("path", segs[-1], args)


def parse_type(toks):
    p = TP(toks)
    r = p.ty()
    if p.i != len(toks):
        raise ShapeError("trailing tokens in type %r" % " ".join(toks))
    return r


def strip_ref(ty):
    while ty[0] == "ref":
        ty = ty[2]
    return ty


INTS = {"NodeId", "i64", "u8", "usize", "u64", "u32", "i32"}


def coq_type(ty, tvars=()):
    ty = strip_ref(ty)
    if ty[0] == "unit":
        return "unit"
    if ty[0] == "tuple":
        return "(" + " * ".join(coq_type(x, tvars) for x in ty[1]) + ")"
    if ty[0] == "slice":
        return "(list %s)" % coq_type(ty[1], tvars)
    if ty[0] == "path":
        n, a = ty[1], ty[2]
        if n in INTS and not a:
            return "Z"
        if n == "bool" and not a:
            return "bool"
        if n == "Vec" and len(a) == 1:
            return "(list %s)" % coq_type(a[0], tvars)
        if n == "HashMap" and len(a) == 2:
            return "(hmap %s %s)" % (coq_type(a[0], tvars), coq_type(a[1], tvars))
        if n == "Option" and len(a) == 1:
            return "(option %s)" % coq_type(a[0], tvars)
        if n in tvars and not a:
            return n
    raise ShapeError("type %r has no translation" % (ty,))


def eqb_of(ty):
    ty = strip_ref(ty)
    if ty[0] == "path" and ty[1] in ("NodeId", "i64") and not ty[2]:
        return "Z.eqb"
    if ty == ("tuple", (("path", "i64", ()), ("path", "i64", ()))):
        return "key2_eqb"
    raise ShapeError("no key comparison for the type %r" % (ty,))


def default_of(ty):
    ty = strip_ref(ty)
    if ty[0] == "path" and ty[1] == "HashMap":
        return "hm_new"
    if ty[0] == "path" and ty[1] == "Vec":
        return "[]"
    if ty[0] == "unit":
        return "tt"
    raise ShapeError("no Default for the type %r" % (ty,))


# ------------------------------------------------------------------------------------------------ functions --
def split_top(t, sep=","):
    out, cur, i = [], [], 0
    depth = 0
    while i < len(t):
        x = t[i]
        if x in OPEN:
            j = match_close(t, i)
            cur.extend(t[i:j + 1])
            i = j + 1
            continue
        if x == "<":
            depth += 1
        elif x == ">":
            depth -= 1
        if x == sep and depth == 0:
            out.append(cur)
            cur = []
        else:
            cur.append(x)
        i += 1
    if cur:
        out.append(cur)
    return out


def fns_of(body):
    """the functions of an impl / trait body: name -> dict(recv, params [(pattern, type)], ret, body tokens or None,
    generics tokens); other members must be `type X = ..;`"""
    out, order, i, t = {}, [], 0, body
    while i < len(t):
        i = skip_attr(t, i)
        if i >= len(t):
            break
        if t[i] == "pub":
            i += 1
            if t[i] == "(":
                i = match_close(t, i) + 1
        if t[i] == "type":
            while t[i] != ";":
                i += 1
            i += 1
            continue
        if t[i] != "fn":
            raise ShapeError("member %r of an impl / trait is not a fn" % " ".join(t[i:i + 6]))
        name = t[i + 1]
        i += 2
        gen = []
        if t[i] == "<":
            depth, j = 0, i
            while True:
                if t[j] == "<":
                    depth += 1
                elif t[j] == ">":
                    depth -= 1
                    if depth == 0:
                        break
                j += 1
            gen = t[i + 1:j]
            i = j + 1
        if t[i] != "(":
            raise ShapeError("fn %s: parameter list" % name)
        j = match_close(t, i)
        ptoks = t[i + 1:j]
        i = j + 1
        ret = None
        stop = i
        while t[stop] not in ("{", ";", "where"):
            if t[stop] in ("(", "["):
                stop = match_close(t, stop)
            stop += 1
        if t[i] == "->":
            ret = parse_type(t[i + 1:stop])
        elif stop != i:
            raise ShapeError("fn %s: signature" % name)
        i = stop
        where = []
        if t[i] == "where":
            k = i
            while t[k] not in ("{", ";"):
                k += 1
            where = t[i + 1:k]
            i = k
        if t[i] == ";":
            fbody = None
            i += 1
        else:
            k = match_close(t, i)
            fbody = t[i + 1:k]
            i = k + 1
        recv, params = None, []
        for p in split_top(ptoks):
            s = " ".join(p)
            if s in ("& self", "& mut self", "self"):
                recv = s
                continue
            if ":" not in p:
                raise ShapeError("fn %s: parameter %r" % (name, s))
            c = p.index(":")
            pat = p[:c]
            if pat and pat[0] == "mut":
                raise ShapeError("fn %s: `mut` parameter %r" % (name, s))
            if len(pat) != 1 or not (is_ident(pat[0]) or pat[0] == "_"):
                raise ShapeError("fn %s: parameter pattern %r" % (name, s))
            params.append((pat[0], parse_type(p[c + 1:])))
        if name in out:
            raise ShapeError("fn %s defined twice" % name)
        out[name] = dict(name=name, recv=recv, params=params, ret=ret, body=fbody, generics=gen, where=where)
        order.append(name)
    return out, order


# ------------------------------------------------------------------------------------------------ bodies --
class BP:
    """recursive-descent parser for function bodies (the subset the translated functions use)"""

    def __init__(self, t):
        self.t, self.i = t, 0

    def peek(self, k=0):
        return self.t[self.i + k] if self.i + k < len(self.t) else None

    def eat(self, x=None):
        tok = self.peek()
        if tok is None or (x is not None and tok != x):
            raise ShapeError("expected %r, found %r near %r" % (x, tok, " ".join(self.t[max(0, self.i - 6):self.i + 6])))
        self.i += 1
        return tok

    def block_body(self):
        """stmt* [tail] up to the end of the token list / the closing brace: (stmts, tail or None)"""
        stmts, tail = [], None
        while self.peek() not in ("}", None):
            if tail is not None:
                raise ShapeError("statement after a tail expression")
            p = self.peek()
            if p == "let":
                self.eat()
                m = False
                if self.peek() == "mut":
                    self.eat()
                    m = True
                pat = self.pattern()
                if self.peek() == ":":
                    raise ShapeError("let with a type annotation")
                self.eat("=")
                e = self.expr()
                self.eat(";")
                stmts.append(("let", m, pat, e))
                continue
            if p in ("while", "loop", "use", "const", "fn", "static", "unsafe"):
                raise ShapeError("statement `%s`" % p)
            e = self.expr(stmt=True)
            if self.peek() == "=":
                self.eat()
                r = self.expr()
                self.eat(";")
                stmts.append(("assign", e, r))
                continue
            if self.peek() in ("+=", "-="):
                raise ShapeError("compound assignment")
            if self.peek() == ";":
                self.eat()
                stmts.append(("expr", e))
                continue
            if e[0] in ("if", "iflet", "match", "for", "block") and self.peek() not in ("}", None):
                stmts.append(("expr", e))
                continue
            tail = e
        return stmts, tail

    def braced(self):
        self.eat("{")
        s, t = self.block_body()
        self.eat("}")
        return ("block", s, t)

    def pattern(self):
        p = self.peek()
        if p == "_":
            self.eat()
            return ("wild",)
        if p == "(":
            self.eat()
            xs = []
            while self.peek() != ")":
                xs.append(self.pattern())
                if self.peek() == ",":
                    self.eat()
            self.eat(")")
            return ("ptuple", xs)
        if p in ("&", "ref", "mut"):
            raise ShapeError("pattern with %r" % p)
        if not is_ident(p):
            raise ShapeError("pattern %r" % p)
        segs = [self.eat()]
        while self.peek() == "::":
            self.eat()
            segs.append(self.eat())
        if self.peek() == "(":
            self.eat()
            xs = []
            while self.peek() != ")":
                xs.append(self.pattern())
                if self.peek() == ",":
                    self.eat()
            self.eat(")")
            return ("pctor", segs, xs)
        if self.peek() == "{":
            raise ShapeError("struct pattern")
        if len(segs) == 1 and segs[0][0].islower():
            return ("pvar", segs[0])
        return ("pctor", segs, [])

    def expr(self, stmt=False):
        return self.cmp(stmt)

    def cmp(self, stmt=False):
        a = self.cast(stmt)
        if stmt and a[0] in ("if", "iflet", "match", "for", "block"):
            return a
        while self.peek() in ("==", "!=", "<", ">", "<=", ">="):
            op = self.eat()
            b = self.cast()
            a = ("bin", op, a, b)
        if self.peek() in ("&&", "||", "+", "-", "*", "/", "%", "..", "|", "^", "&"):
            raise ShapeError("operator %r" % self.peek())
        return a

    def cast(self, stmt=False):
        a = self.unary(stmt)
        while self.peek() == "as":
            self.eat()
            tp = TP(self.t, self.i)
            ty = tp.ty()
            self.i = tp.i
            a = ("cast", a, ty)
        return a

    def unary(self, stmt=False):
        p = self.peek()
        if p == "&":
            self.eat()
            m = False
            if self.peek() == "mut":
                self.eat()
                m = True
            return ("ref", m, self.unary())
        if p == "*":
            self.eat()
            return ("deref", self.unary())
        if p == "!":
            self.eat()
            return ("not", self.unary())
        if p == "-":
            raise ShapeError("unary minus")
        return self.postfix(stmt)

    def args(self):
        self.eat("(")
        xs = []
        while self.peek() != ")":
            xs.append(self.expr())
            if self.peek() == ",":
                self.eat()
            elif self.peek() != ")":
                raise ShapeError("argument list near %r" % " ".join(self.t[self.i - 4:self.i + 4]))
        self.eat(")")
        return xs

    def postfix(self, stmt=False):
        e = self.primary()
        if stmt and e[0] in ("if", "iflet", "match", "for", "block"):
            return e
        while True:
            p = self.peek()
            if p == ".":
                self.eat()
                name = self.eat()
                if not is_ident(name):
                    raise ShapeError("field / method %r" % name)
                if self.peek() == "::":
                    raise ShapeError("turbofish")
                if self.peek() == "(":
                    e = ("mcall", e, name, self.args())
                else:
                    e = ("field", e, name)
            elif p == "(":
                e = ("call", e, self.args())
            elif p == "?":
                self.eat()
                e = ("try", e)
            elif p == "[":
                raise ShapeError("indexing")
            else:
                return e

    def primary(self):
        p = self.peek()
        if p is None:
            raise ShapeError("unexpected end of the body")
        if p == "(":
            self.eat()
            xs = []
            trailing = False
            while self.peek() != ")":
                xs.append(self.expr())
                trailing = False
                if self.peek() == ",":
                    self.eat()
                    trailing = True
            self.eat(")")
            if not xs:
                return ("unit",)
            if len(xs) == 1 and not trailing:
                return xs[0]
            return ("tuple", xs)
        if p == "{":
            return self.braced()
        if p == "|" or p == "||":
            pats = []
            if p == "||":
                self.eat()
            else:
                self.eat("|")
                while self.peek() != "|":
                    pats.append(self.pattern())
                    if self.peek() == ":":
                        raise ShapeError("closure parameter with a type")
                    if self.peek() == ",":
                        self.eat()
                self.eat("|")
            if self.peek() == "->":
                raise ShapeError("closure with a result type")
            return ("closure", pats, self.expr())
        if p == "move":
            raise ShapeError("move closure")
        if p == "if":
            self.eat()
            if self.peek() == "let":
                self.eat()
                pat = self.pattern()
                self.eat("=")
                e = self.expr()
                th = self.braced()
                el = None
                if self.peek() == "else":
                    self.eat()
                    if self.peek() == "if":
                        raise ShapeError("else if")
                    el = self.braced()
                return ("iflet", pat, e, th, el)
            c = self.expr()
            th = self.braced()
            el = None
            if self.peek() == "else":
                self.eat()
                if self.peek() == "if":
                    raise ShapeError("else if")
                el = self.braced()
            return ("if", c, th, el)
        if p == "match":
            self.eat()
            e = self.expr()
            self.eat("{")
            arms = []
            while self.peek() != "}":
                pat = self.pattern()
                if self.peek() in ("|", "if"):
                    raise ShapeError("match arm with `|` or a guard")
                self.eat("=>")
                b = self.expr(stmt=True)
                if self.peek() == ",":
                    self.eat()
                elif self.peek() != "}" and b[0] != "block":
                    raise ShapeError("match arm without a comma")
                arms.append((pat, b))
            self.eat("}")
            return ("match", e, arms)
        if p == "for":
            self.eat()
            pat = self.pattern()
            self.eat("in")
            e = self.expr()
            return ("for", pat, e, self.braced())
        if p == "return":
            self.eat()
            if self.peek() in (";", "}", ","):
                return ("return", None)
            return ("return", self.expr())
        if re.match(r"\d", p):
            self.eat()
            m = re.match(r"(\d[\d_]*?)_?([iu](?:8|16|32|64|size))?\Z", p)
            return ("lit", int(m.group(1).replace("_", "")), m.group(2))
        if p.startswith('"'):
            self.eat()
            return ("str", p)
        if is_ident(p) or p in ("crate", "super"):
            segs = [self.eat()]
            while self.peek() == "::":
                self.eat()
                if self.peek() == "<":
                    raise ShapeError("turbofish")
                segs.append(self.eat())
            if self.peek() == "!":
                if self.peek(1) == "=":      # `a != b` is one token, this is `a ! =`: cannot happen
                    raise ShapeError("`!`")
                self.eat()
                o = self.peek()
                if o not in OPEN:
                    raise ShapeError("macro call")
                j = match_close(self.t, self.i)
                toks = self.t[self.i + 1:j]
                self.i = j + 1
                return ("macro", "::".join(segs), toks)
            return ("path", segs)
        raise ShapeError("unexpected token %r near %r" % (p, " ".join(self.t[max(0, self.i - 6):self.i + 6])))


def parse_body(tokens):
    p = BP(tokens)
    s, t = p.block_body()
    if p.i != len(tokens):
        raise ShapeError("trailing tokens in a body")
    return ("block", s, t)


# ------------------------------------------------------------------------------------------------ helpers --
def paren(s):
    s = s.strip()
    if re.fullmatch(r"[A-Za-z_][A-Za-z0-9_.']*|\d+|\[\]", s) or (s.startswith("(") and match_paren_str(s)):
        return s
    return "(" + s + ")"


def match_paren_str(s):
    depth = 0
    for k, c in enumerate(s):
        if c == "(":
            depth += 1
        elif c == ")":
            depth -= 1
            if depth == 0:
                return k == len(s) - 1
    return False


def is_path(e, *segs):
    return e[0] == "path" and tuple(e[1]) == segs


def local_name(e):
    """e is a plain local (possibly behind & / &mut / *): its name"""
    while e[0] in ("ref", "deref"):
        e = e[2] if e[0] == "ref" else e[1]
    if e[0] == "path" and len(e[1]) == 1:
        return e[1][0]
    return None


T_NODEID = ("path", "NodeId", ())
T_I64 = ("path", "i64", ())
T_BYTES = ("slice", ("path", "u8", ()))
T_VECU8 = ("path", "Vec", (("path", "u8", ()),))


def same_type(a, b):
    a, b = strip_ref(a), strip_ref(b)
    if a == b:
        return True
    # &[u8] and Vec<u8> are both `list Z`
    lists = (T_BYTES, T_VECU8)
    return a in lists and b in lists


# ------------------------------------------------------------------------------------------------ store mode --
class Store:
    """functions on values: `&mut self` methods return the new self; mutable places are rebound by `let`"""

    def __init__(self, structs, builder_rec=None):
        self.structs = structs          # name -> [(field, type)]
        self.builder_rec = builder_rec  # (type variable, record name) for a generic `impl CacheStoreBuilder` parameter
        self.fresh = 0

    def tmp(self):
        self.fresh += 1
        return "t%d_" % self.fresh

    # -- places ------------------------------------------------------------------------------------------
    def place(self, e, env):
        """e denotes a mutable place: ('root', name, [fields], type) or ('alias', place, key term, eqb, type)"""
        while e[0] in ("ref", "deref"):
            e = e[2] if e[0] == "ref" else e[1]
        if e[0] == "path" and len(e[1]) == 1:
            n = e[1][0]
            b = env.get(n)
            if b is None:
                raise ShapeError("unknown name %r" % n)
            if b[0] == "place":
                return ("root", n, [], b[1])
            if b[0] == "alias":
                return b
            raise ShapeError("%r is not mutable here" % n)
        if e[0] == "field":
            base = self.place(e[1], env)
            if base[0] != "root":
                raise ShapeError("field of a borrowed map entry")
            sty = strip_ref(base[3])
            if sty[0] != "path" or sty[1] not in self.structs:
                raise ShapeError("field %r of a value of type %r" % (e[2], sty))
            for f, ft in self.structs[sty[1]]:
                if f == e[2]:
                    return ("root", base[1], base[2] + [(sty[1], f)], ft)
            raise ShapeError("struct %s has no field %r" % (sty[1], e[2]))
        raise ShapeError("not a place: %r" % (e[0],))

    def read(self, pl):
        if pl[0] != "root":
            raise ShapeError("reading through a borrowed map entry")
        t = pl[1]
        for sname, f in pl[2]:
            t = "(%s_%s %s)" % (sname, f, t)
        return t

    def write(self, pl, mk, out):
        """the place gets mk(old value); appends `let root := .. in` lines to out['lines'], records the root"""
        if pl[0] == "alias":
            _, base, key, eqb, vty = pl
            v = self.tmp()
            self.write(base, lambda old: "hm_modify %s %s (fun %s => %s) %s" % (eqb, paren(key), v, mk(v), paren(old)), out)
            return
        _, root, path, _ = pl
        new = mk(self.read(pl))
        # rebuild the enclosing records from the inside out
        for depth in range(len(path) - 1, -1, -1):
            sname, f = path[depth]
            outer = ("root", root, path[:depth], None)
            ot = self.read(outer)
            fields = []
            for g, _ in self.structs[sname]:
                fields.append("%s_%s := %s" % (sname, g, new if g == f else "%s_%s %s" % (sname, g, ot)))
            new = "{| " + "; ".join(fields) + " |}"
        out["lines"].append("let %s := %s in" % (root, new))
        out["written"].add(root)

    # -- values ------------------------------------------------------------------------------------------
    def value(self, e, env, binds=None):
        """(term, type or None) of a pure expression; `?` on an Option appends to binds"""
        k = e[0]
        if k in ("ref",):
            return self.value(e[2], env, binds)
        if k == "deref":
            return self.value(e[1], env, binds)
        if k == "unit":
            return "tt", ("unit",)
        if k == "lit":
            return str(e[1]), None
        if k == "path":
            if len(e[1]) == 1:
                n = e[1][0]
                b = env.get(n)
                if b is None:
                    if n == "None":
                        return "None", None
                    raise ShapeError("unknown name %r" % n)
                if b[0] in ("val", "place"):
                    return n, b[1]
                raise ShapeError("reading the borrowed map entry %r" % n)
            raise ShapeError("path %r as a value" % "::".join(e[1]))
        if k == "tuple":
            vs = [self.value(x, env, binds) for x in e[1]]
            tys = tuple(strip_ref(t) if t else None for _, t in vs)
            return "(" + ", ".join(v for v, _ in vs) + ")", (("tuple", tys) if all(tys) else None)
        if k == "field":
            pl = self.place_or_val_field(e, env)
            return pl
        if k == "call":
            if is_path(e[1], "HashMap", "new") and not e[2]:
                return "hm_new", None
            if is_path(e[1], "Vec", "new") and not e[2]:
                return "[]", None
            if is_path(e[1], "Some") and len(e[2]) == 1:
                v, t = self.value(e[2][0], env, binds)
                return "Some %s" % paren(v), (("path", "Option", (t,)) if t else None)
            raise ShapeError("call of %r" % (e[1],))
        if k == "mcall":
            recv, name, args = e[1], e[2], e[3]
            if name in ("to_owned", "as_ref", "clone", "to_vec", "as_slice") and not args:
                v, t = self.value(recv, env, binds)
                if t is None or strip_ref(t) not in (T_BYTES, T_VECU8):
                    raise ShapeError(".%s() on a value of type %r" % (name, t))
                return v, T_VECU8
            if name == "get" and len(args) == 1:
                m, mt = self.value(recv, env, binds)
                mt = strip_ref(mt) if mt else None
                if not mt or mt[0] != "path" or mt[1] != "HashMap":
                    raise ShapeError(".get on a value of type %r" % (mt,))
                kv, kt = self.value(args[0], env, binds)
                if kt is not None and not same_type(kt, mt[2][0]):
                    raise ShapeError(".get: key of type %r for a map keyed by %r" % (kt, mt[2][0]))
                if kt is None:
                    raise ShapeError(".get: key of unknown type")
                return "hm_get %s %s %s" % (eqb_of(mt[2][0]), paren(kv), paren(m)), ("path", "Option", (mt[2][1],))
            raise ShapeError("method .%s as a value" % name)
        if k == "try":
            if binds is None:
                raise ShapeError("`?` outside a function that returns Option")
            v, t = self.value(e[1], env, binds)
            t = strip_ref(t) if t else None
            if not t or t[0] != "path" or t[1] != "Option":
                raise ShapeError("`?` on a value of type %r" % (t,))
            n = self.tmp()
            binds.append((n, v))
            return n, t[2][0]
        raise ShapeError("expression %r as a value" % (k,))

    def place_or_val_field(self, e, env):
        base, bt = self.value(e[1], env)
        bt = strip_ref(bt) if bt else None
        if not bt or bt[0] != "path" or bt[1] not in self.structs:
            raise ShapeError("field %r of a value of type %r" % (e[2], bt))
        for f, ft in self.structs[bt[1]]:
            if f == e[2]:
                return "(%s_%s %s)" % (bt[1], f, base), ft
        raise ShapeError("struct %s has no field %r" % (bt[1], e[2]))

    # -- statements --------------------------------------------------------------------------------------
    def effect(self, e, env, out):
        """an expression evaluated for its effect on the mutable places"""
        k = e[0]
        if k == "mcall":
            recv, name, args = e[1], e[2], e[3]
            # m.entry(k).and_modify(f).or_insert_with(g)
            if (name == "or_insert_with" and len(args) == 1 and recv[0] == "mcall" and recv[2] == "and_modify"
                    and len(recv[3]) == 1 and recv[1][0] == "mcall" and recv[1][2] == "entry" and len(recv[1][3]) == 1):
                pl = self.place(recv[1][1], env)
                mt = strip_ref(pl[-1])
                if mt[0] != "path" or mt[1] != "HashMap":
                    raise ShapeError(".entry on a value of type %r" % (mt,))
                kt, vt = mt[2]
                kv = self.key(recv[1][3][0], kt, env)
                f = self.closure_modify(recv[3][0], vt, env)
                g = self.closure_value(args[0], vt, env)
                self.write(pl, lambda old: "hm_upsert %s %s %s %s %s" % (eqb_of(kt), paren(kv), paren(f), paren(g), paren(old)), out)
                return
            if name == "clear" and not args:
                pl = self.place(recv, env)
                d = default_of(pl[-1])
                self.write(pl, lambda old: d, out)
                return
            if name == "insert" and len(args) == 2:
                pl = self.place(recv, env)
                mt = strip_ref(pl[-1])
                if mt[0] != "path" or mt[1] != "HashMap":
                    raise ShapeError(".insert on a value of type %r" % (mt,))
                kv = self.key(args[0], mt[2][0], env)
                vv, vt = self.value(args[1], env)
                if vt is None or not same_type(vt, mt[2][1]):
                    raise ShapeError(".insert: value of type %r into a map of %r" % (vt, mt[2][1]))
                self.write(pl, lambda old: "hm_insert %s %s %s %s" % (eqb_of(mt[2][0]), paren(kv), paren(vv), paren(old)), out)
                return
            if name == "push" and len(args) == 1:
                pl = self.place(recv, env)
                vt = strip_ref(pl[-1])
                if vt[0] != "path" or vt[1] != "Vec":
                    raise ShapeError(".push on a value of type %r" % (vt,))
                xv, xt = self.value(args[0], env)
                if xt is None or not same_type(xt, vt[2][0]):
                    raise ShapeError(".push: element of type %r into %r" % (xt, vt))
                self.write(pl, lambda old: "vec_push %s %s" % (paren(old), paren(xv)), out)
                return
            if name == "clone_into" and len(args) == 1:
                pl = self.place(args[0], env)
                sv, st = self.value(recv, env)
                if st is None or not same_type(st, pl[-1]):
                    raise ShapeError("clone_into: %r into %r" % (st, pl[-1]))
                self.write(pl, lambda old: sv, out)
                return
            if name == "store_invalidator" and len(args) == 2 and self.builder_rec:
                pl = self.place(recv, env)
                if strip_ref(pl[-1]) != ("path", self.builder_rec[0], ()):
                    raise ShapeError("store_invalidator on a value of type %r" % (pl[-1],))
                a, at = self.value(args[0], env)
                b, bt = self.value(args[1], env)
                if strip_ref(at) != T_NODEID or strip_ref(bt) != T_NODEID:
                    raise ShapeError("store_invalidator: argument types")
                self.write(pl, lambda old: "CacheStoreBuilder_store_invalidator D %s %s %s" % (paren(a), paren(b), paren(old)), out)
                return
            raise ShapeError("method call .%s(..) as a statement" % name)
        if k == "iflet":
            pat, scrut, th, el = e[1], e[2], e[3], e[4]
            if el is not None:
                raise ShapeError("if let .. else in a store method")
            if not (pat[0] == "pctor" and pat[1] == ["Some"] and len(pat[2]) == 1 and pat[2][0][0] == "pvar"):
                raise ShapeError("if let pattern")
            name = pat[2][0][1]
            if not (scrut[0] == "mcall" and scrut[2] in ("get", "get_mut") and len(scrut[3]) == 1):
                raise ShapeError("if let scrutinee")
            env2 = dict(env)
            if scrut[2] == "get_mut":
                pl = self.place(scrut[1], env)
                mt = strip_ref(pl[-1])
                if mt[0] != "path" or mt[1] != "HashMap":
                    raise ShapeError(".get_mut on a value of type %r" % (mt,))
                kv = self.key(scrut[3][0], mt[2][0], env)
                test = "hm_get %s %s %s" % (eqb_of(mt[2][0]), paren(kv), paren(self.read(pl)))
                env2[name] = ("alias", pl, kv, eqb_of(mt[2][0]), mt[2][1])
                bound = "_"
            else:
                test, tt = self.value(scrut, env)
                env2[name] = ("val", tt[2][0])
                bound = name
            sub = {"lines": [], "written": set()}
            self.stmts(th[1], th[2], env2, sub)
            if len(sub["written"]) != 1:
                raise ShapeError("the body of `if let` must write exactly one variable, it writes %r" % sorted(sub["written"]))
            (root,) = sub["written"]
            if root == name or root not in env:
                raise ShapeError("`if let` body writes %r" % root)
            body = " ".join(sub["lines"] + [root])
            out["lines"].append("let %s := match %s with Some %s => %s | None => %s end in" % (root, test, bound, body, root))
            out["written"].add(root)
            return
        if k == "for":
            pat, it, body = e[1], e[2], e[3]
            if pat[0] != "pvar":
                raise ShapeError("for pattern")
            lv, lt = self.value(it, env)
            lt = strip_ref(lt) if lt else None
            if not lt or lt[0] != "path" or lt[1] != "Vec":
                raise ShapeError("for over a value of type %r" % (lt,))
            env2 = dict(env)
            env2[pat[1]] = ("val", lt[2][0])
            sub = {"lines": [], "written": set()}
            self.stmts(body[1], body[2], env2, sub)
            if len(sub["written"]) != 1:
                raise ShapeError("the body of `for` must write exactly one variable, it writes %r" % sorted(sub["written"]))
            (root,) = sub["written"]
            if root == pat[1] or root not in env:
                raise ShapeError("`for` body writes %r" % root)
            out["lines"].append("let %s := fold_left (fun %s %s => %s) %s %s in"
                                % (root, root, pat[1], " ".join(sub["lines"] + [root]), paren(lv), root))
            out["written"].add(root)
            return
        if k == "block":
            self.stmts(e[1], e[2], env, out)
            return
        raise ShapeError("statement %r in a store method" % (k,))

    def key(self, e, kt, env):
        v, t = self.value(e, env)
        if t is None or not same_type(t, kt):
            raise ShapeError("key of type %r for a map keyed by %r" % (t, kt))
        return v

    def stmts(self, stmts, tail, env, out):
        """all of the block is effect (no value)"""
        env = dict(env)
        for s in stmts:
            if s[0] == "expr":
                self.effect(s[1], env, out)
            elif s[0] == "assign":
                lhs = s[1]
                if lhs[0] != "deref":
                    raise ShapeError("assignment to something that is not `*p`")
                pl = self.place(lhs[1], env)
                v, vt = self.value(s[2], env)
                if vt is not None and not same_type(vt, pl[-1]):
                    raise ShapeError("assignment of %r to %r" % (vt, pl[-1]))
                if vt is None and v not in ("hm_new", "[]"):
                    raise ShapeError("assignment of a value of unknown type")
                self.write(pl, lambda old: v, out)
            elif s[0] == "let":
                self.let(s, env, out)
            else:
                raise ShapeError("statement %r" % (s[0],))
        if tail is not None:
            self.effect(tail, env, out)

    def let(self, s, env, out):
        _, mut, pat, e = s
        if pat[0] != "pvar":
            raise ShapeError("let pattern")
        n = pat[1]
        # let p = m.entry(k).or_default();   p is the binding of k in m
        if (not mut and e[0] == "mcall" and e[2] == "or_default" and not e[3] and e[1][0] == "mcall"
                and e[1][2] == "entry" and len(e[1][3]) == 1):
            pl = self.place(e[1][1], env)
            mt = strip_ref(pl[-1])
            if mt[0] != "path" or mt[1] != "HashMap":
                raise ShapeError(".entry on a value of type %r" % (mt,))
            kv = self.key(e[1][3][0], mt[2][0], env)
            eq = eqb_of(mt[2][0])
            d = default_of(mt[2][1])
            self.write(pl, lambda old: "hm_or_default %s %s %s %s" % (eq, paren(kv), d, paren(old)), out)
            env[n] = ("alias", pl, kv, eq, mt[2][1])
            return
        raise ShapeError("let %s = <%s> in a store method" % (n, e[0]))

    # -- closures ----------------------------------------------------------------------------------------
    def closure_modify(self, c, vt, env):
        """|p| <effects on p>  ->  fun p => new p"""
        if c[0] != "closure" or len(c[1]) != 1 or c[1][0][0] != "pvar":
            raise ShapeError("and_modify argument")
        p = c[1][0][1]
        env2 = dict(env)
        env2[p] = ("place", vt)
        sub = {"lines": [], "written": set()}
        self.effect(c[2], env2, sub)
        if sub["written"] != {p}:
            raise ShapeError("the and_modify closure must write its parameter only")
        return "fun %s => %s" % (p, " ".join(sub["lines"] + [p]))

    def closure_value(self, c, vt, env):
        """|| value  or  || { let mut x = HashMap::new(); <effects on x>; x }"""
        if c[0] != "closure" or c[1]:
            raise ShapeError("or_insert_with argument")
        b = c[2]
        if b[0] != "block":
            v, t = self.value(b, env)
            if t is None or not same_type(t, vt):
                raise ShapeError("or_insert_with: value of type %r for %r" % (t, vt))
            return v
        stmts, tail = b[1], b[2]
        if (not stmts or stmts[0][0] != "let" or not stmts[0][1] or stmts[0][2][0] != "pvar" or tail is None
                or local_name(tail) != stmts[0][2][1] or tail[0] != "path"):
            raise ShapeError("or_insert_with block")
        x = stmts[0][2][1]
        init, it = self.value(stmts[0][3], env)
        if init != default_of(vt) or it is not None:
            raise ShapeError("or_insert_with block: initial value")
        env2 = dict(env)
        env2[x] = ("place", vt)
        sub = {"lines": ["let %s := %s in" % (x, init)], "written": set()}
        self.stmts(stmts[1:], None, env2, sub)
        if sub["written"] - {x}:
            raise ShapeError("or_insert_with block writes %r" % sorted(sub["written"]))
        return " ".join(sub["lines"] + [x])


# ------------------------------------------------------------------------------------------------ struct / trait --
def struct_fields(item):
    """named fields of a `struct X { .. }` item: [(name, type)]"""
    if item[2] is None:
        raise ShapeError("struct without named fields: %r" % " ".join(item[1]))
    out, t, i = [], item[2], 0
    for part in split_top(t):
        j = skip_attr(part, 0)
        part = part[j:]
        if not part:
            continue
        if part[0] == "pub":
            part = part[1:]
            if part and part[0] == "(":
                part = part[match_close(part, 0) + 1:]
        if len(part) < 3 or part[1] != ":" or not is_ident(part[0]):
            raise ShapeError("struct field %r" % " ".join(part))
        out.append((part[0], parse_type(part[2:])))
    return out


def derives(item):
    s = " ".join(item[3])
    m = re.findall(r"derive \( ([^)]*) \)", s)
    out = set()
    for g in m:
        out |= {x.strip() for x in g.split(",") if x.strip()}
    return out


def value_params(fn):
    """[(name, coq type)] of the parameters that are values"""
    out = []
    for n, ty in fn["params"]:
        out.append((n, coq_type(ty)))
    return out


def trait_record(trait_item, name, tvar, only=None):
    """Record src_<name> (tvar : Type) from the required methods of a trait"""
    fs, order = fns_of(trait_item[2])
    fields = []
    sigs = {}
    for n in order:
        f = fs[n]
        if only is not None and n not in only:
            continue
        if f["body"] is not None:
            raise ShapeError("trait %s: provided method %s" % (name, n))
        if f["generics"] or f["where"]:
            raise ShapeError("trait %s: generic method %s" % (name, n))
        args = [coq_type(ty) for _, ty in f["params"]]
        if f["recv"] == "& mut self" and f["ret"] is None:
            ty = " -> ".join(args + [tvar, tvar])
            kind = "upd"
        elif f["recv"] == "& self" and f["ret"] is not None:
            ty = " -> ".join(args + [tvar, coq_type(f["ret"])])
            kind = "get"
        else:
            raise ShapeError("trait %s: method %s has a receiver / result the translator does not know" % (name, n))
        fields.append((n, ty))
        sigs[n] = dict(kind=kind, params=[ty for _, ty in f["params"]], ret=f["ret"])
    return fields, sigs


def translate_store_impl(S, impl_item, trait_sigs, sname, defs, prefix):
    """the methods of `impl <Trait> for <sname>`: Definitions src_<sname>_<fn>"""
    fs, order = fns_of(impl_item[2])
    names = []
    for n in order:
        f = fs[n]
        if n not in trait_sigs:
            continue
        sig = trait_sigs[n]
        if [strip_ref(t) for _, t in f["params"]] != [strip_ref(t) for t in sig["params"]] or f["generics"] or f["where"]:
            raise ShapeError("%s::%s: signature differs from the trait's" % (sname, n))
        env = {"self": ("place", ("path", sname, ())) if sig["kind"] == "upd" else ("val", ("path", sname, ()))}
        params = []
        k = 0
        for pn, pt in f["params"]:
            if pn == "_":
                k += 1
                pn = "a%d_" % k
            else:
                env[pn] = ("val", pt)
            params.append("(%s : %s)" % (pn, coq_type(pt)))
        body = parse_body(f["body"])
        S.fresh = 0
        if sig["kind"] == "upd":
            if (f["recv"], f["ret"]) != ("& mut self", None):
                raise ShapeError("%s::%s: receiver / result" % (sname, n))
            out = {"lines": [], "written": set()}
            S.stmts(body[1], body[2], env, out)
            if out["written"] - {"self"}:
                raise ShapeError("%s::%s writes %r" % (sname, n, sorted(out["written"])))
            term = "\n  ".join(out["lines"] + ["self"])
            rty = "src_" + sname
        else:
            if f["recv"] != "& self" or f["ret"] != sig["ret"]:
                raise ShapeError("%s::%s: receiver / result" % (sname, n))
            if body[1] or body[2] is None:
                raise ShapeError("%s::%s: body is not a single expression" % (sname, n))
            binds = []
            v, vt = S.value(body[2], env, binds)
            if vt is not None and strip_ref(vt)[0:2] != ("path", "Option"):
                raise ShapeError("%s::%s: result type" % (sname, n))
            if vt is not None and not same_type(strip_ref(vt)[2][0], strip_ref(sig["ret"])[2][0]):
                raise ShapeError("%s::%s: result type %r" % (sname, n, vt))
            term = v
            for bn, bv in reversed(binds):
                term = "obind %s (fun %s => %s)" % (paren(bv), bn, term)
            rty = coq_type(sig["ret"])
        dn = "src_%s_%s" % (sname, n)
        defs.append((dn, "Definition %s %s (self : src_%s) : %s :=\n  %s." % (dn, " ".join(params), sname, rty, term)))
        names.append(n)
    missing = [n for n in trait_sigs if n not in names]
    if missing:
        raise ShapeError("impl for %s lacks %r" % (sname, missing))
    extra = [n for n in order if n not in trait_sigs and n != "build"]
    if extra:
        raise ShapeError("impl for %s has the unknown members %r" % (sname, extra))
    return fs


def record_decl(name, tparams, fields, prefix):
    tp = "".join(" (%s : Type)" % t for t in tparams)
    s = "Record src_%s%s := { " % (name, tp) + ";\n  ".join("%s_%s : %s" % (prefix, f, ty) for f, ty in fields) + " }."
    if tparams:
        for f, _ in fields:
            s += "\nArguments %s_%s {%s} _." % (prefix, f, " ".join(tparams))
    return s


# ------------------------------------------------------------------------------------------------ path mode --
ERRS = {"invalid_buffer": "E_INVALID_BUFFER", "chunk_data_missing": "E_CHUNK_MISSING"}
PLUMB = {"device": ("ref", True, ("impl", ("path", "Device", ()))),
         "store": ("ref", False, ("impl", ("path", "NodeStore", ()))),
         "cx": ("ref", True, ("path", "ValueCtxt", (("path", "T", ()), ("path", "U", ()))))}
T_MUTBUF = ("ref", True, T_BYTES)


def classify_params(fn, where):
    """-> (values [(name, rust type)], plumbing {kind: name}, out-buffer name or None, closure (name, type) or None)"""
    vals, plumb, outbuf, clo = [], {}, None, None
    for n, ty in fn["params"]:
        kind = [k for k, t in PLUMB.items() if t == ty]
        if kind:
            if kind[0] in plumb:
                raise ShapeError("%s: two %s parameters" % (where, kind[0]))
            plumb[kind[0]] = n
            continue
        if ty == T_MUTBUF:
            if outbuf:
                raise ShapeError("%s: two `&mut [u8]` parameters" % where)
            outbuf = n
            vals.append((n, ty))
            continue
        if ty[0] == "implfn":
            if clo or ty[1] != ("path", "FnOnce", ()) or len(ty[2]) != 1 or strip_ref(ty[2][0]) != T_BYTES \
                    or ty[3][0:2] != ("path", "GenApiResult") or len(ty[3][2]) != 1:
                raise ShapeError("%s: closure parameter %r" % (where, n))
            clo = (n, ty)
            continue
        if ty[0] == "ref" and ty[1]:
            raise ShapeError("%s: `&mut` parameter %r" % (where, n))
        if n == "_":
            raise ShapeError("%s: unnamed value parameter" % where)
        coq_type(ty)
        vals.append((n, ty))
    if set(plumb) != {"device", "store", "cx"}:
        raise ShapeError("%s: expected the parameters device: &mut impl Device, store: &impl NodeStore, "
                         "cx: &mut ValueCtxt<T, U>" % where)
    return vals, plumb, outbuf, clo


class Path:
    """computations X U A"""

    def __init__(self, fwd, self_kind, fn, where, callees):
        self.fwd = fwd                # forwarder name -> dict(kind, params)
        self.self_kind = self_kind    # "RegisterBase" | "PortNode"
        self.fn = fn
        self.where = where
        self.callees = callees        # name -> dict(def name, vals, outbuf, ret unit?)  (methods callable on self / a port)
        self.vals, self.plumb, self.outbuf, self.clo = classify_params(fn, where)
        self.fresh = 0
        ret = fn["ret"]
        if not ret or ret[0:2] != ("path", "GenApiResult") or len(ret[2]) != 1:
            raise ShapeError("%s: result type" % where)
        self.ret = ret[2][0]
        if self.outbuf and self.ret != ("unit",):
            raise ShapeError("%s: a `&mut [u8]` parameter and a result" % where)

    def tmp(self):
        self.fresh += 1
        return "t%d_" % self.fresh

    def is_plumb(self, e, kind):
        return e[0] == "path" and e[1] == [self.plumb[kind]] and self.plumb[kind] != "_"

    def plumbing_args(self, args, what):
        if len(args) != 3 or not (self.is_plumb(args[0], "device") and self.is_plumb(args[1], "store")
                                  and self.is_plumb(args[2], "cx")):
            raise ShapeError("%s: %s must be passed (device, store, cx)" % (self.where, what))

    # -- pure expressions --------------------------------------------------------------------------------
    def pure(self, e, env):
        """(term, rust type)"""
        k = e[0]
        if k == "ref":
            v, t = self.pure(e[2], env)
            return v, t
        if k == "path" and len(e[1]) == 1:
            n = e[1][0]
            if n not in env:
                raise ShapeError("%s: unknown name %r" % (self.where, n))
            return n, strip_ref(env[n])
        if k == "path" and len(e[1]) == 2 and e[1][0] == "CachingMode":
            if e[1][1] not in MODES:
                raise ShapeError("%s: CachingMode::%s" % (self.where, e[1][1]))
            return "CachingMode_" + e[1][1], ("path", "CachingMode", ())
        if k == "field" and is_path(e[1], "self"):
            if self.self_kind == "RegisterBase" and e[2] in RB_FIELDS:
                return "(RegisterBase_%s self)" % e[2], RB_FIELDS[e[2]]
            raise ShapeError("%s: field self.%s" % (self.where, e[2]))
        if k == "mcall" and e[2] == "len" and not e[3]:
            v, t = self.pure(e[1], env)
            if t not in (T_BYTES, T_VECU8):
                raise ShapeError("%s: .len() of %r" % (self.where, t))
            return "zlen %s" % paren(v), ("path", "usize", ())
        if (k == "mcall" and e[2] == "is_some" and not e[3] and e[1][0] == "field" and is_path(e[1][1], "self")
                and e[1][2] == "chunk_id" and self.self_kind == "PortNode"):
            return "PortNode_chunk_id_is_some self", ("path", "bool", ())
        if (k == "mcall" and e[2] == "id" and not e[3] and e[1][0] == "mcall" and e[1][2] == "node_base" and not e[1][3]
                and is_path(e[1][1], "self") and self.self_kind == "PortNode"):
            return "PortNode_id self", T_NODEID
        if k == "cast":
            v, t = self.pure(e[1], env)
            if t == T_I64 and e[2] == ("path", "usize", ()):
                return "r_cast 64 %s" % paren(v), ("path", "usize", ())
            raise ShapeError("%s: cast of %r to %r" % (self.where, t, e[2]))
        if k == "bin":
            a, ta = self.pure(e[2], env)
            b, tb = self.pure(e[3], env)
            if ta != tb:
                raise ShapeError("%s: comparison of %r with %r" % (self.where, ta, tb))
            op = e[1]
            if ta == ("path", "CachingMode", ()):
                if op not in ("==", "!="):
                    raise ShapeError("%s: %s on CachingMode" % (self.where, op))
                t = "CachingMode_eqb %s %s" % (paren(a), paren(b))
            elif ta[0] == "path" and ta[1] in INTS:
                t = {"==": "%s =? %s", "!=": "%s =? %s", "<": "%s <? %s", ">": "%s >? %s", "<=": "%s <=? %s",
                     ">=": "%s >=? %s"}[op] % (paren(a), paren(b))
            else:
                raise ShapeError("%s: comparison at type %r" % (self.where, ta))
            if op == "!=":
                t = "negb (%s)" % t
            return t, ("path", "bool", ())
        if k == "not":
            v, t = self.pure(e[1], env)
            if t != ("path", "bool", ()):
                raise ShapeError("%s: `!` on %r" % (self.where, t))
            return "negb %s" % paren(v), t
        if k == "macro" and e[1] == "vec":
            parts = split_top(e[2], ";")
            if len(parts) != 2 or parts[0] != ["0"]:
                raise ShapeError("%s: vec! that is not vec![0; n]" % self.where)
            n, nt = self.pure(parse_body(parts[1])[2], env)
            if nt != ("path", "usize", ()):
                raise ShapeError("%s: vec![0; n] with n of type %r" % (self.where, nt))
            return "vec_zeros %s" % paren(n), T_VECU8
        raise ShapeError("%s: expression %r" % (self.where, k))

    def value_args(self, args, tys, env, what):
        if len(args) != len(tys):
            raise ShapeError("%s: %s takes %d arguments" % (self.where, what, len(tys)))
        out = []
        for a, ty in zip(args, tys):
            v, t = self.pure(a, env)
            if not same_type(t, ty):
                raise ShapeError("%s: %s: argument of type %r for %r" % (self.where, what, t, ty))
            out.append(paren(v))
        return out

    # -- calls that return a GenApiResult ----------------------------------------------------------------
    def xcall(self, e, env, pre):
        """a call that returns GenApiResult: (term : X U A, rust type A, name the result rebinds or None);
        `?` inside the receiver chain appends (name, term) to pre"""
        if e[0] == "mcall":
            recv, name, args = e[1], e[2], e[3]
            if is_path(recv, "self") and self.self_kind == "RegisterBase" and name in ("length", "address"):
                self.plumbing_args(args, "self.%s" % name)
                return "x_%s self" % name, T_I64, None
            if (name == "expect_iport_kind" and recv[0] == "field" and is_path(recv[1], "self") and recv[2] == "p_port"
                    and self.self_kind == "RegisterBase"):
                if len(args) != 1 or not self.is_plumb(args[0], "store"):
                    raise ShapeError("%s: expect_iport_kind(store)" % self.where)
                return "x_expect_iport_kind (RegisterBase_p_port self)", ("path", "IPortKind", ()), None
            # a translated method of self, or of the port `expect_iport_kind(store)?` returned
            target = None
            if is_path(recv, "self"):
                target, owner = "self", self.self_kind
            elif recv[0] == "try":
                t, ty, rb = self.xcall(recv[1], env, pre)
                if ty != ("path", "IPortKind", ()) or rb:
                    raise ShapeError("%s: method .%s on a %r" % (self.where, name, ty))
                target = self.tmp()
                pre.append((target, t))
                owner = "PortNode"
            if target and (owner, name) in self.callees:
                c = self.callees[(owner, name)]
                nv = len(c["vals"])
                if len(args) != nv + 3:
                    raise ShapeError("%s: arguments of .%s" % (self.where, name))
                # the order of the callee's parameters: values first, then (device, store, cx) - checked when it was translated
                self.plumbing_args(args[nv:], "." + name)
                vs, rebind = [], None
                for a, (pn, pty) in zip(args[:nv], c["vals"]):
                    if pty == T_MUTBUF:
                        nm = None
                        if a[0] == "ref" and a[1] and a[2][0] == "path" and len(a[2][1]) == 1:
                            nm = a[2][1][0]
                            if env.get(nm) not in (T_VECU8,) or nm not in self.mutables:
                                raise ShapeError("%s: `&mut %s` is not a mutable byte vector" % (self.where, nm))
                        elif a[0] == "path" and len(a[1]) == 1 and a[1][0] == self.outbuf:
                            nm = a[1][0]
                        if nm is None:
                            raise ShapeError("%s: the buffer argument of .%s" % (self.where, name))
                        rebind = nm
                        vs.append(nm)
                    else:
                        v, t = self.pure(a, env)
                        if not same_type(t, pty):
                            raise ShapeError("%s: .%s: argument of type %r for %r" % (self.where, name, t, pty))
                        vs.append(paren(v))
                return "%s D %s %s" % (c["def"], target, " ".join(vs)), ("unit",), rebind
            # device.read_mem(address, buf).map_err(GenApiError::device)
            if (name == "map_err" and len(args) == 1 and is_path(args[0], "GenApiError", "device") and recv[0] == "mcall"
                    and self.is_plumb(recv[1], "device") and recv[2] in ("read_mem", "write_mem") and len(recv[3]) == 2):
                a, ta = self.pure(recv[3][0], env)
                if ta != T_I64:
                    raise ShapeError("%s: device address of type %r" % (self.where, ta))
                b = recv[3][1]
                if recv[2] == "read_mem":
                    if not (b[0] == "path" and b[1] == [self.outbuf]):
                        raise ShapeError("%s: read_mem into something that is not the `&mut [u8]` parameter" % self.where)
                    return "x_device_read %s %s" % (paren(a), self.outbuf), ("unit",), self.outbuf
                bv, tb = self.pure(b, env)
                if tb not in (T_BYTES, T_VECU8):
                    raise ShapeError("%s: write_mem of %r" % (self.where, tb))
                return "x_device_write %s %s" % (paren(a), paren(bv)), ("unit",), None
        raise ShapeError("%s: call %r is not one the translator knows" % (self.where, call_name(e)))

    # -- statements --------------------------------------------------------------------------------------
    def unit_result(self):
        """what `Ok(())` returns"""
        return "xret %s" % (self.outbuf if self.outbuf else "tt")

    def wrap_pre(self, pre, term):
        for n, t in reversed(pre):
            term = "xbind (%s) (fun %s =>\n%s)" % (t, n, term)
        return term

    def cx_call(self, e, env, want):
        """cx.<forwarder>(args): the translated forwarder applied to its value arguments"""
        if not (e[0] == "mcall" and self.is_plumb(e[1], "cx")):
            return None
        name = e[2]
        if name not in self.fwd:
            raise ShapeError("%s: cx.%s is not a translated forwarder" % (self.where, name))
        f = self.fwd[name]
        if f["kind"] != want:
            raise ShapeError("%s: cx.%s used as %s" % (self.where, name, want))
        vs = self.value_args(e[3], f["params"], env, "cx." + name)
        return "src_ValueCtxt_%s D %s" % (name, " ".join(vs)) if vs else "src_ValueCtxt_%s D" % name

    def unit_block(self, e, env):
        """a block / expression of type () evaluated for its effects: X U unit"""
        if e[0] == "block":
            return self.seq(e[1], e[2], env, unit=True)
        return self.seq([("expr", e)], None, env, unit=True)

    def seq(self, stmts, tail, env, unit=False):
        """the statements from here to the end of the function (unit=False) or of a ()-block (unit=True)"""
        env = dict(env)
        if not stmts:
            if tail is None:
                if unit:
                    return "xret tt"
                raise ShapeError("%s: the function ends without a value" % self.where)
            if unit:
                return self.seq([("expr", tail)], None, env, unit=True)
            return self.tail(tail, env)
        s, rest = stmts[0], stmts[1:]
        if s[0] == "let":
            _, mut, pat, e = s
            if pat[0] != "pvar":
                raise ShapeError("%s: let pattern" % self.where)
            n = pat[1]
            if n in self.plumb.values() or n in ("self", "D"):
                raise ShapeError("%s: let shadows %r" % (self.where, n))
            if e[0] == "try":
                pre = []
                t, ty, rb = self.xcall(e[1], env, pre)
                if rb or ty == ("unit",):
                    raise ShapeError("%s: let %s = <unit call>" % (self.where, n))
                if mut:
                    raise ShapeError("%s: let mut %s = ..?" % (self.where, n))
                env[n] = ty
                return self.wrap_pre(pre, "xbind (%s) (fun %s =>\n%s)" % (t, n, self.seq(rest, tail, env, unit)))
            self.no_result_dropped(e)
            v, ty = self.pure(e, env)
            env[n] = ty
            if mut:
                if ty != T_VECU8:
                    raise ShapeError("%s: let mut %s of type %r" % (self.where, n, ty))
                self.mutables.add(n)
            return "let %s := %s in\n%s" % (n, v, self.seq(rest, tail, env, unit))
        if s[0] != "expr":
            raise ShapeError("%s: statement %r" % (self.where, s[0]))
        e = s[1]
        k = self.seq(rest, tail, env, unit)
        if e[0] == "try":
            pre = []
            t, ty, rb = self.xcall(e[1], env, pre)
            if ty != ("unit",):
                raise ShapeError("%s: the value of a `?` statement is dropped" % self.where)
            return self.wrap_pre(pre, "xbind (%s) (fun %s =>\n%s)" % (t, rb or "_", k))
        c = self.cx_call(e, env, "upd")
        if c:
            return "xbind (x_cx_upd (%s)) (fun _ =>\n%s)" % (c, k)
        if e[0] == "if":
            cond, th, el = e[1], e[2], e[3]
            cv, ct = self.pure(cond, env)
            if ct != ("path", "bool", ()):
                raise ShapeError("%s: if on %r" % (self.where, ct))
            if el is None and len(th[1]) == 1 and th[2] is None and th[1][0][0] == "expr" and th[1][0][1][0] == "return":
                r = self.tail(th[1][0][1][1], env) if th[1][0][1][1] is not None else None
                if r is None:
                    raise ShapeError("%s: bare return" % self.where)
                return "if %s then %s else\n%s" % (cv, r, k)
            if el is None:
                return "xbind (if %s then %s else xret tt) (fun _ =>\n%s)" % (cv, self.unit_block(th, env), k)
            return "xbind (if %s then %s else %s) (fun _ =>\n%s)" % (cv, self.unit_block(th, env), self.unit_block(el, env), k)
        if e[0] == "match":
            return "xbind (%s) (fun _ =>\n%s)" % (self.match_mode(e, env, lambda b: self.unit_block(b, env)), k)
        if e[0] == "block":
            return "xbind (%s) (fun _ =>\n%s)" % (self.unit_block(e, env), k)
        if e[0] == "return":
            raise ShapeError("%s: return in the middle of a block" % self.where)
        raise ShapeError("%s: statement `%s` (a Result that is neither `?`-propagated nor returned, or an unknown "
                         "effect)" % (self.where, call_name(e)))

    def match_mode(self, e, env, arm):
        sv, st = self.pure(e[1], env)
        if st != ("path", "CachingMode", ()):
            raise ShapeError("%s: match on %r" % (self.where, st))
        seen, arms = [], []
        for pat, body in e[2]:
            if pat[0] != "pctor" or len(pat[1]) != 2 or pat[1][0] != "CachingMode" or pat[2] or pat[1][1] not in MODES:
                raise ShapeError("%s: match arm pattern %r" % (self.where, pat))
            if pat[1][1] in seen:
                raise ShapeError("%s: duplicate match arm" % self.where)
            seen.append(pat[1][1])
            arms.append("| CachingMode_%s => %s" % (pat[1][1], arm(body)))
        if sorted(seen) != sorted(MODES):
            raise ShapeError("%s: match does not list every CachingMode" % self.where)
        return "match %s with\n%s\nend" % (sv, "\n".join(arms))

    def no_result_dropped(self, e):
        """a pure `let` must not hide a call that returns a Result"""
        def walk(x):
            if isinstance(x, tuple):
                if x and x[0] == "mcall" and x[2] in ("read", "write", "length", "address", "read_and_cache", "write_and_cache",
                                                      "with_cache_or_read", "expect_iport_kind", "read_mem", "write_mem",
                                                      "map_err"):
                    raise ShapeError("%s: a Result that is neither `?`-propagated nor returned (.%s)" % (self.where, x[2]))
                for y in x:
                    walk(y)
            elif isinstance(x, list):
                for y in x:
                    walk(y)
        walk(e)

    def tail(self, e, env):
        """the expression whose value the function returns: X U <result>"""
        if e[0] == "return":
            if e[1] is None:
                raise ShapeError("%s: bare return" % self.where)
            return self.tail(e[1], env)
        if e[0] == "block":
            return self.seq(e[1], e[2], env)
        if e[0] == "call" and is_path(e[1], "Ok") and len(e[2]) == 1:
            if e[2][0] != ("unit",) or self.ret != ("unit",):
                raise ShapeError("%s: Ok(..) of something else than ()" % self.where)
            return self.unit_result()
        if e[0] == "call" and is_path(e[1], "Err") and len(e[2]) == 1:
            x = e[2][0]
            if x[0] == "call" and x[1][0] == "path" and len(x[1][1]) == 2 and x[1][1][0] == "GenApiError" and x[1][1][1] in ERRS:
                return "xerr %s" % ERRS[x[1][1][1]]
            raise ShapeError("%s: Err(..) of an unknown error" % self.where)
        if e[0] == "macro" and e[1] == "todo" and not e[2]:
            return "xpanic"
        if e[0] == "call" and self.clo and is_path(e[1], self.clo[0]) and len(e[2]) == 1:
            v, t = self.pure(e[2][0], env)
            if t not in (T_BYTES, T_VECU8):
                raise ShapeError("%s: %s(..) on %r" % (self.where, self.clo[0], t))
            return "xlift (%s %s)" % (self.clo[0], paren(v))
        if e[0] == "if":
            cv, ct = self.pure(e[1], env)
            if ct != ("path", "bool", ()) or e[3] is None:
                raise ShapeError("%s: tail `if`" % self.where)
            return "if %s then %s else %s" % (cv, self.tail(e[2], env), self.tail(e[3], env))
        if e[0] == "iflet":
            pat, scrut, th, el = e[1], e[2], e[3], e[4]
            if not (pat[0] == "pctor" and pat[1] == ["Some"] and len(pat[2]) == 1 and pat[2][0][0] == "pvar") or el is None:
                raise ShapeError("%s: tail `if let`" % self.where)
            c = self.cx_call(scrut, env, "get")
            if not c:
                raise ShapeError("%s: `if let` on something that is not cx.get_cache(..)" % self.where)
            n = pat[2][0][1]
            env2 = dict(env)
            env2[n] = T_BYTES
            t = self.tmp()
            return ("xbind (x_cx_get (%s)) (fun %s =>\nmatch %s with\n| Some %s => %s\n| None => %s\nend)"
                    % (c, t, t, n, self.tail(th, env2), self.tail(el, env)))
        if e[0] == "match":
            return self.match_mode(e, env, lambda b: self.tail(b, env))
        if e[0] in ("mcall",):
            pre = []
            t, ty, rb = self.xcall(e, env, pre)
            if self.outbuf:
                if ty != ("unit",):
                    raise ShapeError("%s: tail call of type %r" % (self.where, ty))
                if rb == self.outbuf and t.startswith("x_device_read"):
                    return self.wrap_pre(pre, t)
                return self.wrap_pre(pre, "xbind (%s) (fun %s =>\nxret %s)" % (t, rb or "_", self.outbuf))
            if ty != self.ret:
                raise ShapeError("%s: tail call of type %r in a function that returns %r" % (self.where, ty, self.ret))
            return self.wrap_pre(pre, t)
        raise ShapeError("%s: tail expression %r" % (self.where, e[0]))

    def run(self):
        self.mutables = set()
        env = {n: strip_ref(ty) if ty != T_MUTBUF else T_BYTES for n, ty in self.vals}
        body = parse_body(self.fn["body"])
        return self.seq(body[1], body[2], env)


def call_name(e):
    if e[0] == "mcall":
        return "." + e[2] + "(..)"
    if e[0] == "call" and e[1][0] == "path":
        return "::".join(e[1][1]) + "(..)"
    if e[0] == "macro":
        return e[1] + "!"
    return e[0]


MODES = ["WriteThrough", "WriteAround", "NoCache"]
RB_FIELDS = {"p_port": T_NODEID, "cacheable": ("path", "CachingMode", ()),
             "p_invalidators": ("path", "Vec", (T_NODEID,))}


def indent_term(s, ind="  "):
    """indent a multi-line term by its nesting of `(fun .. =>` continuations"""
    out, depth = [], 0
    for line in s.split("\n"):
        out.append(ind + line)
    return "\n".join(out)


# ------------------------------------------------------------------------------------------------ translate --
def read_items(repo, rel):
    p = os.path.join(repo, rel)
    return items(tokenize(open(p).read()))


def translate(repo):
    g = "genapi/src/"
    defs = []          # (name or None, text)

    # ---- pins -------------------------------------------------------------------------------------------
    et = read_items(repo, g + "elem_type.rs")
    cm = find_item(et, "enum", "enum CachingMode")
    variants = [p for p in split_top(cm[2]) if p]
    if [v for v in variants if len(v) != 1] or [v[0] for v in variants] != MODES:
        raise ShapeError("enum CachingMode is not { WriteThrough, WriteAround, NoCache }")
    if "PartialEq" not in derives(cm):
        raise ShapeError("CachingMode does not derive PartialEq")

    rbi = read_items(repo, g + "register_base.rs")
    rb_fields = dict(struct_fields(find_item(rbi, "struct", "struct RegisterBase")))
    for f, ty in RB_FIELDS.items():
        if rb_fields.get(f) != ty:
            raise ShapeError("struct RegisterBase: field %s is not of the pinned type" % f)

    pi = read_items(repo, g + "port.rs")
    pf = dict(struct_fields(find_item(pi, "struct", "struct PortNode")))
    if "chunk_id" not in pf or pf["chunk_id"][0:2] != ("path", "Option"):
        raise ShapeError("struct PortNode: chunk_id is not an Option")

    li = read_items(repo, g + "lib.rs")
    vf = struct_fields(find_item(li, "struct", "struct ValueCtxt < T , U >"))
    if vf != [("value_store", ("path", "T", ())), ("cache_store", ("path", "U", ()))]:
        raise ShapeError("struct ValueCtxt<T, U> is not { value_store: T, cache_store: U }")
    gerr = find_item(li, "impl", "impl GenApiError")[2]
    for n in list(ERRS) + ["device"]:
        if not any(gerr[i] == "fn" and gerr[i + 1] == n for i in range(len(gerr) - 1)):
            raise ShapeError("GenApiError::%s is gone" % n)

    # ---- traits -----------------------------------------------------------------------------------------
    si = read_items(repo, g + "store.rs")
    cs_fields, cs_sigs = trait_record(find_item(si, "trait", "trait CacheStore"), "CacheStore", "U")
    defs.append(("src_CacheStore", record_decl("CacheStore", ["U"], cs_fields, "CacheStore")))
    bi = read_items(repo, g + "builder.rs")
    bt = find_item(bi, "trait", "trait CacheStoreBuilder")
    bfs, border = fns_of(bt[2])
    if border != ["build", "store_invalidator"] or bfs["build"]["recv"] != "self" or bfs["build"]["body"] is not None:
        raise ShapeError("trait CacheStoreBuilder is not { type Store; fn build(self) -> Self::Store; fn store_invalidator }")
    cb_fields, cb_sigs = trait_record(bt, "CacheStoreBuilder", "B", only=["store_invalidator"])
    defs.append(("src_CacheStoreBuilder", record_decl("CacheStoreBuilder", ["B"], cb_fields, "CacheStoreBuilder")))

    # ---- the two stores ---------------------------------------------------------------------------------
    structs = {}
    for sname in ("DefaultCacheStore", "CacheSink"):
        it = find_item(si, "struct", "struct " + sname)
        fields = struct_fields(it)
        structs[sname] = fields
        defs.append(("src_" + sname, record_decl(sname, [], [(f, coq_type(ty)) for f, ty in fields], sname)))
        if "Default" not in derives(it):
            raise ShapeError("%s does not derive Default" % sname)
        defs.append(("src_%s_default" % sname,
                     "Definition src_%s_default : src_%s :=\n  {| %s |}."
                     % (sname, sname, "; ".join("%s_%s := %s" % (sname, f, default_of(ty)) for f, ty in fields))))
        inh, order = fns_of(find_item(si, "impl", "impl " + sname)[2])
        if order != ["new"] or " ".join(inh["new"]["body"]) != "Self :: default ( )" or inh["new"]["params"]:
            raise ShapeError("impl %s is not { fn new() -> Self { Self::default() } }" % sname)
    S = Store(structs)
    for sname in ("DefaultCacheStore", "CacheSink"):
        bimpl = find_item(si, "impl", "impl builder :: CacheStoreBuilder for " + sname)
        fs = translate_store_impl(S, bimpl, cb_sigs, sname, defs, "CacheStoreBuilder")
        if "build" not in fs or fs["build"]["recv"] != "self" or fs["build"]["body"] != ["self"]:
            raise ShapeError("%s::build is not `self`" % sname)
        defs.append(("src_%s_impl_CacheStoreBuilder" % sname,
                     "Definition src_%s_impl_CacheStoreBuilder : src_CacheStoreBuilder src_%s :=\n  {| %s |}."
                     % (sname, sname, "; ".join("CacheStoreBuilder_%s := src_%s_%s" % (n, sname, n) for n, _ in cb_fields))))
        translate_store_impl(S, find_item(si, "impl", "impl CacheStore for " + sname), cs_sigs, sname, defs, "CacheStore")
        defs.append(("src_%s_impl_CacheStore" % sname,
                     "Definition src_%s_impl_CacheStore : src_CacheStore src_%s :=\n  {| %s |}."
                     % (sname, sname, ";\n     ".join("CacheStore_%s := src_%s_%s" % (n, sname, n) for n, _ in cs_fields))))
    # no other type implements the two traits in store.rs
    for k, h, b, a in si:
        hs = " ".join(h)
        if k == "impl" and re.search(r"\b(CacheStore|CacheStoreBuilder) for ", hs) and not re.search(
                r"for (DefaultCacheStore|CacheSink)$", hs):
            raise ShapeError("unknown implementation `%s`" % hs)

    # ---- RegisterBase::store_invalidators ---------------------------------------------------------------
    pri = read_items(repo, g + "parser/register_base.rs")
    pfs, _ = fns_of(find_item(pri, "impl", "impl RegisterBase")[2])
    f = pfs.get("store_invalidators")
    if (not f or f["recv"] != "& self" or f["ret"] is not None or f["generics"] or
            f["params"] != [("target", T_NODEID), ("cache_builder", ("ref", True, ("impl", ("path", "CacheStoreBuilder", ()))))]):
        raise ShapeError("RegisterBase::store_invalidators: signature")
    S2 = Store({"RegisterBase": list(RB_FIELDS.items())}, builder_rec=("B", "CacheStoreBuilder"))
    env = {"self": ("val", ("path", "RegisterBase", ())), "target": ("val", T_NODEID),
           "cache_builder": ("place", ("path", "B", ()))}
    out = {"lines": [], "written": set()}
    body = parse_body(f["body"])
    S2.stmts(body[1], body[2], env, out)
    if out["written"] - {"cache_builder"}:
        raise ShapeError("store_invalidators writes %r" % sorted(out["written"]))
    defs.append(("src_RegisterBase_store_invalidators",
                 "Definition src_RegisterBase_store_invalidators {B : Type} (D : src_CacheStoreBuilder B) "
                 "(self : src_RegisterBase) (target : Z) (cache_builder : B) : B :=\n  %s."
                 % "\n  ".join(out["lines"] + ["cache_builder"])))
    for rel in ("int_reg.rs", "float_reg.rs", "string_reg.rs", "register.rs", "masked_int_reg.rs", "struct_reg.rs"):
        text = strip_comments(open(os.path.join(repo, g, "parser", rel)).read())
        if len(re.findall(r"\bregister_base\s*\.\s*store_invalidators\(\s*(?:node\.)?attr_base\.id\s*,\s*cache_builder\s*\)",
                          text)) != 1:
            raise ShapeError("parser/%s does not register the node's invalidators with "
                             "`register_base.store_invalidators(<node>.attr_base.id, cache_builder)`" % rel)

    # ---- ValueCtxt forwarders ---------------------------------------------------------------------------
    vfs, vorder = fns_of(find_item(li, "impl", "impl < T , U > ValueCtxt < T , U >")[2])
    fwd = {}
    for n in vorder:
        f = vfs[n]
        b = f["body"]
        calls = [i for i in range(len(b) - 3) if b[i] == "cache_store" and b[i + 1] == "." and b[i + 3] == "("]
        if not calls:
            continue
        if " ".join(f["where"]).rstrip(" ,") != "U : store :: CacheStore" or f["generics"]:
            raise ShapeError("ValueCtxt::%s: where clause" % n)
        body = parse_body(b)
        e = body[2] if (not body[1] and body[2] is not None) else (
            body[1][0][1] if (len(body[1]) == 1 and body[2] is None and body[1][0][0] == "expr") else None)
        if (e is None or e[0] != "mcall" or e[1] != ("field", ("path", ["self"]), "cache_store") or e[2] not in cs_sigs):
            raise ShapeError("ValueCtxt::%s is not a single call of a CacheStore method on self.cache_store" % n)
        sig = cs_sigs[e[2]]
        want = ("& mut self", None) if sig["kind"] == "upd" else ("& self", sig["ret"])
        if (f["recv"], f["ret"]) != want:
            raise ShapeError("ValueCtxt::%s: receiver / result" % n)
        env = {pn: strip_ref(pt) for pn, pt in f["params"]}
        args = []
        if len(e[3]) != len(sig["params"]):
            raise ShapeError("ValueCtxt::%s: number of arguments" % n)
        for a, ty in zip(e[3], sig["params"]):
            nm = local_name(a)
            if nm is None or nm not in env or not same_type(env[nm], ty):
                raise ShapeError("ValueCtxt::%s: argument %r" % (n, a))
            args.append(nm)
        params = " ".join("(%s : %s)" % (pn, coq_type(pt)) for pn, pt in f["params"])
        rty = "U" if sig["kind"] == "upd" else coq_type(sig["ret"])
        dn = "src_ValueCtxt_" + n
        defs.append((dn, "Definition %s {U : Type} (D : src_CacheStore U) %s(cache_store : U) : %s :=\n  CacheStore_%s D %s."
                     % (dn, params + " " if params else "", rty, e[2], " ".join(args + ["cache_store"]))))
        fwd[n] = dict(kind=sig["kind"], params=[pt for _, pt in f["params"]])
    if sorted(fwd) != sorted(["cache_data", "get_cache", "invalidate_cache_by", "invalidate_cache_of", "clear_cache"]):
        raise ShapeError("the ValueCtxt methods that call the cache store are %r" % sorted(fwd))

    # ---- IPort for PortNode -----------------------------------------------------------------------------
    callees = {}
    pfs, porder = fns_of(find_item(pi, "impl", "impl IPort for PortNode")[2])
    if porder != ["read", "write"]:
        raise ShapeError("impl IPort for PortNode: members %r" % porder)

    def path_fn(owner, f, extra_callees):
        where = "%s::%s" % (owner, f["name"])
        if f["recv"] != "& self":
            raise ShapeError("%s: receiver" % where)
        gens = " ".join(f["generics"])
        if gens not in ("T : ValueStore , U : CacheStore", "T : ValueStore , U : CacheStore , R") or f["where"]:
            raise ShapeError("%s: generics %r" % (where, gens))
        P = Path(fwd, owner, f, where, extra_callees)
        term = P.run()
        vals = P.vals
        ps = " ".join("(%s : %s)" % (n, coq_type(ty)) for n, ty in vals)
        if P.clo:
            ps += " (%s : list Z -> outcome R)" % P.clo[0]
            tv, rty = "{U R : Type}", "R"
        else:
            tv = "{U : Type}"
            rty = "(list Z)" if P.outbuf else coq_type(P.ret)
        dn = "src_%s_%s" % (owner, f["name"])
        defs.append((dn, "Definition %s %s (D : src_CacheStore U) (self : src_%s) %s : X U %s :=\n%s."
                     % (dn, tv, owner, ps, rty, indent_term(term))))
        # callable from other translated functions when the values come first and (device, store, cx) last
        names = [n for n, _ in f["params"]]
        if not P.clo and [n for n, _ in vals] == names[:len(vals)] and len(names) == len(vals) + 3:
            kinds = [k for n in names[len(vals):] for k, v in P.plumb.items() if v == n]
            tys = [ty for _, ty in f["params"][len(vals):]]
            if tys == [PLUMB["device"], PLUMB["store"], PLUMB["cx"]]:
                return dict(vals=vals, outbuf=P.outbuf)
        return None

    for n in porder:
        c = path_fn("PortNode", pfs[n], {})
        if c is None:
            raise ShapeError("PortNode::%s: parameter order" % n)
        c["def"] = "src_PortNode_" + n
        callees[("PortNode", n)] = c

    # ---- RegisterBase -----------------------------------------------------------------------------------
    rfs, rorder = fns_of(find_item(rbi, "impl", "impl RegisterBase")[2])
    for n in ("read_and_cache", "write_and_cache", "with_cache_or_read"):
        if n not in rfs:
            raise ShapeError("RegisterBase::%s is gone" % n)
        c = path_fn("RegisterBase", rfs[n], callees)
        if c is not None:
            c["def"] = "src_RegisterBase_" + n
            callees[("RegisterBase", n)] = c
    # nothing else in register_base.rs touches the cache
    for n in rorder:
        if n in ("read_and_cache", "write_and_cache", "with_cache_or_read"):
            continue
        b = rfs[n]["body"] or []
        if any(x in b for x in ("cache_data", "get_cache", "invalidate_cache_by", "invalidate_cache_of", "clear_cache",
                                "cache_store", "cache_store_mut")):
            raise ShapeError("RegisterBase::%s touches the cache" % n)
    return defs


HEADER = """(* GENERATED by tools/translate_cachepath.py from genapi/src/{store,lib,port,register_base,builder}.rs and
   genapi/src/parser/register_base.rs - do not edit.  The operations are those of model/CacheOps.v: store methods are
   functions on the store value (HashMap = hmap), traits are records, the ValueCtxt forwarders act on the cache_store
   field, the register paths and the port methods are computations X U A over (device, variables, cache store). *)
From Cam Require Import Outcome RustInt Bytes Mem Cache CacheOps.
"""


def render(defs):
    o = [HEADER]
    for n, text in defs:
        o.append(text)
        o.append("")
    names = [n for n, text in defs if text.startswith("Definition")]
    o.append("Create HintDb csrc.")
    line = "#[global] Hint Unfold"
    for n in names:
        if len(line) + len(n) + 1 > 110:
            o.append(line)
            line = "   "
        line += " " + n
    o.append(line + " : csrc.")
    o.append("")
    return "\n".join(o)


def regenerate(repo=None, out=None):
    repo = repo or os.environ.get("VERIF_REPO", "/repo")
    out = out or OUT
    text = render(translate(repo))
    old = open(out).read() if os.path.exists(out) else None
    if old != text:
        with open(out, "w") as f:
            f.write(text)
    return text


if __name__ == "__main__":
    try:
        text = regenerate(sys.argv[1] if len(sys.argv) > 1 else None, sys.argv[2] if len(sys.argv) > 2 else None)
    except ShapeError as e:
        print("ShapeError:", e)
        sys.exit(3)
    print(text)
