"""C09 — command packets serialize to the exact U3V wire layout."""
from vplib import Case, Rng, standard_main

CODES = {"c09r": 901, "c09w": 902, "c09rs": 903, "c09ws": 904}
U64 = 1 << 64
MAGIC = [0x55, 0x33, 0x56, 0x43]


def le(v, n):
    return [(v >> (8 * i)) & 255 for i in range(n)]


def pat(seed, n):
    return [(seed + i) % 256 for i in range(n)]


def make_case(kind, toks):
    t = [int(x) for x in toks]
    if kind in ("c09wc", "c09rc"):
        return Case(kind, toks, (kind,) + tuple(t))
    if kind == "c09r":
        a, n, rid, cap = t
        d = ("r", a, n)
    elif kind == "c09w":
        a, n, seed, rid, cap = t
        d = ("w", a, pat(seed, n))
    elif kind == "c09rs":
        rid, cap = t[0], t[1]
        d = ("rs", list(zip(t[2::2], t[3::2])))
    else:
        rid, cap = t[0], t[1]
        d = ("ws", [(t[i], pat(t[i + 2], t[i + 1])) for i in range(2, len(t), 3)])
    return Case(kind, toks, (d, rid, cap))


def expected(d):
    """(scd bytes, command id, list of conforming ack lengths) or None when the command must be refused."""
    k = d[0]
    if k == "r":
        return le(d[1], 8) + [0, 0] + le(d[2], 2), 0x0800, [16, 12 + d[2]]
    if k == "w":
        if len(d[2]) + 8 > 65535:
            return None
        return le(d[1], 8) + d[2], 0x0802, [16, 16]
    if k == "rs":
        es = d[1]
        if 12 * len(es) > 65535 or sum(n for _, n in es) > 65535:
            return None
        scd = []
        for a, n in es:
            scd += le(a, 8) + [0, 0] + le(n, 2)
        return scd, 0x0806, [16, 12 + sum(n for _, n in es)]
    es = d[1]
    if any(len(x) + 8 > 65535 for _, x in es) or sum(12 + len(x) for _, x in es) > 65535:
        return None
    scd = []
    for a, x in es:
        scd += le(a, 8) + [0, 0] + le(len(x), 2) + x
    return scd, 0x0808, [16, 12 + 4 * len(es)]


def pred_chunks(c, out):
    """Every command produced by WriteMem::chunks / ReadMem::chunks is a command of C09 too: its serialization is the
    U3V layout of the chunk it stands for, cmd_len and the SCD-length field are its true lengths."""
    kind, a, n, seed, rid, budget = c.meta
    if out is None:
        return "no output"
    if out == [2]:
        return "panic"
    hdr = 20 if kind == "c09wc" else 12
    if kind == "c09wc" and n + 8 > 65535:
        return None if out == [1, 10] else "a write whose length does not fit the 16-bit field must be refused at construction"
    if budget <= hdr:
        return None if out[0] == 1 else "a budget that carries no payload must be refused"
    if out[0] != 0:
        return "chunking refused: %r" % out[:2]
    per = budget - hdr if kind == "c09wc" else min(budget - 12, 65535)
    data = pat(seed, n)
    i, off, k = 1, 0, 0
    while i < len(out):
        ln = out[i]
        one = out[i + 1:i + 1 + ln]
        i += 1 + ln
        m = min(per, n - off)
        if m <= 0:
            return "more chunks than the request needs"
        if kind == "c09wc":
            scd, cid, acks = le(a + off, 8) + data[off:off + m], 0x0802, [16]
        else:
            scd, cid, acks = le(a + off, 8) + [0, 0] + le(m, 2), 0x0800, [16, 12 + m]
        full = MAGIC + le(0x4000, 2) + le(cid, 2) + le(len(scd), 2) + le((rid + k) & 0xFFFF, 2) + scd
        if one[0] != 0:
            return "chunk %d: not a command" % k
        cmd_len, max_ack, res, nw = one[1:5]
        if cmd_len != len(full):
            return "chunk %d: cmd_len %d != true length %d" % (k, cmd_len, len(full))
        if res != 0 or nw != len(full) or one[5:] != full:
            return "chunk %d: serialized bytes / byte count differ from the U3V layout of that chunk" % k
        if any(x > max_ack for x in acks):
            return "chunk %d: maximum_ack_len %d below a conforming acknowledge" % (k, max_ack)
        off += m
        k += 1
    if off != n:
        return "chunks cover %d of %d bytes" % (off, n)
    return None


def predicate(c, out):
    if c.kind in ("c09wc", "c09rc"):
        return pred_chunks(c, out)
    d, rid, cap = c.meta
    if out is None:
        return "no output"
    if out == [2]:
        return "panic"
    exp = expected(d)
    if exp is None:
        return None if out == [1, 10] else "lengths do not fit the 16-bit fields: must be refused, got %r" % out[:4]
    scd, cid, acks = exp
    if out[0] != 0:
        return "constructible command refused: %r" % out[:2]
    cmd_len, max_ack, res, nw = out[1:5]
    body = out[5:]
    full = MAGIC + le(0x4000, 2) + le(cid, 2) + le(len(scd), 2) + le(rid, 2) + scd
    if cmd_len != len(full):
        return "cmd_len %d != true length %d" % (cmd_len, len(full))
    if any(a > max_ack for a in acks):
        return "maximum_ack_len %d below a conforming acknowledge (%r)" % (max_ack, acks)
    if cap < 0 or cap == len(full):
        if res != 0:
            return "serialize failed with error class %d" % res
        if body != full:
            return "serialized bytes differ from the U3V layout"
        if nw != len(full):
            return "byte count differs"
    return None


def nontrivial(c, out):
    return out is not None and out[0] == 0 and len(out) > 5 + 12


def gen_cases(ck):
    rng = Rng(ck.seed)
    cases = []
    addrs = [0, 1, 4, (1 << 32) - 1, 1 << 32, (1 << 32) + 1, 1 << 63, U64 - 1, 0x0102030405060708]
    ids = [0, 1, 0x1234, 65535]

    def caps(total):
        return [-1, total, total - 1, 0, 11, 12, 13, total + 5, max(total - 8, 0)]

    for a in addrs:
        for n in (0, 1, 3, 4, 64, 65535, 0x1234):
            for rid in ids:
                for cap in caps(24)[:3 if rid else 9]:
                    cases.append(make_case("c09r", [a, n, rid, cap]))
    big = [65527, 65528, 65529, 65535, 65536, 70000] if ck.tier == "quick" else \
        [65526, 65527, 65528, 65529, 65534, 65535, 65536, 65537, 70000, 131072 + 7]
    for n in [0, 1, 2, 3, 7, 8, 255, 256, 1000] + big:
        for a in (addrs if n < 2000 else addrs[:2]):
            for rid in (ids if n < 2000 else ids[1:2]):
                for cap in (caps(20 + n) if n < 300 else [-1, 20 + n]):
                    cases.append(make_case("c09w", [a, n, rng.below(256), rid, cap]))
    # stacked reads: entry counts around 5461 (12*k <= 65535), totals around 65535
    for k in [0, 1, 2, 3, 5, 100, 5460, 5461, 5462, 6000]:
        for per in ([0, 1, 4, 12, 13] if k else [0]):
            es = []
            for i in range(k):
                es += [rng.choice(addrs), per]
            for cap in ([-1, 12 + 12 * k] if k > 10 else caps(12 + 12 * k)):
                cases.append(make_case("c09rs", [rng.choice(ids), cap] + es))
    for tot in (65534, 65535, 65536, 65537, 131070):
        for k in (1, 2, 3, 17):
            if k == 1 and tot > 65535:
                continue
            per = min(tot // k, 65535)
            lens = [per] * k
            rest = tot - sum(lens)
            i = 0
            while rest > 0 and i < k:
                add = min(65535 - lens[i], rest)
                lens[i] += add
                rest -= add
                i += 1
            if rest:
                continue
            es = []
            for n in lens:
                es += [rng.choice(addrs), n]
            cases.append(make_case("c09rs", [1, -1] + es))
            cases.append(make_case("c09rs", [1, 12 + 12 * k] + es))
    # stacked writes: totals around 65535 (sum of 12 + len)
    for lens in [[], [0], [1], [3, 4], [0, 0, 0], [10] * 7, [65523], [65524], [65527], [65528],
                 [32755, 32756], [32755, 32757], [32756, 32756], [12] * 2730, [12] * 2731, [0] * 5461, [0] * 5462,
                 [1] * 5041, [1] * 5042, [100, 65000], [400, 65000], [600, 65000], [70000], [5, 70000]]:
        es = []
        for n in lens:
            es += [rng.choice(addrs), n, rng.below(256)]
        tot = 12 + sum(12 + n for n in lens)
        for cap in ([-1, tot] if len(lens) > 3 or tot > 400 else caps(tot)):
            cases.append(make_case("c09ws", [rng.choice(ids), cap] + es))
    # entry counts beyond the 16-bit fields: 65535 / 65536 / 65536 + k zero-length entries must be refused
    for k in ([65535, 65536, 65540, 65536 + 5461] if ck.tier == "quick" else
              [65535, 65536, 65537, 65540, 65536 + 5460, 65536 + 5461, 65536 + 5462, 131072, 131072 + 3]):
        es = []
        for i in range(k):
            es += [i, 0]
        cases.append(make_case("c09rs", [7, -1] + es))
        es[1] = 64
        es[3] = 8
        cases.append(make_case("c09rs", [7, -1] + es))
    # commands produced by chunks(): exact multiples, short last chunks, single commands, request ids across the wrap
    for budget in (21, 24, 25, 33, 64, 128, 1024, 1500, 65535 + 20):
        per = budget - 20
        for n in sorted({0, 1, per - 1, per, per + 1, 2 * per - 1, 2 * per, 2 * per + 1, 3 * per + 2, 130}):
            if 0 <= n <= 70000 and (n // per) <= 200:
                cases.append(make_case("c09wc", [0x1000 + n, n, rng.below(256), rng.choice([0, 65534, 65535, 77]), budget]))
    for budget in (13, 14, 16, 64, 1024, 4096, 65535 + 12, 70000):
        per = min(budget - 12, 65535)
        for n in sorted({0, 1, per - 1, per, per + 1, 2 * per + 1, 3 * per, 65535}):
            if 0 <= n <= 65535 and (n // per) <= 300:
                cases.append(make_case("c09rc", [0x2000 + n, n, 0, rng.choice([0, 65535, 1234]), budget]))
    nrand = 600 if ck.tier == "quick" else 8000
    for _ in range(nrand):
        kind = rng.choice(["c09r", "c09w", "c09rs", "c09ws"])
        a = rng.choice([rng.below(U64), rng.below(1 << 20)])
        rid = rng.below(65536)
        if kind == "c09r":
            cases.append(make_case(kind, [a, rng.below(65536), rid, rng.choice([-1, 24, rng.below(30)])]))
        elif kind == "c09w":
            n = rng.choice([rng.below(64), rng.below(3000)])
            cases.append(make_case(kind, [a, n, rng.below(256), rid, rng.choice([-1, 20 + n, rng.below(24 + n)])]))
        elif kind == "c09rs":
            k = rng.choice([rng.below(6), rng.below(40)])
            es = []
            for _i in range(k):
                es += [rng.below(U64), rng.choice([rng.below(64), rng.below(65536)])]
            cases.append(make_case(kind, [rid, rng.choice([-1, 12 + 12 * k, rng.below(20 + 12 * k)])] + es))
        else:
            k = rng.choice([rng.below(5), rng.below(20)])
            es, tot = [], 12
            for _i in range(k):
                n = rng.choice([rng.below(16), rng.below(600)])
                es += [rng.below(U64), n, rng.below(256)]
                tot += 12 + n
            cases.append(make_case(kind, [rid, rng.choice([-1, tot, rng.below(tot + 8)])] + es))
    return cases


def main():
    standard_main(
        "C09", "h_proto", CODES, gen_cases, predicate, nontrivial, make_case=make_case,
        rule="boundary set (addresses 0/2^32/2^63/2^64-1, read lengths, write data sizes around 65527, stacked lists "
             "around 5461 entries and totals around 65535, request ids 0/1/65535, Vec sink and slices of exact / short / "
             "long capacity; stacked lists of 65535 .. 131075 entries; every command produced by WriteMem::chunks / "
             "ReadMem::chunks for budgets 13 .. 65555 with exact multiples and short last chunks) + seeded random commands; each run through the real constructors and serialize() and "
             "through the extracted Gallina model; predicate = bytes equal an independent Python encoding of the U3V "
             "layout, cmd_len = true length, maximum_ack_len >= every conforming ack, refusal iff lengths do not fit; "
             "non-trivial = constructed command with a non-empty SCD")
