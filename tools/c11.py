"""C11 — stream leader/trailer decoding, pixel-format table, payload assembly."""
import os
import re
import subprocess
import sys

from vplib import Case, Rng, standard_main, xhex, VERIF, COQ

CODES = {"c11l": 1101, "c11t": 1102, "c11p": 1103, "c11sweep": 1105}
LMAGIC = [0x55, 0x33, 0x56, 0x4C]
TMAGIC = [0x55, 0x33, 0x56, 0x54]


def le(v, n):
    return [(v >> (8 * i)) & 255 for i in range(n)]


def of_le(bs):
    return sum(b << (8 * i) for i, b in enumerate(bs))


def load_table():
    src = open(os.path.join(COQ, "theories/gen/PixelTable.v")).read()
    dec = re.search(r"code_to_pf.*?\[(.*?)\]\.", src, flags=re.S).group(1)
    return [(int(a), int(b)) for a, b in re.findall(r"\((\d+), (\d+)\)", dec)]


TABLE = None


def make_case(kind, toks):
    if kind in ("c11l", "c11t"):
        return Case(kind, toks, bytes.fromhex(toks[0][1:]))
    return Case(kind, toks, [int(t) for t in toks])


def views(out, start):
    vs, i = [], start
    while i < len(out):
        n = out[i]
        vs.append(out[i + 1:i + 1 + n])
        i += 1 + n
    return vs


def predicate(c, out):
    """Independent fixed-offset decoding in Python."""
    global TABLE
    if TABLE is None:
        TABLE = load_table()
    if out is None or out in ([2], [3], [4]):
        return "decoder panicked / died (%r)" % (out,)
    if c.kind == "c11l":
        bs = c.meta
        ok = len(bs) >= 20 and list(bs[0:4]) == LMAGIC and of_le(bs[18:20]) in (1, 0x4001, 0x4000)
        if out[0] == 1:
            return "well-formed leader rejected" if ok else None
        if not ok:
            return "accepted a leader the layout rejects"
        ty = {1: 0, 0x4001: 1, 0x4000: 2}[of_le(bs[18:20])]
        if out[1:5] != [of_le(bs[6:8]), of_le(bs[8:16]), ty, len(bs) - 20]:
            return "generic leader fields differ from the layout"
        raw = bs[20:]
        vs = views(out, 5)
        if any(v == [2] for v in vs):
            return "specific leader view panicked"
        pfs = dict((cd, p) for cd, p in reversed(TABLE))
        iok = len(raw) >= 32 and of_le(raw[8:12]) in pfs
        if iok:
            exp = [0, of_le(raw[0:8]), pfs[of_le(raw[8:12])], of_le(raw[12:16]), of_le(raw[16:20]), of_le(raw[20:24]),
                   of_le(raw[24:28]), of_le(raw[28:30])]
            if vs[0] != exp:
                return "image leader fields differ from the layout"
        elif vs[0][0] == 0:
            return "image leader accepted from a malformed specific part"
        if len(raw) >= 8:
            if vs[1] != [0, of_le(raw[0:8])]:
                return "chunk leader timestamp differs"
        elif vs[1][0] == 0:
            return "chunk leader accepted from a short buffer"
        return None
    if c.kind == "c11t":
        bs = c.meta
        ok = len(bs) >= 28 and list(bs[0:4]) == TMAGIC and of_le(bs[16:18]) in (0, 0xA100, 0xA101)
        if out[0] == 1:
            return "well-formed trailer rejected" if ok else None
        if not ok:
            return "accepted a trailer the layout rejects"
        st = {0: 0, 0xA100: 1, 0xA101: 2}[of_le(bs[16:18])]
        if out[1:6] != [of_le(bs[6:8]), of_le(bs[8:16]), st, of_le(bs[20:28]), len(bs) - 28]:
            return "generic trailer fields differ from the layout"
        raw = bs[28:]
        vs = views(out, 6)
        if any(v == [2] for v in vs):
            return "specific trailer view panicked"
        e0 = [0, of_le(raw[0:4])] if len(raw) >= 4 else None
        e1 = [0, of_le(raw[0:4]), of_le(raw[4:8])] if len(raw) >= 8 else None
        for v, e in ((vs[0], e0), (vs[1], e1), (vs[2], e0)):
            if e is None and v[0] == 0:
                return "specific trailer accepted from a short buffer"
            if e is not None and v != e:
                return "specific trailer fields differ from the layout"
        return None
    if c.kind == "c11p":
        code = c.meta[0]
        if out[0] == 0 and out[2] != code:
            return "pixel code 0x%08x decodes to a format that encodes to 0x%08x (not one-to-one)" % (code, out[2])
        return None
    if c.kind == "c11sweep":
        if out[0] != 0:
            return "sweep died"
        if out[2] != 0:
            return "pixel code 0x%08x is accepted but does not map back to itself (not one-to-one)" % out[3]
        return None
    return None


def nontrivial(c, out):
    return out is not None and out[0] == 0


def leader(ty, size=52, bid=7, ts=1234, pf=0x01080001, w=640, h=480, xo=1, yo=2, xp=3, magic=LMAGIC):
    b = magic + [0, 0] + le(size, 2) + le(bid, 8) + [0, 0] + le(ty, 2)
    if ty == 0x4000:
        return bytes(b + le(ts, 8))
    return bytes(b + le(ts, 8) + le(pf, 4) + le(w, 4) + le(h, 4) + le(xo, 4) + le(yo, 4) + le(xp, 2) + [0, 0])


def trailer(status=0, size=32, bid=7, valid=1000, spec=(480,), magic=TMAGIC):
    b = magic + [0, 0] + le(size, 2) + le(bid, 8) + le(status, 2) + [0, 0] + le(valid, 8)
    for s in spec:
        b += le(s, 4)
    return bytes(b)


def gen_cases(ck):
    global TABLE
    TABLE = load_table()
    rng = Rng(ck.seed)
    out = []

    def L(bs):
        out.append(make_case("c11l", [xhex(bs)]))

    def T(bs):
        out.append(make_case("c11t", [xhex(bs)]))

    codes = [c for c, _ in TABLE]
    lbase = []
    for ty in (1, 0x4001, 0x4000, 0, 2, 0x4002, 0x8001, 0xFFFF):
        for pf in (0x01080001, 0x02180014, codes[-1], codes[len(codes) // 2], 0, 0x01080000, 0xFFFFFFFF):
            b = leader(ty, pf=pf, bid=rng.below(1 << 64), ts=rng.below(1 << 64), w=rng.below(1 << 32),
                       h=rng.below(1 << 32), xo=rng.below(1 << 32), yo=rng.below(1 << 32), xp=rng.below(65536))
            L(b)
            if ty in (1, 0x4001, 0x4000) and pf == 0x01080001:
                lbase.append(b)
    L(leader(1, magic=[0x55, 0x33, 0x56, 0x4D]))
    L(leader(1, magic=TMAGIC))
    for b in lbase:
        for n in range(len(b) + 1):
            L(b[:n])
        L(b + b"\x00" * 12)
        L(b + bytes(rng.bytes(100)))
        for i in range(len(b)):
            for v in (0, 0xFF, b[i] ^ 1, b[i] ^ 0x80):
                m = bytearray(b)
                m[i] = v & 255
                L(bytes(m))
    for c in codes:
        L(leader(1, pf=c))
    tbase = []
    for st in (0, 0xA100, 0xA101, 1, 0xA102, 0xA0FF, 0xFFFF):
        for spec in ((), (480,), (480, 77), (1, 2, 3)):
            for valid in (0, 1, 1000, (1 << 32) - 1, 1 << 32, (1 << 64) - 1):
                b = trailer(st, valid=valid, spec=spec, bid=rng.below(1 << 64), size=rng.below(65536))
                T(b)
                if st == 0 and valid == 1000:
                    tbase.append(b)
    T(trailer(magic=LMAGIC))
    for sz in list(range(0, 48)) + [255, 256, 65535]:      # every declared trailer / leader size around the real ones
        for spec in ((), (480,), (480, 77)):
            T(trailer(0, size=sz, spec=spec))
    for sz in list(range(0, 64)) + [255, 256, 65535]:
        L(leader(1, size=sz))
        L(leader(0x4000, size=sz))
    for b in tbase:
        for n in range(len(b) + 1):
            T(b[:n])
        for i in range(len(b)):
            for v in (0, 0xFF, b[i] ^ 1, b[i] ^ 0x80):
                m = bytearray(b)
                m[i] = v & 255
                T(bytes(m))
        T(b + bytes(rng.bytes(50)))
    nrand = 3000 if ck.tier == "quick" else 100000
    for _ in range(nrand):
        n = rng.choice([rng.below(60), rng.below(60), rng.below(600)])
        body = bytearray(rng.bytes(n))
        if rng.chance(1, 2):
            if rng.chance(4, 5):
                body[0:4] = bytes(LMAGIC)
            if rng.chance(3, 4) and n >= 20:
                body[18:20] = bytes(le(rng.choice([1, 0x4001, 0x4000]), 2))
            if rng.chance(1, 2) and n >= 32:
                body[28:32] = bytes(le(rng.choice(codes), 4))
            L(bytes(body))
        else:
            if rng.chance(4, 5):
                body[0:4] = bytes(TMAGIC)
            if rng.chance(3, 4) and n >= 18:
                body[16:18] = bytes(le(rng.choice([0, 0xA100, 0xA101]), 2))
            T(bytes(body))
    # pixel codes: every table code, its neighbours, bit flips, random codes
    seen = set()
    for c in codes:
        for d in (0, -1, 1, 0x10000, -0x10000, 0x01000000, 0x80000000):
            x = (c + d) & 0xFFFFFFFF
            if x not in seen:
                seen.add(x)
                out.append(make_case("c11p", [x]))
        for bit in (0, 7, 8, 15, 16, 23, 24, 31):
            x = c ^ (1 << bit)
            if x not in seen:
                seen.add(x)
                out.append(make_case("c11p", [x]))
    for _ in range(4000 if ck.tier == "quick" else 100000):
        x = rng.choice([rng.below(1 << 32), 0x01000000 + rng.below(0x02000000), rng.choice(codes) ^ (1 << rng.below(32))])
        out.append(make_case("c11p", [x]))
    # sweeps on the implementation (model side: count + checksum from the regenerated table)
    if ck.tier == "quick":
        step = 1 << 21
        for lo in range(0x01000000, 0x03000000, step):
            out.append(make_case("c11sweep", [lo, lo + step]))
        for lo in (0, 0x80000000, 0xFFFFFFFF - step + 1):
            out.append(make_case("c11sweep", [lo, lo + step]))
    else:
        step = 1 << 24
        for lo in range(0, 1 << 32, step):
            out.append(make_case("c11sweep", [lo, lo + step]))
    return out


def payload_assembly(ck, _binary):
    """PayloadBuilder::build is private: drive it through the real streaming loop (harness and frame families of C12):
    valid_payload_size / chunk layouts at every boundary, image()/payload() under catch_unwind."""
    import c12
    binary, log = ck.cargo_build("h_u3v")
    if binary is None:
        path = ck.write_replay({"kind": "build", "property": "C11", "unchecked": "payload assembly via rust/h_u3v",
                                "log": log[-4000:]})
        ck.violations.append((path, True, "harness rust/h_u3v does not build against the repository"))
        return
    cases = c12.boundary_cases()
    impl, summ, model = c12.run_cases(ck, binary, cases)
    raw = {id(c): o for c, o in zip(cases, impl)}
    ck.compare(cases, summ, model, lambda c, _o: c12.predicate(c, raw[id(c)]),
               lambda c, _o: c12.nontrivial(c, raw[id(c)]), None,
               correspondence="frames assembled by the real loop = model/StreamLoop.v (build of model/Payload.v)",
               family="payload assembly through the real streaming loop")


def main():
    rc = subprocess.run([sys.executable, os.path.join(VERIF, "tools/translate.py"), "pixel"], capture_output=True, text=True)
    if rc.returncode != 0:
        # the source no longer has the table shape the translator understands: the regenerated
        # theorems cannot be re-checked; the hand-run correspondence below still runs on the last table
        print(rc.stdout.strip())
    standard_main(
        "C11", "h_proto", CODES, gen_cases, predicate, nontrivial, make_case=make_case,
        rule="leaders/trailers from field tuples (all payload types / statuses, every table pixel code), truncated at "
             "every offset, byte-mutated at every offset, extended, and seeded random strings with valid prefixes; every "
             "table pixel code with neighbours and bit flips + random codes; implementation sweeps over code ranges "
             "(quick: 0x01000000..0x03000000 and three windows; thorough: all 2^32 codes) compared with the count and "
             "checksum the regenerated table implies; real decoders vs extracted model; predicate = independent Python "
             "fixed-offset decoding and code->format->code identity; non-trivial = accepted input",
        extra=payload_assembly,
        trusted=["tools/translate.py (regex translator of pixel_format.rs; asserts the catch-all arm is the only other arm)",
                 "payload assembly (PayloadBuilder::build) is exercised through the real streaming loop with the boundary "
                 "family of tools/c12.py (rust/h_u3v over rust/shim), its traces replayed through model/StreamLoop.v"])
