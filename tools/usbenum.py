"""USB layer of cameleon-device (device/src/u3v/{device_builder,device,channel,device_info}.rs) inside the checked
tie: case generators for rust/h_usb (the REAL crate + real rusb over a SCRIPTED fake libusb), the Gallina terms of
model/UsbEnum.v / model/UsbChannel.v for the same cases, and an independent Python expectation written from the
USB 3.x (chapter 9) and USB3 Vision descriptor layouts.

Used by tools/c07.py (enumeration / hostile descriptors: run_enum) and tools/c06.py (channels: run_chan).
Scratch entry point:  python3 tools/usbenum.py [enum|chan|all] [quick|thorough]
"""
import json
import struct
import sys

from vplib import Case, Check, Rng, _clip, zlit

# ------------------------------------------------------------------------------------------------------
# descriptor tree (what libusb hands to rusb) + scripted libusb answers of a device
# ------------------------------------------------------------------------------------------------------


class Ep:
    def __init__(self, addr, attrs=2, extra=b""):
        self.addr, self.attrs, self.extra = addr, attrs, bytes(extra)


class Alt:
    def __init__(self, num, setting=0, cls=0xEF, sub=5, proto=0, extra=b"", eps=()):
        self.num, self.setting, self.cls, self.sub, self.proto = num, setting, cls, sub, proto
        self.extra, self.eps = bytes(extra), list(eps)


class Iface:
    def __init__(self, alts):
        self.alts = list(alts)
        assert self.alts


class Conf:
    def __init__(self, value=1, extra=b"", ifaces=(), err=0):
        self.err, self.value, self.extra, self.ifaces = err, value, bytes(extra), list(ifaces)


class Dev:
    def __init__(self, confs=(), cls=0xEF, sub=2, proto=1, nconf=None, dd_err=0, open_code=0, getcfg_code=0,
                 getcfg_val=1, setcfg=0, strs=()):
        self.dd_err, self.cls, self.sub, self.proto = dd_err, cls, sub, proto
        self.confs = list(confs)
        self.nconf = len(self.confs) if nconf is None else nconf
        self.open_code, self.getcfg_code, self.getcfg_val, self.setcfg = open_code, getcfg_code, getcfg_val, setcfg
        self.strs = list(strs)        # (index, bytes | int error code)


def xh(bs):
    return "x" + bytes(bs).hex()


def dev_tokens(d):
    t = [d.dd_err, d.cls, d.sub, d.proto, d.nconf, len(d.confs)]
    for c in d.confs:
        t += [c.err, c.value, xh(c.extra), len(c.ifaces)]
        for i in c.ifaces:
            t.append(len(i.alts))
            for a in i.alts:
                t += [a.num, a.setting, a.cls, a.sub, a.proto, xh(a.extra), len(a.eps)]
                for e in a.eps:
                    t += [e.addr, e.attrs, xh(e.extra)]
    t += [d.open_code, d.getcfg_code, d.getcfg_val, d.setcfg, len(d.strs)]
    for i, s in d.strs:
        if isinstance(s, int):
            t += [i, 1, s]
        else:
            t += [i, 0, xh(s)]
    return t


def zl(bs):
    return "[" + ";".join(str(b) for b in bs) + "]"


def utf8_ok(bs):
    try:
        bytes(bs).decode("utf-8")
        return True
    except UnicodeDecodeError:
        return False


def dev_term(d):
    def ep(e):
        return "mkEp %d %d %s" % (e.addr, e.attrs, zl(e.extra))

    def alt(a):
        return "mkAlt %d %d %d %d %d %s [%s]" % (a.num, a.setting, a.cls, a.sub, a.proto, zl(a.extra),
                                                 ";".join(ep(e) for e in a.eps))

    def iface(i):
        return "mkIf (%s) [%s]" % (alt(i.alts[0]), ";".join(alt(a) for a in i.alts[1:]))

    def conf(c):
        return "mkConf %s %d %s [%s]" % (zlit(c.err), c.value, zl(c.extra), ";".join(iface(i) for i in c.ifaces))

    def sres(s):
        if isinstance(s, int):
            return "SCode %s" % zlit(s)
        if not utf8_ok(s):
            return "SCode (-99)"      # String::from_utf8 of rusb fails: Error::Other (oracle: Python's decoder)
        return "SBytes %s" % zl(s)

    return "(mkDev %s %d %d %d %d [%s] %s %s %s %s [%s])" % (
        zlit(d.dd_err), d.cls, d.sub, d.proto, d.nconf, ";".join(conf(c) for c in d.confs),
        zlit(d.open_code), zlit(d.getcfg_code), zlit(d.getcfg_val), zlit(d.setcfg),
        ";".join("(%d, %s)" % (i, sres(s)) for i, s in d.strs))


def enum_case(list_code, devs, name, fam):
    toks = [list_code, len(devs)]
    for d in devs:
        toks += dev_tokens(d)
    c = Case("enum", toks, meta=dict(name=name, fam=fam, devs=devs, list_code=list_code))
    c.term = "run_enum %s [%s]" % (zlit(list_code), ";".join(dev_term(d) for d in devs))
    return c


# ------------------------------------------------------------------------------------------------------
# the specification side (independent of the model): USB 3.x 9.6.4 IAD, USB3 Vision device info descriptor
# ------------------------------------------------------------------------------------------------------
SKIP, ANY = "skip", "any"
LIBUSB_KIND = {-1: 0, -2: 1, -3: 2, -4: 3, -5: 4, -6: 5, -7: 6, -8: 7, -9: 8, -10: 9, -11: 10, -12: 11}


def kind_of(code):
    return LIBUSB_KIND.get(code, 13)


def first_iad(extra):
    """First interface association descriptor of a chain of descriptors (bLength, bDescriptorType, ...).
    bLength 0 ends the chain, a one-byte descriptor is skipped.  None / the 8 bytes / ANY when the layout does not
    say what the bytes mean (an IAD whose bLength is 2..7 although eight bytes are there)."""
    p = 0
    n = len(extra)
    while p < n:
        ln = extra[p]
        if ln == 0:
            return None
        if ln == 1:
            p += 1
            continue
        if p + 1 >= n:
            return None
        if extra[p + 1] != 0x0B:
            p += ln
            continue
        if p + 8 > n:
            return None                       # cut short: no IAD here (and nothing can follow)
        if ln < 8:
            return ANY
        return extra[p:p + 8]
    return None


def search_config(c):
    extras = [c.extra]
    for i in c.ifaces:
        for a in i.alts:
            extras.append(a.extra)
            extras.extend(e.extra for e in a.eps)
    for x in extras:
        r = first_iad(x)
        if r is ANY:
            return ANY
        if r is not None:
            (_len, _type, first, _count, fcls, fsub, fproto, _ifunc) = struct.unpack("8B", r)
            if (fcls, fsub, fproto) == (0xEF, 0x05, 0x00):
                return first
    return None


def is_bulk(e):
    return e.attrs & 3 == 2


def is_in(e):
    return e.addr & 0x80 != 0


def string_of(d, i):
    for k, s in d.strs:
        if k == i:
            if isinstance(s, int) or not utf8_ok(s):
                return None
            return list(s)
    return None


def expect_dev(d):
    """SKIP, ANY or the expected output of the device (list of ints after the position)."""
    if d.dd_err != 0 or (d.cls, d.sub, d.proto) != (0xEF, 0x02, 0x01):
        return SKIP
    first = conf = None
    for i in range(d.nconf):
        if i >= len(d.confs) or d.confs[i].err != 0:
            return SKIP
        r = search_config(d.confs[i])
        if r is ANY:
            return ANY
        if r is not None:
            first, conf = r, d.confs[i]
            break
    if conf is None:
        return SKIP
    if d.open_code != 0 or d.getcfg_code != 0:
        return SKIP
    if (d.getcfg_val & 0xFF) != conf.value and d.setcfg != 0:
        return SKIP
    k = 0
    while k < len(conf.ifaces) and conf.ifaces[k].alts[0].num != first:
        k += 1
    if k == len(conf.ifaces):
        return SKIP
    ctrl = conf.ifaces[k].alts[0]
    if (ctrl.cls, ctrl.sub, ctrl.proto) != (0xEF, 0x05, 0x00) or len(ctrl.eps) != 2:
        return SKIP
    ins = [e for e in ctrl.eps if is_in(e)]
    outs = [e for e in ctrl.eps if not is_in(e)]
    if len(ins) != 1 or len(outs) != 1 or not is_bulk(ins[0]) or not is_bulk(outs[0]):
        return SKIP
    info = ctrl.extra
    if len(info) < 20:
        return SKIP
    (blen, btype, bsub, gencp, u3v, i_guid, i_vendor, i_model, i_family, i_version, i_manuf, i_serial, i_user,
     speed) = struct.unpack_from("<BBBII8BB", info, 0)
    if blen < 20 or btype != 0x24 or bsub != 0x01:
        return SKIP
    out = [gencp >> 16, gencp & 0xFFFF, 0, u3v >> 16, u3v & 0xFFFF, 0]
    for idx, optional in ((i_guid, 0), (i_vendor, 0), (i_model, 0), (i_family, 1), (i_version, 0), (i_manuf, 0),
                          (i_serial, 0), (i_user, 1)):
        if optional and idx == 0:
            out.append(0)
            continue
        s = string_of(d, idx)
        if s is None:
            return SKIP
        out += ([1] if optional else []) + [len(s)] + s
    if speed & 0x1F == 0:
        return SKIP
    out.append((speed & 0x1F).bit_length() - 1)
    out += [ctrl.num, ins[0].addr, outs[0].addr]
    recv = []
    for i in conf.ifaces[k + 1:]:
        a0 = [a for a in i.alts if a.setting == 0]
        if not a0:
            continue
        a = a0[0]
        if (a.cls, a.sub) != (0xEF, 0x05) or a.proto not in (1, 2) or len(a.eps) != 1:
            continue
        if not is_bulk(a.eps[0]) or not is_in(a.eps[0]):
            continue
        recv.append((a.proto, i.alts[0].num, a.eps[0].addr))
    kinds = [r[0] for r in recv]
    if len(recv) > 2 or kinds in ([1, 1], [2, 2]):
        return SKIP
    for proto in (1, 2):
        r = [x for x in recv if x[0] == proto]
        out += [1, r[0][1], r[0][2]] if r else [0]
    return out


def split_log(out):
    """-> (body, log) at the LAST -7 that is followed by a plausible log (bodies may contain -7 only as data
    of strings, which are bytes >= 0: never)."""
    if -7 not in out:
        return None
    i = out.index(-7)
    return out[:i], out[i + 1:]


def parse_devs(body):
    """[(position, fields)] of the device records of an enum output body (after 0 n)."""
    n = body[1]
    p = 2
    res = []
    for _ in range(n):
        q = p
        q += 7
        for optional in (0, 0, 0, 1, 0, 0, 0, 1):
            if optional:
                if body[q] == 0:
                    q += 1
                    continue
                q += 1
            q += 1 + body[q]
        q += 1 + 3
        for _k in range(2):
            q += 3 if body[q] == 1 else 1
        res.append((body[p], body[p + 1:q]))
        p = q
    if p != len(body):
        raise ValueError("trailing output")
    return res


def log_records(log):
    """split the flat libusb call log into records"""
    size = {13: 1, 1: 2, 2: 3, 3: 2, 4: 2, 5: 3, 6: 3, 7: 2, 8: 3, 9: 3, 10: 3, 12: 8}
    p = 0
    recs = []
    while p < len(log):
        k = log[p]
        if k == 11:
            rec = log[p:p + 5]
            p += 5
            if rec[2] & 0x80 == 0:
                n = log[p]
                rec = rec + [log[p + 1:p + 1 + n]]
                p += 1 + n
            recs.append(rec)
        else:
            recs.append(log[p:p + size[k]])
            p += size[k]
    return recs


def predicate_enum(c, out):
    if out is None:
        return "no output"
    if out == [2]:
        return "enumerate_devices panicked"
    if out in ([3], [4]):
        return "enumerate_devices hung or killed the process"
    devs, list_code = c.meta["devs"], c.meta["list_code"]
    sp = split_log(out)
    if sp is None:
        return "output without a log"
    body, log = sp
    if list_code < 0:
        if body != [1, kind_of(list_code)]:
            return "libusb_get_device_list failed with %d but enumerate_devices returned %r" % (list_code, body)
        return None
    if not body or body[0] != 0:
        return "enumerate_devices failed (%r) although the device list was delivered: one broken device must not " \
               "hide the others" % (body,)
    got = parse_devs(body)
    exp = [expect_dev(d) for d in devs]
    pos = [p for p, _ in got]
    if pos != sorted(set(pos)):
        return "devices are not reported once each, in list order: %r" % (pos,)
    gotd = dict(got)
    for i, e in enumerate(exp):
        if e is ANY:
            continue
        if e is SKIP:
            if i in gotd:
                return "device %d is not a well-formed U3V camera (or a libusb call on it failed) but was enumerated" % i
        else:
            if i not in gotd:
                return "device %d is a well-formed U3V camera but was left out" % i
            if gotd[i] != e:
                g = gotd[i]
                k = next((j for j in range(min(len(g), len(e))) if g[j] != e[j]), min(len(g), len(e)))
                return ("device %d: the decoded record differs from what the descriptors say at field position %d "
                        "(versions 0..5, strings, speed, control iface/in/out, event, stream): decoded ..%r, "
                        "descriptors ..%r" % (i, k, _clip(g[max(0, k - 3):k + 8], 12), _clip(e[max(0, k - 3):k + 8], 12)))
    for p in pos:
        if p >= len(devs):
            return "a device that is not in the list was reported"
    # libusb usage: every handle opened is closed; a device that is not Miscellaneous / IAD class is never opened
    recs = log_records(log)
    for i, d in enumerate(devs):
        n_open = sum(1 for r in recs if r[0] == 3 and r[1] == i)
        n_close = sum(1 for r in recs if r[0] == 7 and r[1] == i)
        if n_open > 1:
            return "device %d was opened %d times" % (i, n_open)
        if n_close != (n_open if d.open_code == 0 else 0):
            return "device %d: handles opened and closed do not balance" % i
        if (d.cls, d.sub, d.proto) != (0xEF, 2, 1) or d.dd_err != 0:
            if any(r[0] in (2, 3, 4, 5, 6) and r[1] == i for r in recs):
                return "device %d is not a U3V candidate but its configuration was read or it was opened" % i
    return None


def nontrivial_enum(c, out):
    return bool(out) and out[0] == 0 and any(e is not SKIP for e in map(expect_dev, c.meta["devs"]))


# ------------------------------------------------------------------------------------------------------
# building blocks of the generators
# ------------------------------------------------------------------------------------------------------
def iad(first=0, count=2, cls=0xEF, sub=5, proto=0, func=0, blen=8, btype=0x0B):
    return bytes([blen, btype, first, count, cls, sub, proto, func])


def info_desc(gencp=(1, 2), u3v=(1, 0), idx=(1, 2, 3, 4, 5, 6, 7, 8), speed=0b1000, blen=20, btype=0x24, bsub=1):
    return (bytes([blen, btype, bsub]) + struct.pack("<HHHH", gencp[1], gencp[0], u3v[1], u3v[0]) + bytes(idx)
            + bytes([speed]))


STD_STRS = [(1, b"GUID00000001"), (2, b"Vendor"), (3, b"Model-X"), (4, b"Family"), (5, b"v1.2.3"), (6, b"info"),
            (7, b"SN0001"), (8, b"user name")]


def camera(first=0, event=True, stream=True, value=1, info=None, iad_bytes=None, ctrl_eps=None, strs=None,
           pre_ifaces=(), ev_first=True, **kw):
    """A well-formed USB3 Vision camera (one configuration); pieces can be replaced."""
    info = info_desc() if info is None else info
    eps = [Ep(0x81), Ep(0x01)] if ctrl_eps is None else ctrl_eps
    ifaces = list(pre_ifaces) + [Iface([Alt(first, 0, 0xEF, 5, 0, info, eps)])]
    n = first + 1
    rec = []
    if event:
        rec.append(Iface([Alt(n, 0, 0xEF, 5, 1, b"", [Ep(0x82)])]))
        n += 1
    if stream:
        rec.append(Iface([Alt(n, 0, 0xEF, 5, 2, b"", [Ep(0x83)]), Alt(n, 1, 0xEF, 5, 2, b"", [Ep(0x83)])]))
        n += 1
    if not ev_first:
        rec.reverse()
    ifaces += rec
    cextra = iad(first, n - first) if iad_bytes is None else iad_bytes
    kw.setdefault("getcfg_val", value)
    return Dev([Conf(value, cextra, ifaces)], strs=STD_STRS if strs is None else strs, **kw)


def non_u3v(kind=0):
    if kind == 0:      # a mass storage device
        return Dev([Conf(1, b"", [Iface([Alt(0, 0, 8, 6, 0x50, b"", [Ep(0x81), Ep(0x02)])])])], cls=0, sub=0, proto=0)
    if kind == 1:      # a composite (IAD class) device that is a UVC camera
        return Dev([Conf(1, iad(0, 2, 0x0E, 3, 0), [Iface([Alt(0, 0, 0x0E, 1, 0, bytes([13, 0x24, 1] + [0] * 10),
                                                                 [Ep(0x83, 3)])]),
                                                     Iface([Alt(1, 0, 0x0E, 2, 0, b"", []),
                                                            Alt(1, 1, 0x0E, 2, 0, b"", [Ep(0x81, 5)])])])])
    return Dev([], cls=9, sub=0, proto=3, nconf=1)     # a hub whose configuration cannot be read


ERR_CODES = [-1, -2, -3, -4, -5, -6, -7, -8, -9, -10, -11, -12, -99, 1, 7]


def gen_enum_boundary(rng, quick):
    cs = []

    def add(name, devs, list_code=None):
        devs = devs if isinstance(devs, list) else [devs]
        cs.append(enum_case(len(devs) if list_code is None else list_code, devs, name, "boundary"))

    add("well-formed camera", camera())
    add("camera without receive interfaces", camera(event=False, stream=False))
    add("empty list", [])
    for code in (-1, -4, -11, -99):
        add("get_device_list fails %d" % code, [camera()], list_code=code)
    # --- IAD cut at every position, at the end of the extra bytes of every level, after several prefixes
    full = iad(0, 3)
    prefixes = [b"", bytes([3, 0x30, 0]), bytes([1]), bytes([1, 1, 2, 0xFF]), bytes([9, 0x0B][:1]) * 0 + bytes([2, 0x24])]
    for pre in prefixes:
        for cut in range(0, 9):
            x = pre + full[:cut]
            add("config extra: IAD cut at %d after %s" % (cut, pre.hex()), camera(iad_bytes=x))
            # a complete U3V IAD elsewhere must still be found when the cut one is not U3V / absent
    for cut in range(0, 9):
        x = full[:cut]
        storage = Iface([Alt(0, 0, 8, 6, 0x50, x, [Ep(0x84), Ep(0x04)])])
        add("interface extra: IAD cut at %d" % cut, camera(first=1, iad_bytes=b"", pre_ifaces=[storage]))
        storage = Iface([Alt(0, 0, 8, 6, 0x50, b"", [Ep(0x84), Ep(0x04, 2, bytes([6, 0x30, 0, 0, 0, 0]) + x)])])
        add("endpoint extra: IAD cut at %d" % cut, camera(first=1, iad_bytes=b"", pre_ifaces=[storage]))
    # --- every bLength in the IAD's own length field, the eight bytes being there, followed by more
    for blen in list(range(0, 14)) + [255]:
        for tail in (b"", bytes([2, 0xFF]), iad(0, 3)):
            add("IAD bLength %d tail %s" % (blen, tail.hex()), camera(iad_bytes=iad(0, 3, blen=blen) + tail))
    # --- a leading descriptor of every bLength before a complete IAD: lands before / on / inside / after it
    for blen in range(0, 14):
        for fill in (0x00, 0x0B, 0x01):
            lead = bytes([blen, 0x30] + [fill] * 3)
            add("lead bLength %d fill %02x" % (blen, fill), camera(iad_bytes=lead + iad(0, 3)))
    # one-byte descriptors followed by the IAD type byte, by a length byte, by an IAD
    for pre in ([1, 0x0B], [1, 1, 0x0B], [1, 0x0B, 0x0B], [1, 8], [1, 0], [0], [1, 0x0B, 0x0B, 0, 3, 0xEF, 5, 0]):
        add("one-byte descriptors %r" % (pre,), camera(iad_bytes=bytes(pre) + iad(0, 3)))
        add("one-byte descriptors %r alone" % (pre,), camera(iad_bytes=bytes(pre)))
    add("0B as length then IAD fields", camera(iad_bytes=bytes([1, 0x0B, 0x0B, 0, 3, 0xEF, 5, 0, 0])))
    # a non-U3V IAD first, the U3V one later in the same extra / in the next extra
    add("two IADs in one extra", camera(first=2, iad_bytes=iad(0, 2, 0x0E, 3, 0) + iad(2, 3)))
    uvc = Iface([Alt(0, 0, 0x0E, 1, 0, b"", [Ep(0x85, 3, iad(1, 3))])])
    add("IAD in the extra of the preceding endpoint", camera(first=1, iad_bytes=iad(0, 1, 0x0E, 3, 0), pre_ifaces=[uvc]))
    for cls, sub, proto in ((0xEF, 5, 1), (0xEF, 4, 0), (0xEE, 5, 0), (0xFF, 5, 0), (0, 0, 0)):
        add("IAD function %02x/%02x/%02x" % (cls, sub, proto), camera(iad_bytes=iad(0, 3, cls, sub, proto)))
    for first in (0, 1, 2, 3, 7, 255):
        add("IAD first interface %d (interfaces 0..2)" % first, camera(iad_bytes=iad(first, 3)))
    # --- device class triple
    for t in ((0xEF, 2, 1), (0xEF, 2, 0), (0xEF, 1, 1), (0xEE, 2, 1), (0, 0, 0), (0xFF, 0xFF, 0xFF), (0xEF, 5, 0)):
        add("device class %r" % (t,), camera(cls=t[0], sub=t[1], proto=t[2]))
    # --- device info descriptor: cut at every length, every bLength, type / subtype, longer than 20
    good = info_desc((0x0102, 0x0304), (0x0506, 0x0708), (1, 2, 3, 4, 5, 6, 7, 8), 0b01000)
    for cut in range(0, 25):
        add("info descriptor cut at %d" % cut, camera(info=(good + bytes([9, 9, 9, 9, 9]))[:cut]))
    for blen in list(range(0, 26)) + [127, 128, 255]:
        add("info descriptor bLength %d" % blen, camera(info=bytes([blen]) + good[1:] + bytes([7, 7, 7])))
        add("info descriptor bLength %d, 20 bytes" % blen, camera(info=bytes([blen]) + good[1:]))
    for btype, bsub in ((0x24, 0), (0x24, 2), (0x23, 1), (0x25, 1), (0x04, 1), (0, 0), (0x0B, 1)):
        add("info descriptor type %02x subtype %02x" % (btype, bsub), camera(info=info_desc(btype=btype, bsub=bsub)))
    add("info descriptor after another class descriptor", camera(info=bytes([4, 0x24, 2, 0]) + good))
    for g, u in (((0, 0), (0, 0)), ((0xFFFF, 0), (0, 0xFFFF)), ((1, 0xFFFF), (0xFFFF, 1)), ((0x1234, 0x5678), (0x9ABC, 0xDEF0))):
        add("versions %r %r" % (g, u), camera(info=info_desc(g, u)))
    # --- speed mask: all 256 values
    for m in range(256):
        if quick and m > 40 and m % 7 and m not in (0x80, 0xE0, 0xFF, 0x7F, 0x60):
            continue
        add("speed mask %02x" % m, camera(info=info_desc(speed=m)))
    # --- string indices: 0 at each position, failing read at each position, invalid UTF-8, empty, long
    for k in range(8):
        idx = [1, 2, 3, 4, 5, 6, 7, 8]
        idx[k] = 0
        add("string index 0 at position %d" % k, camera(info=info_desc(idx=idx)))
        add("string index 0 at position %d, index 0 readable" % k, camera(info=info_desc(idx=idx), strs=STD_STRS + [(0, b"zero")]))
        for code in (-9, -1, -4, -7, -99):
            strs = [(i, (code if i == k + 1 else s)) for i, s in STD_STRS]
            add("string read %d fails with %d" % (k + 1, code), camera(strs=strs))
        strs = [s for s in STD_STRS if s[0] != k + 1]
        add("string %d absent" % (k + 1), camera(strs=strs))
        strs = [(i, (b"\xff\xfeA" if i == k + 1 else s)) for i, s in STD_STRS]
        add("string %d is not UTF-8" % (k + 1), camera(strs=strs))
    add("all strings share index 5", camera(info=info_desc(idx=[5] * 8)))
    add("strings: empty, UTF-8, 255 bytes", camera(strs=[(1, b""), (2, "Kamera-Süd".encode()), (3, b"m" * 255), (4, b"\x00"),
                                                        (5, b" "), (6, b"\x7f"), (7, "日本".encode()), (8, b"u")]))
    add("duplicate string entries: the first wins", camera(strs=[(1, b"first"), (1, b"second")] + STD_STRS[1:]))
    # --- control interface shape
    shapes = [[], [Ep(0x81)], [Ep(0x01)], [Ep(0x81), Ep(0x01)], [Ep(0x01), Ep(0x81)], [Ep(0x81), Ep(0x82)], [Ep(0x01), Ep(0x02)],
              [Ep(0x81), Ep(0x01), Ep(0x82)], [Ep(0x81, 3), Ep(0x01)], [Ep(0x81), Ep(0x01, 1)], [Ep(0x81, 0), Ep(0x01, 0)],
              [Ep(0x81, 0xFE), Ep(0x01, 0x0A)], [Ep(0xFF), Ep(0x7F)], [Ep(0x80), Ep(0x00)], [Ep(0x8F, 2), Ep(0x0F, 6)]]
    for s in shapes:
        add("control endpoints %r" % ([(e.addr, e.attrs) for e in s],), camera(ctrl_eps=s))
    for cls, sub, proto in ((0xEF, 5, 1), (0xEF, 5, 2), (0xEF, 4, 0), (0xFF, 5, 0), (0, 0, 0)):
        d = camera()
        a = d.confs[0].ifaces[0].alts[0]
        a.cls, a.sub, a.proto = cls, sub, proto
        add("control interface class %02x/%02x/%02x" % (cls, sub, proto), d)
    d = camera()
    d.confs[0].ifaces[0].alts.insert(0, Alt(0, 1, 0xFF, 0, 0, b"", []))
    add("control interface: first alternate setting is not the U3V one", d)
    d = camera()
    d.confs[0].ifaces[0].alts.append(Alt(0, 1, 0xFF, 0, 0, b"", []))
    add("control interface: a second alternate setting", d)
    # --- receive interfaces: every sequence of up to 3 (4 in the thorough tier) over a small alphabet
    def recv_iface(n, k):
        if k == "E":
            return Iface([Alt(n, 0, 0xEF, 5, 1, b"", [Ep(0x82)])])
        if k == "S":
            return Iface([Alt(n, 0, 0xEF, 5, 2, b"", [Ep(0x83)])])
        if k == "X":     # another function's interface
            return Iface([Alt(n, 0, 3, 1, 1, b"", [Ep(0x84, 3)])])
        if k == "e":     # event interface with two endpoints
            return Iface([Alt(n, 0, 0xEF, 5, 1, b"", [Ep(0x82), Ep(0x85)])])
        if k == "s":     # stream interface whose endpoint is OUT
            return Iface([Alt(n, 0, 0xEF, 5, 2, b"", [Ep(0x03)])])
        if k == "a":     # stream interface whose setting 0 comes second
            return Iface([Alt(n, 1, 0xEF, 5, 2, b"", [Ep(0x86), Ep(0x87)]), Alt(n, 0, 0xEF, 5, 2, b"", [Ep(0x83)])])
        if k == "n":     # stream interface without setting 0
            return Iface([Alt(n, 1, 0xEF, 5, 2, b"", [Ep(0x83)]), Alt(n, 2, 0xEF, 5, 2, b"", [Ep(0x83)])])
        if k == "i":     # interrupt endpoint
            return Iface([Alt(n, 0, 0xEF, 5, 1, b"", [Ep(0x82, 3)])])
        if k == "0":     # no endpoint
            return Iface([Alt(n, 0, 0xEF, 5, 2, b"", [])])
        if k == "p":     # protocol 3
            return Iface([Alt(n, 0, 0xEF, 5, 3, b"", [Ep(0x82)])])
        raise ValueError(k)
    alphabet = "ESXesanip0"
    seqs = [""]
    for ln in range(1, 4 if quick else 5):
        lvl = []
        for s in seqs:
            if len(s) == ln - 1:
                lvl += [s + ch for ch in (alphabet if ln <= 2 else "ESXa")]
        seqs += lvl
    for s in seqs:
        d = camera(event=False, stream=False, iad_bytes=iad(0, 1 + len(s)))
        for k, ch in enumerate(s):
            d.confs[0].ifaces.append(recv_iface(1 + k, ch))
        add("receive interfaces %s" % (s or "-"), d)
    # interfaces before the control interface are skipped; the first_interface number may repeat later
    add("event interface BEFORE the control interface", camera(first=1, event=False, pre_ifaces=[recv_iface(0, "E")]))
    add("interfaces out of order", camera(first=5, pre_ifaces=[recv_iface(9, "X")]))
    # --- configurations
    nocam = Conf(1, bytes([2, 0xFF]), [Iface([Alt(0, 0, 8, 6, 0x50, b"", [Ep(0x81), Ep(0x02)])])])
    cam2 = camera(value=2).confs[0]
    for nconf in (0, 1, 2, 3, 255):
        add("two configurations, camera second, bNumConfigurations %d" % nconf, Dev([nocam, cam2], nconf=nconf, strs=STD_STRS, getcfg_val=1))
    add("camera in both configurations", Dev([camera(value=7).confs[0], cam2], strs=STD_STRS, getcfg_val=7))
    add("first configuration unreadable", Dev([Conf(1, b"", [], err=-1), cam2], strs=STD_STRS))
    add("second configuration unreadable, camera first", Dev([cam2, Conf(1, b"", [], err=-1)], strs=STD_STRS, getcfg_val=2))
    add("second configuration unreadable, camera third", Dev([nocam, Conf(1, b"", [], err=-9), cam2], strs=STD_STRS))
    for val in (0, 1, 2, 255, 256 + 2, -1, -254, 1 << 20):
        add("active configuration %d, camera is configuration 2" % val, Dev([cam2], strs=STD_STRS, getcfg_val=val))
        add("active configuration %d, set_configuration fails" % val, Dev([cam2], strs=STD_STRS, getcfg_val=val, setcfg=-6))
    # --- libusb errors at every call
    for code in ERR_CODES:
        add("get_device_descriptor %d" % code, camera(dd_err=code))
        add("get_config_descriptor %d" % code, Dev([Conf(1, b"", [], err=code)], strs=STD_STRS))
        add("open %d" % code, camera(open_code=code))
        add("get_configuration %d" % code, camera(getcfg_code=code))
        add("set_configuration %d" % code, camera(getcfg_val=9, setcfg=code))
    # --- lists: a broken device never hides the others
    hostile = [camera(iad_bytes=bytes([5, 0x0B])), camera(iad_bytes=bytes([5])), camera(info=b"\x14\x24"), camera(open_code=-3),
               camera(info=info_desc(speed=0)), camera(ctrl_eps=[Ep(0x81)]), camera(dd_err=-1), non_u3v(0), non_u3v(1), non_u3v(2),
               camera(strs=[])]
    for k, h in enumerate(hostile):
        add("list: camera, hostile %d, camera" % k, [camera(), h, camera(first=2, pre_ifaces=[recv_iface(0, "X"), recv_iface(1, "X")])])
        add("list: hostile %d first" % k, [h, camera(event=False)])
    add("list of all hostile devices", hostile)
    add("list of 12 cameras", [camera(first=k % 3, pre_ifaces=[recv_iface(j, "X") for j in range(k % 3)],
                                      info=info_desc((k, k + 1), (k + 2, k + 3), speed=1 << (k % 5))) for k in range(12)])
    return cs


def rand_extra(rng, hostile):
    """extra bytes: a chain of class-specific descriptors, sometimes damaged"""
    out = b""
    for _ in range(rng.below(3)):
        ln = rng.choice([2, 3, 4, 6, 9])
        out += bytes([ln, rng.choice([0x24, 0x25, 0x30, 0x21, 0xFF])]) + rng.bytes(ln - 2)
    if hostile and rng.chance(1, 14):
        k = rng.below(6)
        if k == 0:
            out += bytes(rng.choice([0, 1, 2, 8, 0x0B, 0xEF, 5, 3]) for _ in range(rng.range(1, 12)))
        elif k == 1:
            out += iad(rng.below(3), 3)[:rng.below(9)]
        elif k == 2:
            out = out[:rng.below(len(out) + 1)]
        elif k == 3:
            out += bytes([rng.choice([0, 1, 2, 7, 9, 200]), 0x0B]) + iad(0, 3)[2:]
        elif k == 4:
            out += rng.bytes(rng.below(16))
        else:
            out += bytes([1] * rng.below(4)) + iad(rng.below(3), 3, cls=rng.choice([0xEF, 0xEF, 0x0E]))
    return out


def rand_device(rng, hostile):
    """A structured random device: mostly a camera inside a composite device; [hostile] damages pieces."""
    h = (lambda num, den: hostile and rng.chance(num, 3 * den))
    npre = rng.below(3)
    first = npre if not h(1, 8) else rng.below(5)
    pre = []
    iad_at = rng.below(3) if npre else 0       # 0 config extra, 1 interface extra, 2 endpoint extra of a preceding iface
    n_recv = rng.choice([0, 1, 1, 2, 2, 2, 2, 3]) if not hostile else rng.choice([0, 1, 2, 2, 2, 3, 4])
    kinds = []
    for _ in range(n_recv):
        kinds.append(rng.choice([1, 2]))
    if not hostile and kinds in ([1, 1], [2, 2]):
        kinds[1] = 3 - kinds[0]
    the_iad = iad(first, 1 + n_recv, func=rng.below(4))
    if h(1, 6):
        the_iad = iad(first, 1 + n_recv, cls=rng.choice([0xEF, 0x0E, 0xFF]), sub=rng.choice([5, 5, 3]), proto=rng.choice([0, 0, 1]))
    for k in range(npre):
        eps = [Ep(0x84 + k, rng.choice([2, 3])), Ep(0x04 + k, 2)][:rng.range(0, 2)]
        a = Alt(k, 0, rng.choice([3, 8, 0x0E, 0xFF]), rng.below(4), rng.below(3), rand_extra(rng, hostile), eps)
        alts = [a]
        if rng.chance(1, 4):
            alts.append(Alt(k, 1, a.cls, a.sub, a.proto, rand_extra(rng, hostile), eps))
        pre.append(Iface(alts))
    cextra = rand_extra(rng, hostile)
    if iad_at == 0 or not pre:
        cextra = cextra + the_iad if not h(1, 10) else the_iad + cextra
    elif iad_at == 1:
        pre[-1].alts[-1].extra += the_iad
    else:
        eps = pre[-1].alts[-1].eps
        if eps:
            eps[-1].extra = bytes([6, 0x30, 0, 0, 0, 0]) + the_iad
        else:
            pre[-1].alts[-1].extra += the_iad
    idx = [rng.range(1, 11) for _ in range(8)]
    for k in (3, 7):
        if rng.chance(1, 3):
            idx[k] = 0
    if h(1, 10):
        idx[rng.below(8)] = 0
    g = (rng.below(1 << 16), rng.below(1 << 16)) if rng.chance(1, 2) else (rng.below(4), rng.below(10))
    u = (rng.below(1 << 16), rng.below(1 << 16)) if rng.chance(1, 2) else (1, rng.below(3))
    speed = rng.choice([1, 2, 4, 8, 16, 8, 8, 12, 24, 31, rng.below(256)])
    if h(1, 12):
        speed = rng.choice([0, 0x20, 0xE0, 0x80])
    info = info_desc(g, u, idx, speed)
    if rng.chance(1, 4):
        info += rng.bytes(rng.below(6))
    if h(1, 6):
        k = rng.below(5)
        if k == 0:
            info = info[:rng.below(21)]
        elif k == 1:
            info = bytes([rng.choice([0, 19, 21, 255, 18])]) + info[1:]
        elif k == 2:
            info = bytes([info[0], rng.choice([0x24, 0x23, 4]), rng.choice([1, 0, 2])]) + info[3:]
        elif k == 3:
            info = rng.bytes(rng.below(30))
        else:
            info = bytes([4, 0x24, 3, 0]) + info
    ain, aout = 0x80 | rng.range(1, 15), rng.range(1, 15)
    ceps = [Ep(ain, 2, rand_extra(rng, False) if rng.chance(1, 5) else b""), Ep(aout, 2)]
    if rng.chance(1, 2):
        ceps.reverse()
    if h(1, 6):
        k = rng.below(5)
        if k == 0:
            ceps = ceps[:rng.below(2)]
        elif k == 1:
            ceps.append(Ep(0x80 | rng.below(16), 2))
        elif k == 2:
            ceps[rng.below(2)].attrs = rng.choice([0, 1, 3, 0x0E, 0x12])
        elif k == 3:
            ceps[0].addr ^= 0x80
        else:
            ceps[1].addr ^= 0x80
    calts = [Alt(first if not h(1, 12) else rng.below(4), 0, 0xEF, 5, 0, info, ceps)]
    if h(1, 10):
        calts[0].cls, calts[0].sub, calts[0].proto = rng.choice([(0xEF, 5, 1), (0xFF, 5, 0), (0xEF, 4, 0)])
    if rng.chance(1, 6):
        calts.append(Alt(calts[0].num, 1, 0xEF, 5, 0, b"", []))
    ifaces = pre + [Iface(calts)]
    n = first + 1
    for kd in kinds:
        e = Ep(0x80 | rng.range(1, 15), 2)
        a = Alt(n, 0, 0xEF, 5, kd, b"", [e])
        alts = [a]
        if rng.chance(1, 3):
            alts.append(Alt(n, 1, 0xEF, 5, kd, b"", [Ep(e.addr, 2)] * rng.below(3)))
            if rng.chance(1, 3):
                alts.reverse()
        if h(1, 5):
            k = rng.below(6)
            if k == 0:
                a.eps = []
            elif k == 1:
                a.eps = [e, Ep(0x8A, 2)]
            elif k == 2:
                e.addr &= 0x7F
            elif k == 3:
                e.attrs = rng.choice([0, 1, 3])
            elif k == 4:
                a.proto = rng.choice([0, 3, 255])
            else:
                a.setting = rng.choice([1, 2])
        ifaces.append(Iface(alts))
        n += 1
    if rng.chance(1, 6):
        ifaces.append(Iface([Alt(n, 0, rng.choice([3, 0xFF]), 0, 0, b"", [Ep(0x8E, 3)])]))
    value = rng.choice([1, 1, 2, 3, 255])
    confs = [Conf(value, cextra, ifaces)]
    if rng.chance(1, 5):
        other = Conf(value + 1 & 0xFF, rand_extra(rng, hostile), [Iface([Alt(0, 0, 0xFF, 0, 0, rand_extra(rng, hostile), [])])])
        if h(1, 4):
            other.err = rng.choice(ERR_CODES)
        confs = [other] + confs if rng.chance(1, 2) else confs + [other]
    nconf = len(confs) if not h(1, 8) else rng.choice([0, 1, 2, 3])
    strs = []
    for i in range(1, 12):
        if hostile and rng.chance(1, 40):
            continue
        s = rng.choice([b"cam", b"ACME Vision", b"", b"S/N 12-34", "Größe".encode(), b"x" * rng.below(40)]) + bytes([48 + i])
        if h(1, 12):
            s = rng.choice([rng.choice(ERR_CODES[:13]), b"\xc3", b"\xff", b"ok\xe2\x82"])
        strs.append((i, s))
    if rng.chance(1, 10):
        strs.append((0, b"lang"))
    kw = {}
    if h(1, 12):
        kw["dd_err"] = rng.choice(ERR_CODES)
    if h(1, 12):
        kw["open_code"] = rng.choice(ERR_CODES)
    if h(1, 12):
        kw["getcfg_code"] = rng.choice(ERR_CODES)
    getcfg_val = value if rng.chance(2, 3) else rng.choice([0, 1, 2, 256 + value, value - 256, 77])
    if h(1, 6):
        kw["setcfg"] = rng.choice(ERR_CODES)
    if h(1, 12):
        kw["cls"], kw["sub"], kw["proto"] = rng.choice([(0xEF, 2, 0), (0, 0, 0), (0xEF, 1, 1), (0xFF, 2, 1)])
    return Dev(confs, nconf=nconf, strs=strs, getcfg_val=getcfg_val, **kw)


def rand_garbage_device(rng):
    """random bytes everywhere (mostly a U3V candidate so that parsing is reached)"""
    def alt(n):
        return Alt(rng.choice([n, rng.below(4)]), rng.choice([0, 0, 1]), rng.choice([0xEF, 0xEF, rng.below(256)]),
                   rng.choice([5, 5, rng.below(256)]), rng.below(4), rand_bytes(), [Ep(rng.below(256), rng.below(256), rand_bytes())
                                                                                    for _ in range(rng.below(4))])

    def rand_bytes():
        k = rng.below(4)
        if k == 0:
            return b""
        if k == 1:
            return bytes(rng.choice([0, 1, 2, 3, 8, 0x0B, 0xEF, 5, 20, 0x24]) for _ in range(rng.below(24)))
        if k == 2:
            return iad(rng.below(3), rng.below(4))[:rng.range(1, 8)] if rng.chance(1, 2) else iad(rng.below(3), 3) + rng.bytes(rng.below(4))
        return rng.bytes(rng.below(30))
    confs = [Conf(rng.below(256), rand_bytes(), [Iface([alt(n) for _ in range(rng.range(1, 2))]) for n in range(rng.below(5))],
                  err=0 if rng.chance(7, 8) else rng.choice(ERR_CODES)) for _ in range(rng.below(3))]
    t = (0xEF, 2, 1) if rng.chance(4, 5) else (rng.below(256), rng.below(3), rng.below(2))
    strs = [(rng.below(256), rng.choice([b"s", rng.bytes(rng.below(6)), rng.choice(ERR_CODES[:13])])) for _ in range(rng.below(12))]
    return Dev(confs, cls=t[0], sub=t[1], proto=t[2], nconf=rng.choice([len(confs), len(confs), rng.below(4)]), strs=strs,
               getcfg_val=rng.below(256), open_code=rng.choice([0] * 7 + [-3]), setcfg=rng.choice([0, 0, -6]))


def gen_enum_cases(ck):
    quick = ck.tier == "quick"
    rng = Rng(ck.seed * 7919 + 77)
    cs = gen_enum_boundary(rng, quick)
    n_struct, n_host, n_list, n_garbage = (260, 420, 70, 220) if quick else (3000, 6000, 800, 3000)
    for k in range(n_struct):
        cs.append(enum_case(1, [rand_device(rng, False)], "structured %d" % k, "structured"))
    for k in range(n_host):
        cs.append(enum_case(1, [rand_device(rng, True)], "hostile %d" % k, "hostile"))
    for k in range(n_list):
        devs = []
        for _ in range(rng.range(2, 6)):
            r = rng.below(6)
            devs.append(rand_device(rng, False) if r < 2 else rand_device(rng, True) if r < 4 else non_u3v(rng.below(3)) if r == 4
                        else rand_garbage_device(rng))
        cs.append(enum_case(len(devs), devs, "list %d" % k, "lists"))
    for k in range(n_garbage):
        cs.append(enum_case(1, [rand_garbage_device(rng)], "garbage %d" % k, "garbage"))
    return cs


# ------------------------------------------------------------------------------------------------------
# channels
# ------------------------------------------------------------------------------------------------------
OP_OPEN, OP_CLOSE, OP_ISOPEN, OP_SEND, OP_RECV, OP_SETHALT, OP_CLEARHALT, OP_RECREATE = 1, 2, 3, 4, 5, 6, 7, 8


def pattern(n):
    return [(11 + 3 * i) & 255 for i in range(n)]


def chan_case(dev, which, plan, ops, name, fam):
    toks = dev_tokens(dev) + [which, len(plan)]
    for code, n, data in plan:
        toks += [code, n, xh(data)]
    toks.append(len(ops))
    opt = []
    for op in ops:
        toks.append(op[0])
        if op[0] == OP_SEND:
            toks += [xh(op[1]), op[2]]
            opt.append("OSend %s %d" % (zl(op[1]), op[2]))
        elif op[0] == OP_RECV:
            toks += [op[1], op[2]]
            opt.append("ORecv %d %d" % (op[1], op[2]))
        elif op[0] == OP_SETHALT:
            toks += [op[1]]
            opt.append("OSetHalt %d" % op[1])
        else:
            opt.append({OP_OPEN: "OOpen", OP_CLOSE: "OClose", OP_ISOPEN: "OIsOpened", OP_CLEARHALT: "OClearHalt",
                        OP_RECREATE: "ORecreate"}[op[0]])
    c = Case("chan", toks, meta=dict(name=name, fam=fam, dev=dev, which=which, plan=plan, ops=ops))
    c.term = "run_chan %s %d [%s] [%s]" % (dev_term(dev), which,
                                            ";".join("mkResp %s %s %s" % (zlit(p[0]), zlit(p[1]), zl(p[2])) for p in plan),
                                            ";".join(opt))
    return c


def expect_chan(c):
    """Independent expectation of a channel history: (output, log) or None when the device is not enumerated /
    has no such channel.  Written from the property text: open claims exactly the interface (once), close releases
    it, send / recv are ONE bulk transfer on the out / in endpoint of the interface with the caller's length and
    timeout (milliseconds, 32 bit) returning libusb's count or error, set_halt is SET_FEATURE(ENDPOINT_HALT) to the
    endpoint(s), clear_halt clears them, an error leaves the open flag as it was, dropping a channel releases what
    it claimed and closes the handle."""
    m = c.meta
    e = expect_dev(m["dev"])
    if e in (SKIP, ANY):
        return None
    # the interface numbers / endpoints are the last fields of the expected enumeration output
    got = parse_devs([0, 1, 0] + e)[0][1]
    q = 6
    for optional in (0, 0, 0, 1, 0, 0, 0, 1):
        if optional:
            if got[q] == 0:
                q += 1
                continue
            q += 1
        q += 1 + got[q]
    q += 1
    ctrl = got[q:q + 3]
    q += 3
    ev = None
    if got[q] == 1:
        ev = got[q + 1:q + 3]
        q += 3
    else:
        q += 1
    st = got[q + 1:q + 3] if got[q] == 1 else None
    which = m["which"]
    if which == 0:
        iface, ep_in, ep_out = ctrl
    else:
        r = ev if which == 1 else st
        if r is None:
            return "nochan"
        iface, ep_in = r
        ep_out = None
    plan = list(m["plan"])
    log = []
    out = []

    def pop():
        return plan.pop(0) if plan else None

    def unit(code):
        return [0] if code == 0 else [1, kind_of(code)]

    class St:
        alive = False
        opened = False
        claimed = False
    s = St()

    def create():
        log.extend([3, 0])
        r = pop()
        code = r[0] if r else 0
        if code != 0:
            s.alive = False
            return [1, kind_of(code)]
        s.alive, s.opened, s.claimed = True, False, False
        return [0]

    def destroy():
        if s.alive:
            if s.claimed:
                log.extend([9, 0, iface])
                pop()
            log.extend([7, 0])
        s.alive = False

    def bulk(ep, length, tmo, data_out):
        log.extend([11, 0, ep, length, tmo & 0xFFFFFFFF])
        if data_out is not None:
            log.extend([len(data_out)] + list(data_out))
        r = pop()
        if r is None:
            return 0, length, pattern(length)
        return r

    def bulk_result(code, n):
        if code == 0:
            return ("ok", n)
        if code in (-7, -10) and n > 0:
            return ("ok", n)
        return ("err", kind_of(code))

    def halt(ep, tmo):
        log.extend([12, 0, 2, 3, 0, ep, 0, tmo & 0xFFFFFFFF])
        r = pop()
        res = 0 if r is None else (r[0] if r[0] != 0 else r[1])
        return res

    out += create()
    for op in m["ops"]:
        k = op[0]
        if k == OP_RECREATE:
            destroy()
            out += create()
            continue
        if not s.alive:
            out.append(-1)
            continue
        if k == OP_OPEN:
            if s.opened:
                out.append(0)
            else:
                log.extend([8, 0, iface])
                r = pop()
                code = r[0] if r else 0
                if code == 0:
                    s.opened = s.claimed = True
                out += unit(code)
        elif k == OP_CLOSE:
            if not s.opened:
                out.append(0)
            else:
                log.extend([9, 0, iface])
                r = pop()
                code = r[0] if r else 0
                if code == 0:
                    s.opened = s.claimed = False
                out += unit(code)
        elif k == OP_ISOPEN:
            out.append(1 if s.opened else 0)
        elif k == OP_SEND:
            if ep_out is None:
                out.append(-3)
                continue
            code, n, _d = bulk(ep_out, len(op[1]), op[2], op[1])
            r = bulk_result(code, n)
            out += [0, r[1]] if r[0] == "ok" else [1, r[1]]
        elif k == OP_RECV:
            code, n, d = bulk(ep_in, op[1], op[2], None)
            r = bulk_result(code, n)
            if r[0] == "ok":
                buf = (list(d)[:op[1]] + [0xCD] * op[1])[:op[1]]
                out += [0, r[1], op[1]] + buf
            else:
                out += [1, r[1]]
        elif k == OP_SETHALT:
            eps = [ep_in] + ([ep_out] if ep_out is not None else [])
            res = 0
            for ep in eps:
                res = halt(ep, op[1])
                if res < 0:
                    break
            out += [0] if res >= 0 else [1, kind_of(res)]
        elif k == OP_CLEARHALT:
            eps = [ep_in] + ([ep_out] if ep_out is not None else [])
            code = 0
            for ep in eps:
                log.extend([10, 0, ep])
                r = pop()
                code = r[0] if r else 0
                if code != 0:
                    break
            out += unit(code)
    out += [-8, (1 if s.opened else 0) if s.alive else -1]
    destroy()
    return out + [-7] + log


def predicate_chan(c, out):
    if out is None:
        return "no output"
    if out == [2]:
        return "a channel operation panicked"
    if out in ([3], [4]):
        return "hung or killed the process"
    e = expect_chan(c)
    if e is None:
        return None
    if e == "nochan":
        return None if out == [-2] else "the device has no such receive interface but a channel was handed out: %r" % (_clip(out),)
    if out != e:
        k = next((i for i in range(min(len(out), len(e))) if out[i] != e[i]), min(len(out), len(e)))
        return "channel history differs from the specified behaviour at output position %d: got %r, specified %r" % (
            k, _clip(out[max(0, k - 6):k + 10], 20), _clip(e[max(0, k - 6):k + 10], 20))
    return None


def nontrivial_chan(c, out):
    return bool(out) and out[0] == 0 and len(out) > 8


def rand_plan_entry(rng, ops_hint):
    k = rng.below(10)
    if k < 4:
        return (0, rng.below(40), rng.bytes(rng.below(40)))
    if k < 6:
        return (rng.choice(ERR_CODES), rng.below(20), b"")
    if k < 8:
        return (rng.choice([-7, -10]), rng.choice([0, 0, 1, 5, 17]), rng.bytes(rng.below(20)))
    return (0, 0, b"")


def gen_chan_cases(ck):
    quick = ck.tier == "quick"
    rng = Rng(ck.seed * 104729 + 5)
    cs = []

    def add(name, dev, which, plan, ops, fam="boundary"):
        cs.append(chan_case(dev, which, plan, ops, name, fam))

    def cam(rng_=None):
        if rng_ is None:
            return camera()
        first = rng_.below(4)
        pre = [Iface([Alt(j, 0, 3, 1, 1, b"", [Ep(0x8C + j, 3)])]) for j in range(first)]
        ain, aout = 0x80 | rng_.range(1, 15), rng_.range(1, 15)
        eps = [Ep(ain), Ep(aout)]
        if rng_.chance(1, 2):
            eps.reverse()
        d = camera(first=first, pre_ifaces=pre, ctrl_eps=eps, ev_first=rng_.chance(1, 2))
        for i in d.confs[0].ifaces[first + 1:]:
            for a in i.alts:
                for e in a.eps:
                    e.addr = 0x80 | rng_.range(1, 15)
        return d
    T = 100
    ok = (0, 0, b"")
    for which in (0, 1, 2):
        w = "ctrl" if which == 0 else "event" if which == 1 else "stream"
        add(w + ": open close", cam(), which, [], [(OP_ISOPEN,), (OP_OPEN,), (OP_ISOPEN,), (OP_CLOSE,), (OP_ISOPEN,)])
        add(w + ": open twice, close twice", cam(), which, [], [(OP_OPEN,), (OP_OPEN,), (OP_ISOPEN,), (OP_CLOSE,), (OP_CLOSE,), (OP_ISOPEN,)])
        add(w + ": close without open", cam(), which, [], [(OP_CLOSE,), (OP_ISOPEN,)])
        for code in ERR_CODES:
            add(w + ": claim fails %d, then succeeds" % code, cam(), which, [ok, (code, 0, b"")], [(OP_OPEN,), (OP_ISOPEN,), (OP_OPEN,), (OP_ISOPEN,)])
            add(w + ": release fails %d, then succeeds" % code, cam(), which, [ok, ok, (code, 0, b"")],
                [(OP_OPEN,), (OP_CLOSE,), (OP_ISOPEN,), (OP_CLOSE,), (OP_ISOPEN,)])
            add(w + ": recv fails %d" % code, cam(), which, [ok, ok, (code, 0, b"")], [(OP_OPEN,), (OP_RECV, 16, T), (OP_ISOPEN,), (OP_RECV, 4, T)])
            add(w + ": recv fails %d with 3 bytes transferred" % code, cam(), which, [ok, ok, (code, 3, b"abc")], [(OP_OPEN,), (OP_RECV, 16, T), (OP_ISOPEN,)])
            add(w + ": clear_halt fails %d at the first endpoint" % code, cam(), which, [ok, (code, 0, b"")], [(OP_CLEARHALT,), (OP_CLEARHALT,)])
            add(w + ": set_halt fails %d at the first endpoint" % code, cam(), which, [ok, (code, 0, b"")], [(OP_SETHALT, T), (OP_SETHALT, T)])
            add(w + ": channel cannot be opened %d" % code, cam(), which, [(code, 0, b"")], [(OP_OPEN,), (OP_RECREATE,), (OP_OPEN,), (OP_ISOPEN,)])
            if which == 0:
                add("ctrl: send fails %d" % code, cam(), 0, [ok, ok, (code, 0, b"")], [(OP_OPEN,), (OP_SEND, b"\x01\x02\x03", T), (OP_ISOPEN,), (OP_SEND, b"", T)])
                add("ctrl: send fails %d with 2 bytes transferred" % code, cam(), 0, [ok, ok, (code, 2, b"")], [(OP_OPEN,), (OP_SEND, b"\x01\x02\x03", T)])
                add("ctrl: clear_halt fails %d at the second endpoint" % code, cam(), 0, [ok, ok, (code, 0, b"")], [(OP_CLEARHALT,), (OP_CLEARHALT,)])
                add("ctrl: set_halt fails %d at the second endpoint" % code, cam(), 0, [ok, ok, (code, 0, b"")], [(OP_SETHALT, T), (OP_SETHALT, T)])
        add(w + ": recv on a closed channel", cam(), which, [ok, (0, 5, b"hello")], [(OP_RECV, 8, T), (OP_ISOPEN,)])
        add(w + ": halt on a closed channel", cam(), which, [], [(OP_SETHALT, 5), (OP_CLEARHALT,), (OP_ISOPEN,)])
        for n in (0, 1, 7, 8, 9, 64):
            add(w + ": recv buffer 8, device sends %d" % n, cam(), which, [ok, ok, (0, min(n, 8), bytes(range(1, n + 1)))], [(OP_OPEN,), (OP_RECV, 8, T)])
        add(w + ": recv count above the buffer length is returned unchanged", cam(), which, [ok, (0, 99, b"ab")], [(OP_RECV, 2, T)])
        add(w + ": recv into an empty buffer", cam(), which, [ok, (0, 0, b"")], [(OP_RECV, 0, T)])
        for tmo in (0, 1, 999, 0xFFFFFFFF, 0x100000000, 0x100000005, (1 << 40) + 77):
            add(w + ": timeout %d ms" % tmo, cam(), which, [], [(OP_RECV, 4, tmo), (OP_SETHALT, tmo)] + ([(OP_SEND, b"\x09", tmo)] if which == 0 else []))
        add(w + ": drop while open releases and closes", cam(), which, [], [(OP_OPEN,), (OP_RECREATE,), (OP_ISOPEN,), (OP_OPEN,)])
        add(w + ": drop after a failed release", cam(), which, [ok, ok, (-4, 0, b"")], [(OP_OPEN,), (OP_CLOSE,), (OP_RECREATE,), (OP_ISOPEN,)])
        add(w + ": plan exhausted", cam(), which, [], [(OP_OPEN,), (OP_RECV, 12, T), (OP_CLEARHALT,), (OP_SETHALT, 3), (OP_CLOSE,)])
    for n in (0, 1, 2, 63, 64, 65, 500):
        data = bytes((7 * i + 1) & 255 for i in range(n))
        add("ctrl: send %d bytes" % n, cam(), 0, [ok, ok, (0, n, b"")], [(OP_OPEN,), (OP_SEND, data, T)])
        add("ctrl: send %d bytes, short count" % n, cam(), 0, [ok, ok, (0, n // 2, b"")], [(OP_OPEN,), (OP_SEND, data, T)])
    add("ctrl: send on a closed channel", cam(), 0, [ok, (0, 2, b"")], [(OP_SEND, b"\xaa\xbb", T), (OP_ISOPEN,)])
    add("event channel of a camera without event interface", camera(event=False), 1, [], [(OP_OPEN,)])
    add("stream channel of a camera without stream interface", camera(stream=False), 2, [], [(OP_OPEN,)])
    add("channel of a device that is not enumerated", camera(info=b""), 0, [], [(OP_OPEN,)])
    # random histories over random (well-formed) devices
    for k in range(500 if quick else 6000):
        d = cam(rng)
        which = rng.choice([0, 0, 0, 1, 2])
        nops = rng.range(1, 14)
        ops = []
        for _ in range(nops):
            o = rng.choice([OP_OPEN, OP_OPEN, OP_CLOSE, OP_ISOPEN, OP_SEND, OP_SEND, OP_RECV, OP_RECV, OP_RECV, OP_SETHALT,
                            OP_CLEARHALT, OP_RECREATE])
            if o == OP_SEND:
                if which != 0:
                    o = OP_RECV
                else:
                    ops.append((o, rng.bytes(rng.below(24)), rng.choice([0, 1, 50, 1000, 0xFFFFFFFF, 1 << 33, rng.below(1 << 34)])))
                    continue
            if o == OP_RECV:
                ops.append((o, rng.below(40), rng.choice([0, 1, 50, 1000, 0xFFFFFFFF, (1 << 32) + 9, rng.below(1 << 34)])))
            elif o == OP_SETHALT:
                ops.append((o, rng.choice([0, 10, rng.below(1 << 34)])))
            else:
                ops.append((o,))
        plan = [rand_plan_entry(rng, ops) for _ in range(rng.below(2 * nops + 2))]
        if rng.chance(2, 3) and plan:
            plan[0] = ok          # mostly: the channel can be created
        add("history %d" % k, d, which, plan, ops, fam="histories")
    return cs


# ------------------------------------------------------------------------------------------------------
# running
# ------------------------------------------------------------------------------------------------------
TRUSTED = ["rust/h_usb/src/fake_usb.rs: the scripted fake of libusb (C ABI of libusb.h; keeps the library's contract that an "
           "interface has an alternate setting and bNumEndpoints endpoints); rusb 0.9 is linked unmodified and is inside the run",
           "tools/usbenum.py (generators, Python expectation; UTF-8 validity of string descriptors decided by Python's decoder)"]


def build(ck):
    binary, log = ck.cargo_build("h_usb")
    if binary is None:
        path = ck.write_replay({"kind": "build", "property": ck.pid, "unchecked": "correspondence via rust/h_usb",
                                "log": log[-6000:]})
        ck.violations.append((path, True, "harness rust/h_usb does not build against the repository's device crate: "
                                          "correspondence of the USB layer cannot be established"))
    return binary


def _run(ck, cases, imports, predicate, nontrivial, label):
    binary = build(ck)
    if binary is None:
        return
    impl = ck.run_impl(binary, [c.line for c in cases], jobs=8, timeout=120)
    ck.phase(label + " impl")
    model = ck.run_model_terms(imports, [c.term for c in cases], per_eval=25, jobs=12)
    ck.phase(label + " model")
    fams = []
    for c in cases:
        if c.meta["fam"] not in fams:
            fams.append(c.meta["fam"])
    for f in fams:
        ix = [i for i, c in enumerate(cases) if c.meta["fam"] == f]
        ck.compare([cases[i] for i in ix], [impl[i] for i in ix], [model[i] for i in ix], predicate, nontrivial,
                   family="%s: %s" % (label, f), correspondence="rust/h_usb (real cameleon-device over the scripted libusb) vs %s" % imports[-1])
    for t in TRUSTED:
        if t not in ck.trusted:
            ck.trusted.append(t)


def run_ctlreal(ck, cases, shim_out, predicate, nontrivial=None, label="control path end to end"):
    """The `ctl` cases of a control-handle check (their lines and the outputs of rust/h_u3v = /repo/cameleon compiled
    against the fake channels of rust/shim) run once more on the REAL stack -- the real cameleon crate over the real
    cameleon-device crate, real rusb and the scripted fake libusb, the simulated device of rust/shim behind the bulk
    endpoints (rust/h_usbctl) -- and compared line by line; the property's own predicate is evaluated on the output
    of the real stack."""
    binary, log = ck.cargo_build("h_usbctl")
    if binary is None:
        path = ck.write_replay({"kind": "build", "property": ck.pid, "unchecked": "correspondence via rust/h_usbctl",
                                "log": log[-6000:]})
        ck.violations.append((path, True, "harness rust/h_usbctl (real cameleon + cameleon-device over the fake libusb) "
                                          "does not build against the repository"))
        return
    if RULE_E2E not in ck.rule:
        ck.rule += RULE_E2E
    ix = [i for i, c in enumerate(cases) if c.kind == "ctl"]
    real = ck.run_impl(binary, [cases[i].line for i in ix], jobs=8, big_stack=True, timeout=300)
    ck.phase(label)
    ck.compare([cases[i] for i in ix], real, [shim_out[i] for i in ix], predicate, nontrivial,
               family="%s: real cameleon + cameleon-device + rusb over the fake libusb vs the shim stack" % label,
               correspondence="rust/h_usbctl (real USB layer) vs rust/h_u3v (rust/shim + rust/cut), line by line")
    t = ("rust/h_usbctl: the device side of rust/shim (u3v::sim::World) behind the bulk endpoints of the fake libusb; "
         "the channels, Device and enumeration of cameleon-device and the cameleon crate itself are the repository's")
    if t not in ck.trusted:
        ck.trusted.append(t)


RULE_ENUM = (" || USB enumeration (tools/usbenum.py): the REAL cameleon_device::u3v::enumerate_devices over real rusb and a scripted "
             "fake libusb (rust/h_usb) vs model/UsbEnum.v on the same device lists; boundary family first (an IAD cut at every "
             "position at the end of the configuration / interface / endpoint extra bytes after five prefixes, every bLength of "
             "the IAD and of a leading descriptor, one-byte descriptors, two IADs, every cut and bLength of the device info "
             "descriptor, type / subtype, all 256 speed masks, index 0 and a failing / absent / non-UTF-8 string at each of the 8 "
             "positions, 15 control endpoint shapes, every sequence of up to 3 receive-like interfaces over 10 kinds, "
             "configurations (count, order, unreadable, active value incl. truncation to u8), 15 libusb codes at "
             "get_device_descriptor / get_config_descriptor / open / get_configuration / set_configuration / get_device_list, "
             "lists mixing cameras with hostile and foreign devices), then structured random composite devices, damaged ones, "
             "lists, random bytes everywhere; predicate = independent Python decision and decoding written from the USB 3.x "
             "IAD and USB3 Vision device info layouts (no panic, exactly the accepted devices in order with exactly the decoded "
             "fields, foreign devices never opened, handles balanced)")
RULE_CHAN = (" || USB channels (tools/usbenum.py): ControlChannel / ReceiveChannel of the REAL crate over the scripted fake libusb "
             "(rust/h_usb) vs model/UsbChannel.v: boundary histories (15 libusb codes at claim / release / bulk / halt / clear / "
             "open, transferred counts with errors, buffer sizes, timeouts beyond 32 bits, closed-channel operations, drop while "
             "open) and random histories over random enumerated devices; predicate = independent Python statement of the channel "
             "contract (which libusb call with which interface / endpoint / length / timeout, result unchanged, flag after errors)")
RULE_E2E = (" || end to end: every ctl case of this check is run a second time on the real cameleon crate + real cameleon-device "
            "+ rusb over the fake libusb with the simulated device of rust/shim behind the bulk endpoints (rust/h_usbctl); output "
            "must equal that of the shim stack line by line, the property's predicate is evaluated on it")


def run_enum(ck):
    ck.rule += RULE_ENUM
    cases = gen_enum_cases(ck)
    _run(ck, cases, ["UsbEnum"], predicate_enum, nontrivial_enum, "usb enumeration")
    exp = {}
    for c in cases:
        for d in c.meta["devs"]:
            e = expect_dev(d)
            k = e if isinstance(e, str) else "accepted"
            exp[k] = exp.get(k, 0) + 1
    ck.dist["usb_enum_devices_expected"] = exp


def run_chan(ck):
    ck.rule += RULE_CHAN
    cases = gen_chan_cases(ck)
    _run(ck, cases, ["UsbChannel"], predicate_chan, nontrivial_chan, "usb channels")
    ops = {}
    for c in cases:
        for o in c.meta["ops"]:
            ops[o[0]] = ops.get(o[0], 0) + 1
    ck.dist["usb_chan_ops"] = ops


class _Cur:
    def __init__(self, line):
        self.t = line.split()
        self.p = 0

    def word(self):
        self.p += 1
        return self.t[self.p - 1]

    def int(self):
        return int(self.word())

    def bytes(self):
        return bytes.fromhex(self.word()[1:])


def _parse_dev(c):
    d = Dev([], dd_err=c.int(), cls=c.int(), sub=c.int(), proto=c.int(), nconf=c.int())
    for _ in range(c.int()):
        cf = Conf(err=c.int(), value=c.int(), extra=c.bytes())
        for _i in range(c.int()):
            alts = []
            for _a in range(c.int()):
                a = Alt(c.int(), c.int(), c.int(), c.int(), c.int(), c.bytes())
                for _e in range(c.int()):
                    a.eps.append(Ep(c.int(), c.int(), c.bytes()))
                alts.append(a)
            cf.ifaces.append(Iface(alts))
        d.confs.append(cf)
    d.open_code, d.getcfg_code, d.getcfg_val, d.setcfg = c.int(), c.int(), c.int(), c.int()
    for _ in range(c.int()):
        i = c.int()
        d.strs.append((i, c.bytes()) if c.int() == 0 else (i, c.int()))
    return d


def parse_case(line):
    """the case object (with its model term and the data the predicate needs) back from a harness line"""
    c = _Cur(line)
    kind = c.word()
    if kind == "enum":
        list_code = c.int()
        devs = [_parse_dev(c) for _ in range(c.int())]
        return enum_case(list_code, devs, "replayed", "replay")
    dev = _parse_dev(c)
    which = c.int()
    plan = [(c.int(), c.int(), c.bytes()) for _ in range(c.int())]
    ops = []
    for _ in range(c.int()):
        o = c.int()
        if o == OP_SEND:
            ops.append((o, c.bytes(), c.int()))
        elif o == OP_RECV:
            ops.append((o, c.int(), c.int()))
        elif o == OP_SETHALT:
            ops.append((o, c.int()))
        else:
            ops.append((o,))
    return chan_case(dev, which, plan, ops, "replayed", "replay")


def replay(ck, r):
    """--replay of a stored usb case: the real code, the model and the predicate verdict on exactly that case"""
    if r.get("ckind") == "ctl":
        # an end-to-end case: the real stack (rust/h_usbctl) against the shim stack (rust/h_u3v) on exactly this line
        b_real, _ = ck.cargo_build("h_usbctl")
        b_shim, _ = ck.cargo_build("h_u3v")
        if b_real is None or b_shim is None:
            print("a harness does not build")
            sys.exit(1)
        real = ck.run_impl(b_real, [r["case"]], big_stack=True)[0]
        shim = ck.run_impl(b_shim, [r["case"]], big_stack=True)[0]
        print("case      :", r["case"][:3000])
        print("real stack:", _clip(real, 300))
        print("shim stack:", _clip(shim, 300))
        print("agree     :", real == shim)
        print("predicate failure (stored):", r.get("predicate_failure"))
        sys.exit(0 if real == shim else 1)
    c = parse_case(r["case"])
    assert c.line == r["case"], "the stored case does not re-render to itself"
    binary = build(ck)
    if binary is None:
        ck.finish()
    impl = ck.run_impl(binary, [c.line])
    model = ck.run_model_terms(["UsbEnum"] if c.kind == "enum" else ["UsbChannel"], [c.term])
    why = (predicate_enum if c.kind == "enum" else predicate_chan)(c, impl[0])
    print("case     :", c.line[:3000])
    print("impl     :", _clip(impl[0], 300))
    print("model    :", _clip(model[0], 300))
    print("predicate:", why or "holds")
    print("agree    :", impl[0] == model[0])
    sys.exit(0 if impl[0] == model[0] and why is None else 1)


def main():
    what = sys.argv[1] if len(sys.argv) > 1 else "all"
    tier = sys.argv[2] if len(sys.argv) > 2 else "quick"
    for pid, fn in (("C07", run_enum), ("C06", run_chan)):
        if what not in ("all", "enum" if pid == "C07" else "chan"):
            continue
        ck = Check(pid, [tier])
        fn(ck)
        print(json.dumps(ck.dist, indent=1)[:3000])
        for path, nofail, why in ck.violations[:12]:
            print("  VIOLATION%s %s\n     %s" % (" (no failing input)" if nofail else "", path, why[:400]))
        print("[usbenum %s] cases=%d compared=%d nontrivial=%d violations=%d" % (
            pid, ck.evaluations, ck.compared, len(ck.nontrivial_keys), len(ck.violations)))


if __name__ == "__main__":
    main()
