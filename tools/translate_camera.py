#!/usr/bin/env python3
"""tools/translate_camera.py -- CODE translator for cameleon/src/camera.rs (property C16).

Re-run on every `./check C16`.  Reads cameleon/src/camera.rs (and pins `channel` of cameleon/src/payload.rs) and
writes coq/theories/gen/CameraSrc.v: the six methods

    Camera::{open, close, load_context, start_streaming, stop_streaming, params_ctxt}

as STATEMENT-level translations into the monad M of model/Camera.v over the operation vocabulary of
model/CamOps.v.  The generated term lists the steps of each method IN SOURCE ORDER (property C16 is about that
order); proofs/P_C16s.v proves the generated methods equal to the hand-written cam_open / cam_load / cam_start true /
cam_stop / cam_close / params_ctxt of model/Camera.v for every failure plan and state.

Accepted statements (anything else is a ShapeError: the check then reports C16's proof obligations as broken)
  info!(..);                                       skipped (the only macro statement allowed; `use tracing::info;` checked)
  #[tracing::instrument(..)] / doc attributes      skipped (the only attributes allowed on the six methods)
  const NAME: usize = <literal>;                   Definition src_NAME
  if <cond> { return <result>; }                   b <- <cond> ;; if b then <result> else <rest>
      <cond>   ::= self.strm.is_loop_running() | self.ctxt.is_none() | !<cond>
      <result> ::= Ok(()) | Err(<Path>::<Variant>) | Err(<Path>::<Variant>.into())
  self.<ctrl|strm>.<method>(<args>)?;              <field>_<method> <args> ;;;     (a vocabulary operation)
  let [mut] x = self.ctrl.genapi()?;               x <- ctrl_genapi <the device's description> ;;
  let [mut] x = self.params_ctxt()?;               x <- src_params_ctxt ;;
  self.stop_streaming()?;                          src_stop_streaming ;;;
  expect_node!(&x, "Name", as_i).set_value(&mut x, <literal>)?;    expect_node_set_value x N_Name as_i <literal> ;;;
  expect_node!(&x, "Name", as_i).execute(&mut x)?;                 expect_node_execute x N_Name as_i ;;;
      (the text of macro_rules! expect_node is pinned)
  let (a, b) = channel(<param>, <CONST>);          p <- channel .. .. ;; let '(a, b) := p in    (payload::channel pinned)
  self.ctxt = Some(Ctxt::from_xml(&x)?);           c <- Ctxt_from_xml x ;; assign_ctxt_some c ;;;
  if let Some(c) = &mut self.ctxt { c.clear_cache() }              if_let_ctxt (fun c => ctxt_clear_cache c) ;;;
  let x = Ok(()) / Ok(v);                          a pure binding (a later tail `x`)
  tail:  Ok(()) | Ok(x) | x | if let Some(c) = self.ctxt.as_mut() { Ok(ParamsCtxt { ctrl: &mut self.ctrl, ctxt: c }) }
                                                       else { Err(<Path>::<Variant>) }
A call that returns a Result and is neither followed by `?` nor the tail (e.g. `let _ = self.stop_streaming();`,
`self.ctrl.close();`) is a ShapeError.  Locals keep their source names (prefixed v_)."""
import os, re, sys

HERE = os.path.dirname(os.path.abspath(__file__))
OUT = os.path.join(os.path.dirname(HERE), "coq", "theories", "gen", "CameraSrc.v")
METHODS = ["params_ctxt", "open", "load_context", "start_streaming", "stop_streaming", "close"]
COQ_NAME = {"params_ctxt": "src_params_ctxt", "open": "src_cam_open", "load_context": "src_cam_load",
            "start_streaming": "src_cam_start", "stop_streaming": "src_cam_stop", "close": "src_cam_close"}
# DeviceControl / PayloadStream methods that return a Result and take no argument
UNIT_OPS = {("ctrl", "open"), ("ctrl", "close"), ("ctrl", "enable_streaming"), ("ctrl", "disable_streaming"),
            ("strm", "open"), ("strm", "close"), ("strm", "stop_streaming_loop")}
NODE_NAMES = {"TLParamsLocked", "AcquisitionStart", "AcquisitionStop"}
IFACES = {"as_integer", "as_command"}


class ShapeError(Exception):
    pass


# ------------------------------------------------------------------------------------------------ tokens --
def strip_comments(s):
    s = re.sub(r"/\*.*?\*/", " ", s, flags=re.S)
    return re.sub(r"//[^\n]*", "", s)


TOK = re.compile(r"""\s*(
    "(?:[^"\\]|\\.)*" |
    '[a-z_]+(?!') |
    [A-Za-z_][A-Za-z0-9_]* |
    0x[0-9a-fA-F_]+ | \d[\d_]*(?:_?[iu](?:8|16|32|64|size))? |
    :: | -> | => | == | != | <= | >= | \|\| | && | \.\. |
    [(){}\[\],;:.|&^!\-+*/%<>=\#?$@]
)""", re.X)


def tokenize(s):
    out, pos = [], 0
    s = strip_comments(s).strip()
    while pos < len(s):
        m = TOK.match(s, pos)
        if not m:
            raise ShapeError("cannot tokenize %r" % s[pos:pos + 40])
        out.append(m.group(1))
        pos = m.end()
        while pos < len(s) and s[pos].isspace():
            pos += 1
    return out


OPEN = {"(": ")", "[": "]", "{": "}"}
IDENT = re.compile(r"[A-Za-z_][A-Za-z0-9_]*\Z")
KEYWORDS = {"let", "mut", "if", "else", "match", "for", "in", "return", "fn", "impl", "pub", "struct", "enum", "trait",
            "while", "loop", "as", "where", "type", "use", "const", "static", "ref", "move", "break", "continue", "unsafe",
            "dyn", "mod", "crate", "super", "self", "Self"}


def is_ident(x):
    return x is not None and IDENT.match(x) is not None and x not in KEYWORDS


def match_close(t, i):
    depth = 0
    for j in range(i, len(t)):
        if t[j] in OPEN:
            depth += 1
        elif t[j] in (")", "]", "}"):
            depth -= 1
            if depth == 0:
                return j
    raise ShapeError("unbalanced brackets")


def find_seq(t, seq, start=0):
    n = len(seq)
    for i in range(start, len(t) - n + 1):
        if t[i:i + n] == seq:
            return i
    return -1


def flat(t):
    return " ".join(t)


# ------------------------------------------------------------------------------------------------ pins --
EXPECT_NODE = tokenize("""
macro_rules! expect_node {
    ($ctxt:expr, $name:expr, $as_type:ident) => {{
        let err_msg = std::concat!("missing ", $name);
        let err_msg2 = std::concat!($name, " has invalid interface");
        $ctxt
            .node($name)
            .ok_or_else(|| CameleonError::InvalidGenApiXml(err_msg.into()))?
            .$as_type($ctxt)
            .ok_or_else(|| CameleonError::InvalidGenApiXml(err_msg2.into()))?
    }};
}""")

CHANNEL = tokenize("""
pub fn channel(payload_cap: usize, buffer_cap: usize) -> (PayloadSender, PayloadReceiver) {
    let (device_tx, host_rx) = async_channel::bounded(payload_cap);
    let (host_tx, device_rx) = async_channel::bounded(buffer_cap);
    (
        PayloadSender {
            tx: device_tx,
            rx: device_rx,
        },
        PayloadReceiver {
            tx: host_tx,
            rx: host_rx,
        },
    )
}""")


def check_pins(t, payload_t):
    if find_seq(t, EXPECT_NODE) < 0:
        raise ShapeError("macro_rules! expect_node no longer has the pinned text (node lookup, `?`, interface cast, `?`, "
                         "both failures CameleonError::InvalidGenApiXml)")
    if len([i for i in range(len(t) - 1) if t[i] == "macro_rules" and t[i + 2] == "expect_node"]) != 1:
        raise ShapeError("macro_rules! expect_node defined more than once")
    if find_seq(payload_t, CHANNEL) < 0:
        raise ShapeError("payload::channel no longer has the pinned body (async_channel::bounded(payload_cap), "
                         "async_channel::bounded(buffer_cap))")
    if find_seq(t, tokenize("use tracing::info;")) < 0:
        raise ShapeError("`use tracing::info;` is gone: info! may be another macro")
    # `channel` is payload::channel
    i = find_seq(t, ["payload", "::", "{"])
    if i < 0 or "channel" not in t[i + 3:match_close(t, i + 2)]:
        raise ShapeError("`channel` is not imported from super::payload")
    # the struct: the three fields the methods use
    i = find_seq(t, tokenize("pub struct Camera<Ctrl, Strm, Ctxt = DefaultGenApiCtxt> {"))
    if i < 0:
        raise ShapeError("struct Camera<Ctrl, Strm, Ctxt = DefaultGenApiCtxt>")
    j = match_close(t, i + find_seq(t[i:], ["{"]))
    body = flat(t[i:j])
    for f in ("pub ctrl : Ctrl ,", "pub strm : Strm ,", "pub ctxt : Option < Ctxt > ,"):
        if f not in body:
            raise ShapeError("struct Camera: field `%s`" % f)


# ------------------------------------------------------------------------------------------------ the impl --
def skip_attrs(t, i, allowed):
    while i < len(t) and t[i] == "#":
        if t[i + 1] != "[":
            raise ShapeError("attribute")
        j = match_close(t, i + 1)
        name = []
        k = i + 2
        while k < j and t[k] not in ("(", "="):
            name.append(t[k])
            k += 1
        if "".join(name) not in allowed:
            raise ShapeError("attribute #[%s ..] on a translated method" % "".join(name))
        i = j + 1
    return i


def methods_of(t):
    """the members of `impl<Ctrl, Strm, Ctxt> Camera<Ctrl, Strm, Ctxt> { .. }`: name -> dict"""
    hdr = tokenize("impl<Ctrl, Strm, Ctxt> Camera<Ctrl, Strm, Ctxt> {")
    i = find_seq(t, hdr)
    if i < 0 or find_seq(t, hdr, i + 1) >= 0:
        raise ShapeError("expected exactly one `impl<Ctrl, Strm, Ctxt> Camera<Ctrl, Strm, Ctxt>`")
    end = match_close(t, i + len(hdr) - 1)
    i += len(hdr)
    out = {}
    while i < end:
        a0 = i
        while t[i] == "#":
            i = match_close(t, i + 1) + 1
        attrs = t[a0:i]
        if t[i] == "pub":
            i += 1
            if t[i] == "(":
                i = match_close(t, i) + 1
        if t[i] != "fn":
            raise ShapeError("member %r of impl Camera is not a fn" % flat(t[i:i + 5]))
        name = t[i + 1]
        i += 2
        gen = []
        if t[i] == "<":
            depth, j = 0, i
            while True:
                depth += t[j] == "<"
                depth -= t[j] == ">"
                if depth == 0:
                    break
                j += 1
            gen = t[i + 1:j]
            i = j + 1
        if t[i] != "(":
            raise ShapeError("fn %s: parameter list" % name)
        j = match_close(t, i)
        params = t[i + 1:j]
        i = j + 1
        k = i
        while t[k] != "{":
            if t[k] in ("(", "["):
                k = match_close(t, k)
            k += 1
        sig = t[i:k]
        e = match_close(t, k)
        if name in out:
            raise ShapeError("fn %s defined twice" % name)
        out[name] = dict(name=name, attrs=attrs, generics=gen, params=params, sig=sig, body=t[k + 1:e])
        i = e + 1
    return out


SIGS = {
    "open": ("& mut self", "-> CameleonResult < ( ) >"),
    "close": ("& mut self", "-> CameleonResult < ( ) >"),
    "load_context": ("& mut self", "-> CameleonResult < String >"),
    "start_streaming": ("& mut self , cap : usize", "-> CameleonResult < PayloadReceiver >"),
    "stop_streaming": ("& mut self", "-> CameleonResult < ( ) >"),
    "params_ctxt": ("& mut self", "-> CameleonResult < ParamsCtxt < & mut Ctrl , & mut Ctxt > >"),
}


def check_sig(f):
    p, r = SIGS[f["name"]]
    if flat(f["params"]) != p:
        raise ShapeError("fn %s: parameters `%s`" % (f["name"], flat(f["params"])))
    s = flat(f["sig"])
    if not s.startswith(r + " where") and s != r:
        raise ShapeError("fn %s: result type `%s`" % (f["name"], s))
    if f["generics"]:
        raise ShapeError("fn %s is generic" % f["name"])
    skip_attrs(f["attrs"], 0, {"tracing::instrument", "doc", "must_use", "allow", "inline"})


# ------------------------------------------------------------------------------------------------ bodies --
class Body:
    """statement parser + emitter for one method"""

    def __init__(self, name, t, consts):
        self.name, self.t, self.i = name, t, 0
        self.consts = consts        # name -> value (constants declared in this body)
        self.env = {}               # local name -> kind: 'ctx' (params context), 'xml', 'xmlc' (parsed), 'sender',
        #                             'receiver', 'result' (a pure Ok(..) value: its term), 'param'
        self.lines = []             # emitted lines
        self.fresh = 0
        self.done = False           # a tail expression has been emitted

    def err(self, what):
        raise ShapeError("fn %s: %s near `%s`" % (self.name, what, flat(self.t[max(0, self.i - 4):self.i + 14])))

    def peek(self, k=0):
        return self.t[self.i + k] if self.i + k < len(self.t) else None

    def eat(self, x=None):
        tok = self.peek()
        if tok is None or (x is not None and tok != x):
            self.err("expected %r, found %r" % (x, tok))
        self.i += 1
        return tok

    def eat_seq(self, s):
        for x in s.split():
            self.eat(x)

    def at(self, s):
        xs = s.split()
        return self.t[self.i:self.i + len(xs)] == xs

    def tmp(self, base):
        self.fresh += 1
        return "%s%d_" % (base, self.fresh)

    def local(self, n):
        return "v_" + n

    def bind_local(self, n, kind):
        if not is_ident(n):
            self.err("local name %r" % n)
        self.env[n] = kind
        return self.local(n)

    def use_local(self, n, kinds):
        k = self.env.get(n)
        if k is None or (k if isinstance(k, str) else k[0]) not in kinds:
            self.err("`%s` is not a local of kind %s here" % (n, "/".join(kinds)))
        return self.local(n)

    # ---- conditions ------------------------------------------------------------------------------------
    def cond(self):
        if self.peek() == "!":
            self.eat()
            return "cond_not %s" % paren(self.cond())
        if self.peek() == "(":
            self.eat()
            c = self.cond()
            self.eat(")")
            return c
        if self.at("self . strm . is_loop_running ( )"):
            self.eat_seq("self . strm . is_loop_running ( )")
            return "strm_is_loop_running"
        if self.at("self . ctxt . is_none ( )"):
            self.eat_seq("self . ctxt . is_none ( )")
            return "ctxt_is_none"
        self.err("condition")

    # ---- results ---------------------------------------------------------------------------------------
    def err_value(self):
        """<Path>::<Variant>[.into()] -> the vocabulary name of the error"""
        segs = [self.eat()]
        if not is_ident(segs[0]):
            self.err("error expression")
        while self.peek() == "::":
            self.eat()
            segs.append(self.eat())
        if len(segs) < 2 or self.peek() == "(":
            self.err("error expression (a unit variant `Type::Variant` is expected)")
        name = "err_" + "_".join(segs)
        if self.at(". into ( )"):
            self.eat_seq(". into ( )")
            name += "_into"
        return name

    def result(self):
        """Ok(()) | Ok(x) | Err(e) | x  -> term of type M <result>"""
        if self.at("Ok ( ( ) )"):
            self.eat_seq("Ok ( ( ) )")
            return "ok_unit"
        if self.at("Ok ("):
            self.eat_seq("Ok (")
            n = self.eat()
            self.eat(")")
            k = self.env.get(n)
            if k == "receiver":
                return "ok_receiver %s" % self.local(n)
            if k in ("xml",):
                return "ok_value %s" % self.local(n)
            self.err("Ok(%s): what is returned" % n)
        if self.at("Err ("):
            self.eat_seq("Err (")
            e = self.err_value()
            self.eat(")")
            return "fail %s" % e
        n = self.peek()
        if is_ident(n) and isinstance(self.env.get(n), tuple) and self.env[n][0] == "result":
            self.eat()
            return self.env[n][1]
        self.err("result expression")

    # ---- statements ------------------------------------------------------------------------------------
    def emit(self, line):
        self.lines.append(line)

    def run(self):
        while self.peek() is not None:
            if self.done:
                self.err("statement after the tail expression")
            self.stmt()
        if not self.done:
            self.err("the body has no tail expression")
        return self.lines

    def expect_node_call(self):
        """expect_node ! ( & x , "Name" , as_i ) . m ( & mut x [, lit] ) ?"""
        self.eat_seq("expect_node ! (")
        self.eat("&")
        x = self.eat()
        xl = self.use_local(x, ("ctx",))
        self.eat(",")
        s = self.eat()
        if not (s.startswith('"') and s[1:-1] in NODE_NAMES):
            self.err("node name %s" % s)
        self.eat(",")
        iface = self.eat()
        if iface not in IFACES:
            self.err("interface %s" % iface)
        self.eat(")")
        self.eat(".")
        m = self.eat()
        self.eat("(")
        self.eat_seq("& mut")
        if self.eat() != x:
            self.err("the method is not called with the context the node was looked up in")
        if m == "set_value":
            self.eat(",")
            lit = self.eat()
            if not re.fullmatch(r"\d+", lit):
                self.err("set_value: literal %r" % lit)
            self.eat(")")
            term = "expect_node_set_value %s N_%s %s %s" % (xl, s[1:-1], iface, lit)
        elif m == "execute":
            self.eat(")")
            term = "expect_node_execute %s N_%s %s" % (xl, s[1:-1], iface)
        else:
            self.err("method .%s of a node" % m)
        self.eat("?")
        return term

    def fallible(self):
        """an expression ending in `?`: (term, kind of its value)"""
        if self.at("expect_node !"):
            return self.expect_node_call(), "unit"
        if self.at("self . params_ctxt ( ) ?"):
            self.eat_seq("self . params_ctxt ( ) ?")
            return COQ_NAME["params_ctxt"], "ctx"
        if self.at("self . stop_streaming ( ) ?"):
            self.eat_seq("self . stop_streaming ( ) ?")
            return COQ_NAME["stop_streaming"], "z"
        if self.at("Ctxt :: from_xml ( &"):
            self.eat_seq("Ctxt :: from_xml ( &")
            x = self.use_local(self.eat(), ("xml",))
            self.eat_seq(") ?")
            return "Ctxt_from_xml %s" % x, "xmlc"
        if self.at("self .") and self.peek(2) in ("ctrl", "strm") and self.peek(3) == ".":
            field, m = self.peek(2), self.peek(4)
            self.i += 5
            self.eat("(")
            if (field, m) in UNIT_OPS:
                self.eat(")")
                term, kind = "%s_%s" % (field, m), "unit"
            elif (field, m) == ("ctrl", "genapi"):
                self.eat(")")
                term, kind = "ctrl_genapi x", "xml"
                if self.name != "load_context":
                    self.err("self.ctrl.genapi() outside load_context")
            elif (field, m) == ("strm", "start_streaming_loop"):
                a = self.use_local(self.eat(), ("sender", "receiver"))
                self.eat_seq(", & mut self . ctrl )")
                term, kind = "strm_start_streaming_loop %s" % a, "unit"
            else:
                self.err("self.%s.%s(..) is not a known DeviceControl / PayloadStream operation" % (field, m))
            if self.peek() != "?":
                self.err("the Result of self.%s.%s(..) is not propagated with `?`" % (field, m))
            self.eat("?")
            return term, kind
        return None, None

    def stmt(self):
        p = self.peek()
        # info!(..);
        if p == "info" and self.peek(1) == "!":
            if self.peek(2) != "(":
                self.err("info!")
            j = match_close(self.t, self.i + 2)
            if self.t[j + 1:j + 2] != [";"]:
                self.err("info!(..) without `;`")
            self.i = j + 2
            return
        if p == "const":
            self.eat()
            n = self.eat()
            self.eat_seq(": usize =")
            v = self.eat()
            if not re.fullmatch(r"\d[\d_]*", v) or not re.fullmatch(r"[A-Z][A-Z0-9_]*", n):
                self.err("const")
            self.eat(";")
            self.consts[n] = int(v.replace("_", ""))
            return
        # if <cond> { return <result>; }      /  if let Some(c) = &mut self.ctxt { c.clear_cache() }
        if p == "if" and self.peek(1) == "let":
            return self.if_let()
        if p == "if":
            self.eat()
            c = self.cond()
            self.eat("{")
            self.eat("return")
            r = self.result()
            if self.peek() == ";":
                self.eat()
            self.eat("}")
            if self.peek() == "else":
                self.err("if .. else")
            b = self.tmp("b")
            self.emit("%s <- %s ;;" % (b, c))
            self.emit("if %s then %s else" % (b, r))
            return
        if p == "let":
            return self.let()
        if p == "return":
            self.err("`return` outside a guard")
        # self.ctxt = Some(<fallible>);
        if self.at("self . ctxt = Some ("):
            self.eat_seq("self . ctxt = Some (")
            term, kind = self.fallible()
            if kind != "xmlc":
                self.err("self.ctxt = Some(..): what is assigned")
            self.eat_seq(") ;")
            c = self.tmp("c")
            self.emit("%s <- %s ;;" % (c, term))
            self.emit("assign_ctxt_some %s ;;;" % c)
            return
        # <fallible> ;
        term, kind = self.fallible()
        if term is not None:
            if self.peek() != ";":
                self.err("a `?` expression in tail position")
            self.eat(";")
            self.emit("%s ;;;" % term)
            return
        # tail
        r = self.result()
        if self.peek() is not None:
            self.err("tokens after the tail expression")
        self.emit(r)
        self.done = True

    def let(self):
        self.eat("let")
        if self.peek() == "(":
            # let (a, b) = channel(<param>, <CONST>);
            self.eat("(")
            a = self.eat()
            self.eat(",")
            b = self.eat()
            self.eat_seq(") = channel (")
            cap = self.eat()
            if self.env.get(cap) != "param":
                self.err("channel: first argument")
            self.eat(",")
            cn = self.eat()
            if cn not in self.consts:
                self.err("channel: second argument is not a constant of this function")
            self.eat_seq(") ;")
            p = self.tmp("p")
            al, bl = self.bind_local(a, "sender"), self.bind_local(b, "receiver")
            self.emit("%s <- channel %s src_%s ;;" % (p, self.local(cap), cn))
            self.emit("let '(%s, %s) := %s in" % (al, bl, p))
            return
        if self.peek() == "mut":
            self.eat()
        n = self.eat()
        if n == "_":
            self.err("`let _ =` drops a value")
        if self.peek() == ":":
            self.err("let with a type annotation")
        self.eat("=")
        term, kind = self.fallible()
        if term is not None:
            self.eat(";")
            if kind not in ("ctx", "xml"):
                self.err("let %s = <%s>" % (n, kind))
            self.emit("%s <- %s ;;" % (self.bind_local(n, kind), term))
            return
        # a pure result value
        r = self.result()
        self.eat(";")
        if not is_ident(n):
            self.err("local name")
        self.env[n] = ("result", r)

    def if_let(self):
        self.eat_seq("if let Some (")
        c = self.eat()
        self.eat_seq(") =")
        if self.at("& mut self . ctxt {"):
            self.eat_seq("& mut self . ctxt {")
            cl = self.bind_local(c, "ctx")
            if self.eat() != c:
                self.err("if let body")
            self.eat_seq(". clear_cache ( )")
            if self.peek() == ";":
                self.eat()
            self.eat("}")
            if self.peek() == "else":
                self.err("if let .. else")
            if self.peek() == ";":
                self.eat()
            del self.env[c]
            self.emit("if_let_ctxt (fun %s => ctxt_clear_cache %s) ;;;" % (cl, cl))
            return
        if self.at("self . ctxt . as_mut ( ) {"):
            # params_ctxt: the whole tail
            self.eat_seq("self . ctxt . as_mut ( ) {")
            cl = self.bind_local(c, "ctx")
            self.eat_seq("Ok ( ParamsCtxt {")
            self.eat_seq("ctrl : & mut self . ctrl ,")
            if self.peek() == "ctxt" and self.peek(1) == ":":
                self.eat_seq("ctxt :")
            if self.eat() != c:
                self.err("ParamsCtxt { ctxt }")
            if self.peek() == ",":
                self.eat()
            self.eat_seq("} ) } else {")
            r = self.result()
            self.eat("}")
            if self.peek() is not None:
                self.err("tokens after the tail expression")
            self.emit("if_let_ctxt_else (fun %s => ret (ParamsCtxt_mk %s)) (%s)" % (cl, cl, r))
            self.done = True
            return
        self.err("if let")


def paren(s):
    return s if re.fullmatch(r"[A-Za-z_][A-Za-z0-9_']*", s) else "(" + s + ")"


# ------------------------------------------------------------------------------------------------ driver --
HEADER = """(* GENERATED by tools/translate_camera.py from cameleon/src/camera.rs - do not edit.
   Camera::{params_ctxt, open, load_context, start_streaming, stop_streaming, close}, statement by statement in source
   order, in the monad M of model/Camera.v over the operations of model/CamOps.v.  info!(..) lines and
   #[tracing::instrument] attributes are skipped; macro_rules! expect_node and payload::channel are pinned. *)
From Cam Require Import Outcome CameraProto Camera CamOps.
"""


def translate(repo):
    src = open(os.path.join(repo, "cameleon", "src", "camera.rs")).read()
    pay = open(os.path.join(repo, "cameleon", "src", "payload.rs")).read()
    t, pt = tokenize(src), tokenize(pay)
    check_pins(t, pt)
    ms = methods_of(t)
    defs, consts = [], {}
    out = []
    for name in METHODS:
        if name not in ms:
            raise ShapeError("Camera::%s is gone" % name)
        f = ms[name]
        check_sig(f)
        b = Body(name, f["body"], {})
        if name == "start_streaming":
            b.env["cap"] = "param"
        lines = b.run()
        for cn, cv in b.consts.items():
            if cn in consts:
                raise ShapeError("constant %s declared twice" % cn)
            consts[cn] = cv
            out.append("(* const %s: usize, in Camera::%s *)\nDefinition src_%s : Z := %d.\n" % (cn, name, cn, cv))
        params = {"start_streaming": " (v_cap : Z)", "load_context": " (x : xmlv)"}.get(name, "")
        rty = "ctx" if name == "params_ctxt" else "Z"
        head = "(* Camera::%s *)\nDefinition %s%s : M %s :=" % (name, COQ_NAME[name], params, rty)
        out.append(head + "\n" + "\n".join("  " + ln for ln in lines) + ".\n")
    # nothing else in impl Camera calls the device-facing operations the translated methods order
    for n, f in ms.items():
        if n in METHODS:
            continue
        body = flat(f["body"])
        for w in ("enable_streaming", "disable_streaming", "start_streaming_loop", "stop_streaming_loop", "expect_node",
                  "clear_cache", "self . ctrl . open", "self . ctrl . close", "self . strm . open", "self . strm . close",
                  "genapi ( )"):
            if w in body:
                raise ShapeError("Camera::%s uses `%s`: a method outside the translated six touches the device" % (n, w))
    return HEADER + "\n" + "\n".join(out)


def regenerate(repo=None, out=None):
    repo = repo or os.environ.get("VERIF_REPO", "/repo")
    out = out or OUT
    try:
        text = translate(repo)
    except IndexError:
        raise ShapeError("cameleon/src/camera.rs ends inside a construct the translator was reading")
    old = open(out).read() if os.path.exists(out) else None
    if old != text:
        with open(out, "w") as f:
            f.write(text)
    return text


if __name__ == "__main__":
    try:
        text = regenerate(sys.argv[1] if len(sys.argv) > 1 else None, sys.argv[2] if len(sys.argv) > 2 else None)
    except (ShapeError, IndexError) as e:
        print("ShapeError:", e)
        sys.exit(3)
    print(text)
