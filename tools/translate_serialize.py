#!/usr/bin/env python3
"""tools/translate_serialize.py -- CODE translator for command construction and serialization in
device/src/u3v/protocol/cmd.rs (property C09).  Output: coq/theories/gen/SerializeSrc.v, regenerated on every run.

What is translated (parsed by a small recursive-descent parser for the subset of Rust these functions use, typed, and
emitted as Gallina over lib/RustInt.v - debug-build integer semantics - and model/SerOps.v):

  * the struct definitions ReadMem, WriteMem, ReadMemStacked, WriteMemStacked, CommandCcd, CommandPacket<T> -> Records,
    the enums CommandFlag, ScdKind -> Inductives, the trait CommandScd -> a record of methods (a dictionary), each
    `impl CommandScd for X` -> an instance of it, code generic in `T: CommandScd` -> functions taking the dictionary;
  * the constants PREFIX_MAGIC, ACK_HEADER_LENGTH, MINIMUM_ACK_SCD_LENGTH;
  * constructors: ReadMem::new, WriteMem::new, ReadMemStacked::{new, len, ack_scd_len}, WriteMemStacked::{new, len},
    CommandCcd::{new, from_scd}, CommandPacket::new, CommandScd::finalize, into_scd_len;
  * lengths: CommandCcd::len, CommandPacket::{cmd_len, maximum_ack_len, header_len, request_id} and the
    flag / scd_kind / scd_len / ack_scd_len of the four commands;
  * serializers: CommandPacket::serialize, CommandCcd::serialize, CommandFlag::serialize, ScdKind::serialize and the
    `serialize` of the four commands.  A serializer (a function with a `buf: impl Write` parameter returning
    Result<()>) becomes the LIST OF WRITE OPERATIONS it performs, in order:
        buf.write_bytes_le(E)?;      ->  W_le <size of the type of E> E
        buf.write_all(E)?;           ->  W_all E
        X.serialize(&mut buf)?;      ->  the operations of that serializer
        for v in &LIST { ... }       ->  flat_map (fun v => ...) LIST
    model/SerOps.v gives the operations their meaning on the two sinks of model/Cmd.v (`?` after write_all leaves the
    function with the error, `?` after write_bytes_le never fires on a Vec or a slice and the count is dropped - the
    shape of impl/src/bytes_io.rs that makes this so is asserted below).

Everything else in the file is skipped, but checked for DISCIPLINE: outside the translated constructors no function of
cmd.rs builds a WriteMem / ReadMemStacked / WriteMemStacked / CommandCcd / CommandPacket with a struct literal,
assigns one of their fields, mutates `entries`, or takes `&mut self` on these types; no other file of device/src
mentions `.entries`.  So every command value comes out of the translated constructors.

Anything outside the accepted shapes raises ShapeError (exit 3): the check reports the proof obligation as broken
instead of translating something else."""
import os
import re
import sys

VERIF = os.path.dirname(os.path.dirname(os.path.abspath(__file__)))
OUT = os.path.join(VERIF, "coq", "theories", "gen", "SerializeSrc.v")
BITS = {"u8": 8, "u16": 16, "u32": 32, "u64": 64, "usize": 64}
COQ_RESERVED = {"as", "at", "cofix", "else", "end", "exists", "exists2", "fix", "for", "forall", "fun", "if", "IF", "in",
                "let", "match", "mod", "Prop", "return", "Set", "then", "Type", "using", "where", "with", "by", "Z",
                "list", "nat", "bool", "Ok", "Err", "Panic", "bind", "zlen", "D", "T", "fst", "snd", "map", "app",
                "flat_map", "fold_left", "tt", "wop", "outcome", "unit", "rev", "length", "le_bytes", "sink"}
ERRORS = {"Error::InvalidPacket": "E_INVALID_PACKET"}

# functions that are translated: (owner, trait, name)
WANT = [
    ("CommandPacket", None, "serialize"), ("CommandPacket", None, "cmd_len"), ("CommandPacket", None, "request_id"),
    ("CommandPacket", None, "maximum_ack_len"), ("CommandPacket", None, "new"), ("CommandPacket", None, "header_len"),
    ("ReadMem", None, "new"), ("WriteMem", None, "new"),
    ("ReadMemStacked", None, "new"), ("ReadMemStacked", None, "len"), ("ReadMemStacked", None, "ack_scd_len"),
    ("WriteMemStacked", None, "new"), ("WriteMemStacked", None, "len"),
    ("CommandCcd", None, "new"), ("CommandCcd", None, "from_scd"), ("CommandCcd", None, "serialize"),
    ("CommandCcd", None, "len"),
    ("CommandFlag", None, "serialize"), ("ScdKind", None, "serialize"),
    (None, None, "into_scd_len"),
]
COMMANDS = ["ReadMem", "WriteMem", "ReadMemStacked", "WriteMemStacked"]
TRAIT = "CommandScd"
STRUCTS = ["ReadMem", "WriteMem", "ReadMemStacked", "WriteMemStacked", "CommandCcd", "CommandPacket"]
ENUMS = ["CommandFlag", "ScdKind"]
GUARDED = ["WriteMem", "ReadMemStacked", "WriteMemStacked", "CommandCcd", "CommandPacket"]
CONSTRUCTORS = {(s, None, "new") for s in GUARDED}


class ShapeError(Exception):
    pass


def strip_comments(s):
    s = re.sub(r"/\*.*?\*/", "", s, flags=re.S)
    return re.sub(r"//[^\n]*", "", s)


# ------------------------------------------------------------------------------------------------- tokens --
TOK = re.compile(r"""
    (?P<ws>\s+) |
    (?P<str>"(?:[^"\\]|\\.)*") |
    (?P<life>'[A-Za-z_][A-Za-z0-9_]*(?!')) |
    (?P<num>0x[0-9A-Fa-f_]+(?:[iu](?:8|16|32|64|size))?|\d[\d_]*(?:[iu](?:8|16|32|64|size))?) |
    (?P<id>[A-Za-z_][A-Za-z0-9_]*) |
    (?P<op>->|=>|==|!=|<=|>=|<<=|>>=|<<|>>|&&|\|\||\.\.=|\.\.|::|\+=|-=|\*=|/=|%=|\|=|&=|\^=|[(){}\[\]<>,;:.&|!+\-*/=?\#%^@])
""", re.X)


def tokenize(s):
    out, pos = [], 0
    while pos < len(s):
        m = TOK.match(s, pos)
        if not m:
            raise ShapeError("cannot tokenize %r" % s[pos:pos + 40])
        pos = m.end()
        if m.lastgroup != "ws":
            out.append((m.lastgroup, m.group(0)))
    return out


class Toks:
    def __init__(self, toks, i=0, end=None):
        self.t, self.i, self.end = toks, i, len(toks) if end is None else end

    def eof(self):
        return self.i >= self.end

    def peek(self, k=0):
        return self.t[self.i + k][1] if self.i + k < self.end else None

    def kind(self, k=0):
        return self.t[self.i + k][0] if self.i + k < self.end else None

    def eat(self, x=None):
        tok = self.peek()
        if tok is None or (x is not None and tok != x):
            raise ShapeError("expected %r, found %r near `%s`" % (x, tok, self.near()))
        self.i += 1
        return tok

    def near(self):
        return " ".join(t[1] for t in self.t[max(0, self.i - 8):min(self.end, self.i + 8)])

    def skip_balanced(self):
        """at an opening bracket: skip to after its partner; returns (start, end) indices of the inside"""
        op = self.eat()
        cl = {"(": ")", "[": "]", "{": "}"}[op]
        depth, start = 1, self.i
        while depth:
            tok = self.eat()
            if tok == op:
                depth += 1
            elif tok == cl:
                depth -= 1
        return start, self.i - 1

    def skip_angles(self):
        """at `<`: skip the generic argument list; returns its tokens"""
        self.eat("<")
        depth, out = 1, []
        while depth:
            tok = self.eat()
            if tok == "<":
                depth += 1
            elif tok == ">":
                depth -= 1
            elif tok == ">>":
                depth -= 2
                if depth < 0:
                    raise ShapeError("unbalanced `>>` near `%s`" % self.near())
            elif tok == "<<":
                depth += 2
            if depth:
                out.append(tok)
        return out


# --------------------------------------------------------------------------------------------------- items --
class Fn:
    def __init__(self, owner, trait, name):
        self.owner, self.trait, self.name = owner, trait, name
        self.generics, self.params, self.ret, self.body = [], [], None, None
        self.impl_generic = False
        self.in_trait_decl = False

    @property
    def key(self):
        return (self.owner, self.trait, self.name)

    def label(self):
        o = self.owner or ""
        if self.trait and self.owner:
            return "<%s as %s>::%s" % (self.owner, self.trait, self.name)
        if self.in_trait_decl:
            return "%s::%s" % (self.trait, self.name)
        return (o + "::" if o else "") + self.name


class Source:
    """the items of cmd.rs"""

    def __init__(self, text):
        self.toks = tokenize(text)
        self.structs, self.enums, self.consts, self.fns = {}, {}, {}, {}
        self.trait_methods = {}     # trait -> [Fn] in declaration order
        self.impls = []             # (owner, trait, generic)
        self.all_fns = []
        self.parse_items(Toks(self.toks), None, None, False, False)

    def skip_attrs_vis(self, t):
        while True:
            if t.peek() == "#":
                t.eat("#")
                if t.peek() == "!":
                    t.eat("!")
                if t.peek() != "[":
                    raise ShapeError("attribute near `%s`" % t.near())
                t.skip_balanced()
            elif t.peek() == "pub":
                t.eat("pub")
                if t.peek() == "(":
                    t.skip_balanced()
            else:
                return

    def parse_items(self, t, owner, trait, generic, in_trait_decl):
        while not t.eof():
            self.skip_attrs_vis(t)
            if t.eof():
                break
            kw = t.peek()
            if kw == "use" and owner is None and not in_trait_decl:
                while t.eat() != ";":
                    pass
            elif kw == "struct" and owner is None:
                self.parse_struct(t)
            elif kw == "enum" and owner is None:
                self.parse_enum(t)
            elif kw == "impl" and owner is None:
                self.parse_impl(t)
            elif kw == "trait" and owner is None:
                self.parse_trait(t)
            elif kw == "type" and owner is not None:
                while t.eat() != ";":
                    pass
            elif kw == "const" and t.peek(1) != "fn":
                t.eat("const")
                name = t.eat()
                t.eat(":")
                ty = []
                while t.peek() != "=":
                    ty.append(t.eat())
                t.eat("=")
                s = t.i
                while t.peek() != ";":
                    t.eat()
                self.consts[(owner, name)] = (ty, (s, t.i))
                t.eat(";")
            elif kw in ("fn", "const"):
                if kw == "const":
                    t.eat("const")
                self.parse_fn(t, owner, trait, generic, in_trait_decl)
            else:
                raise ShapeError("item the translator does not know: `%s`" % t.near())

    def parse_struct(self, t):
        t.eat("struct")
        name = t.eat()
        gen = t.skip_angles() if t.peek() == "<" else []
        if t.peek() != "{":
            raise ShapeError("struct %s is not a struct with named fields" % name)
        s, e = t.skip_balanced()
        ft = Toks(self.toks, s, e)
        fields = []
        while not ft.eof():
            self.skip_attrs_vis(ft)
            if ft.eof():
                break
            fname = ft.eat()
            ft.eat(":")
            ty = []
            depth = 0
            while not ft.eof() and not (ft.peek() == "," and depth == 0):
                tok = ft.eat()
                depth += {"<": 1, ">": -1, ">>": -2, "(": 1, ")": -1, "[": 1, "]": -1}.get(tok, 0)
                ty.append(tok)
            if not ft.eof():
                ft.eat(",")
            fields.append((fname, ty))
        if name in self.structs:
            raise ShapeError("struct %s defined twice" % name)
        self.structs[name] = (gen, fields)

    def parse_enum(self, t):
        t.eat("enum")
        name = t.eat()
        if t.peek() != "{":
            raise ShapeError("enum %s has generics" % name)
        s, e = t.skip_balanced()
        et = Toks(self.toks, s, e)
        vs = []
        while not et.eof():
            self.skip_attrs_vis(et)
            if et.eof():
                break
            v = et.eat()
            if not et.eof():
                if et.peek() != ",":
                    vs = None            # not a plain enum: only an error if it is one we need
                    break
                et.eat(",")
            vs.append(v)
        self.enums[name] = vs

    def parse_impl(self, t):
        t.eat("impl")
        gen = t.skip_angles() if t.peek() == "<" else []
        head = []
        while t.peek() not in ("{", "where"):
            if t.peek() == "<":
                head.append(("<", t.skip_angles()))
            else:
                head.append(t.eat())
        where = []
        if t.peek() == "where":
            t.eat("where")
            while t.peek() != "{":
                where.append(t.eat())
        trait = None
        names = [h for h in head if not isinstance(h, tuple)]
        if "for" in names:
            k = names.index("for")
            trait = "::".join(x for x in names[:k] if x != "::")
            names = names[k + 1:]
        owner = names[-1] if names else None
        if owner is None:
            raise ShapeError("impl header near `%s`" % t.near())
        gparams = [g for g in gen if g != "," and not g.startswith("'")]
        generic = False
        if gparams:
            w = [x for x in where if x != ","]
            if gparams == ["T"] and w == ["T", ":", TRAIT]:
                generic = True
            elif gparams == ["T", ":", TRAIT] and not w:
                generic = True
            else:
                generic = "unsupported"
        s, e = t.skip_balanced()
        self.impls.append((owner, trait, generic))
        self.parse_items(Toks(self.toks, s, e), owner, trait, generic, False)

    def parse_trait(self, t):
        t.eat("trait")
        name = t.eat()
        while t.peek() != "{":
            t.eat()
        s, e = t.skip_balanced()
        self.trait_methods[name] = []
        self.parse_items(Toks(self.toks, s, e), None, name, False, True)

    def parse_fn(self, t, owner, trait, generic, in_trait_decl):
        t.eat("fn")
        f = Fn(owner, trait, t.eat())
        f.impl_generic, f.in_trait_decl = generic, in_trait_decl
        if t.peek() == "<":
            f.generics = t.skip_angles()
        if t.peek() != "(":
            raise ShapeError("fn %s: parameter list" % f.name)
        s, e = t.skip_balanced()
        pt = Toks(self.toks, s, e)
        cur, depth = [], 0
        while not pt.eof():
            tok = pt.eat()
            if tok == "," and depth == 0:
                f.params.append(cur)
                cur = []
                continue
            depth += {"<": 1, ">": -1, ">>": -2, "(": 1, ")": -1, "[": 1, "]": -1}.get(tok, 0)
            cur.append(tok)
        if cur:
            f.params.append(cur)
        if t.peek() == "->":
            t.eat("->")
            f.ret = []
            depth = 0
            while not (depth == 0 and t.peek() in ("{", ";", "where")):
                tok = t.eat()
                depth += {"<": 1, ">": -1, ">>": -2, "(": 1, ")": -1, "[": 1, "]": -1}.get(tok, 0)
                f.ret.append(tok)
        if t.peek() == "where":
            raise ShapeError("fn %s has a where clause" % f.label())
        if t.peek() == ";":
            t.eat(";")
        else:
            f.body = t.skip_balanced()
        self.all_fns.append(f)
        if in_trait_decl:
            self.trait_methods[trait].append(f)
        else:
            if f.key in self.fns:
                raise ShapeError("function %s defined twice" % f.label())
            self.fns[f.key] = f


# ----------------------------------------------------------------------------------------------- discipline --
MUTATORS_OK = {"iter", "len", "is_empty"}


def discipline(src, repo):
    fields = set()
    for s in GUARDED:
        if s not in src.structs:
            raise ShapeError("struct %s not found" % s)
        fields |= {f for f, _ in src.structs[s][1]}
    fields -= {"address"}           # changing an address breaks no invariant of a command
    assign_ops = {"=", "+=", "-=", "*=", "/=", "%=", "|=", "&=", "^=", "<<=", ">>="}
    for f in src.all_fns:
        if f.owner in GUARDED and any(p[:3] == ["&", "mut", "self"] or p[:2] == ["mut", "self"] or
                                      (len(p) > 3 and p[0] == "&" and p[1].startswith("'") and p[2:4] == ["mut", "self"])
                                      for p in f.params):
            raise ShapeError("%s takes a mutable receiver of a command type" % f.label())
        if f.body is None or f.key in CONSTRUCTORS:
            continue
        s, e = f.body
        toks = [x[1] for x in src.toks[s:e]]
        for i, tok in enumerate(toks):
            nxt = toks[i + 1] if i + 1 < len(toks) else None
            if nxt == "{" and (tok in GUARDED or (tok == "Self" and f.owner in GUARDED)):
                raise ShapeError("%s builds a %s with a struct literal outside the translated constructors"
                                 % (f.label(), tok if tok != "Self" else f.owner))
            if tok == "." and nxt in fields:
                after = toks[i + 2] if i + 2 < len(toks) else None
                if after in assign_ops:
                    raise ShapeError("%s assigns the field `%s` of a command" % (f.label(), nxt))
                if nxt == "entries" and after == "." and i + 3 < len(toks) and toks[i + 3] not in MUTATORS_OK:
                    raise ShapeError("%s calls `.entries.%s`" % (f.label(), toks[i + 3]))
                # &mut PATH.field
                j = i - 1
                while j >= 1 and (toks[j - 1] == "." or toks[j] == "."):
                    j -= 1
                if j >= 2 and toks[j - 2:j] == ["&", "mut"]:
                    raise ShapeError("%s borrows the field `%s` of a command mutably" % (f.label(), nxt))
    base = os.path.join(repo, "device", "src")
    for root, _, files in os.walk(base):
        for fn in files:
            p = os.path.join(root, fn)
            if not fn.endswith(".rs") or p.endswith(os.path.join("protocol", "cmd.rs")):
                continue
            if re.search(r"\.\s*entries\b(?!\s*\()", strip_comments(open(p).read())):
                raise ShapeError("%s touches `.entries`" % os.path.relpath(p, repo))


def bytes_io_pin(repo):
    """the two facts about impl/src/bytes_io.rs that W_le relies on: WriteBytes::write_bytes_le forwards to
    BytesConvertible::write_bytes_le, which is ONE `write` call of `to_le_bytes()` whose count is the result"""
    p = os.path.join(repo, "impl", "src", "bytes_io.rs")
    s = re.sub(r"\s+", "", strip_comments(open(p).read()))
    a = "fnwrite_bytes_le<T>(&mutself,value:T)->io::Result<usize>whereT:BytesConvertible,{value.write_bytes_le(self)}"
    b = "fnwrite_bytes_le<W>(self,buf:&mutW)->io::Result<usize>whereW:io::Write,{lettmp=self.to_le_bytes();buf.write(&tmp)}"
    if a not in s or b not in s:
        raise ShapeError("impl/src/bytes_io.rs: write_bytes_le is no longer one `write` of to_le_bytes()")
    m = re.search(r"impl_bytes_convertible!\{([a-z0-9,]*)\}", s)
    if not m or not {"u8", "u16", "u32", "u64"} <= set(m.group(1).split(",")):
        raise ShapeError("impl/src/bytes_io.rs: BytesConvertible is not implemented for u8/u16/u32/u64 by the macro")


# ------------------------------------------------------------------------------------------ expression AST --
class Parser:
    """expressions and statements of the translated function bodies"""

    def __init__(self, toks, s, e, struct_names):
        self.t = Toks(toks, s, e)
        self.struct_names = struct_names

    def block_body(self):
        """statements up to the end of the token range / closing brace -> list of statements"""
        t, out = self.t, []
        while not t.eof() and t.peek() != "}":
            if t.peek() == "let":
                t.eat("let")
                mut = False
                if t.peek() == "mut":
                    t.eat("mut")
                    mut = True
                name = t.eat()
                if t.kind(-1) != "id":
                    raise ShapeError("let pattern `%s`" % name)
                ty = None
                if t.peek() == ":":
                    t.eat(":")
                    ty = []
                    while t.peek() != "=":
                        ty.append(t.eat())
                t.eat("=")
                e = self.expr()
                t.eat(";")
                out.append(("let", name, mut, ty, e))
                continue
            if t.peek() == "for":
                t.eat("for")
                v = t.eat()
                if t.kind(-1) != "id":
                    raise ShapeError("for pattern `%s`" % v)
                t.eat("in")
                it = self.expr(nostruct=True)
                t.eat("{")
                body = self.block_body()
                t.eat("}")
                out.append(("for", v, it, body))
                continue
            if t.peek() in ("return", "while", "loop", "if", "break", "continue"):
                raise ShapeError("statement `%s` near `%s`" % (t.peek(), t.near()))
            e = self.expr()
            if t.peek() in ("=", "+=", "-=", "*="):
                op = t.eat()
                r = self.expr()
                t.eat(";")
                if e[0] != "path" or len(e[1]) != 1:
                    raise ShapeError("assignment to something other than a local near `%s`" % t.near())
                if op != "=":
                    r = ("bin", op[0], e, r)
                out.append(("assign", e[1][0], r))
                continue
            if t.peek() == ";":
                t.eat(";")
                out.append(("expr", e))
                continue
            if t.eof() or t.peek() == "}":
                out.append(("tail", e))
                break
            raise ShapeError("statement near `%s`" % t.near())
        return out

    LEVELS = [["||"], ["&&"], ["==", "!=", "<", ">", "<=", ">="], ["|"], ["^"], ["&"], ["<<", ">>"], ["+", "-"],
              ["*", "/", "%"]]

    def expr(self, lvl=0, nostruct=False):
        if lvl == len(self.LEVELS):
            return self.cast(nostruct)
        e = self.expr(lvl + 1, nostruct)
        while self.t.peek() in self.LEVELS[lvl]:
            op = self.t.eat()
            r = self.expr(lvl + 1, nostruct)
            e = ("bin", op, e, r)
            if lvl == 2:
                break
        return e

    def cast(self, nostruct):
        e = self.unary(nostruct)
        while self.t.peek() == "as":
            self.t.eat("as")
            ty = self.t.eat()
            if ty not in BITS:
                raise ShapeError("cast to `%s`" % ty)
            e = ("as", e, ty)
        return e

    def unary(self, nostruct):
        t = self.t
        if t.peek() == "&":
            t.eat("&")
            if t.peek() == "mut":
                t.eat("mut")
                return ("refmut", self.unary(nostruct))
            return ("ref", self.unary(nostruct))
        if t.peek() in ("-", "!", "*"):
            raise ShapeError("unary `%s` near `%s`" % (t.peek(), t.near()))
        return self.postfix(nostruct)

    def args(self):
        t = self.t
        t.eat("(")
        out = []
        while t.peek() != ")":
            out.append(self.expr())
            if t.peek() == ",":
                t.eat(",")
            elif t.peek() != ")":
                raise ShapeError("argument list near `%s`" % t.near())
        t.eat(")")
        return out

    def postfix(self, nostruct):
        t = self.t
        e = self.atom(nostruct)
        while True:
            if t.peek() == ".":
                t.eat(".")
                name = t.eat()
                if t.kind(-1) != "id":
                    raise ShapeError("field `%s`" % name)
                if t.peek() == "::":
                    raise ShapeError("turbofish on a method near `%s`" % t.near())
                if t.peek() == "(":
                    e = ("mcall", e, name, self.args())
                else:
                    e = ("field", e, name)
            elif t.peek() == "?":
                t.eat("?")
                e = ("try", e)
            elif t.peek() in ("(", "["):
                raise ShapeError("call / index of an expression near `%s`" % t.near())
            else:
                return e

    def atom(self, nostruct):
        t = self.t
        kind, tok = t.kind(), t.eat()
        if tok == "(":
            if t.peek() == ")":
                t.eat(")")
                return ("unit",)
            e = self.expr()
            t.eat(")")
            return ("paren", e)
        if kind == "num":
            m = re.fullmatch(r"(0x[0-9A-Fa-f_]+?|\d[\d_]*?)_?([iu](?:8|16|32|64|size))?", tok)
            v = int(m.group(1).replace("_", ""), 0)
            return ("lit", v, m.group(2))
        if kind == "str":
            return ("str", tok)
        if tok in ("||", "|"):
            params = []
            if tok == "|":
                while t.peek() != "|":
                    params.append(t.eat())
                    if t.peek() == ",":
                        t.eat(",")
                t.eat("|")
            if t.peek() == "{":
                t.eat("{")
                body = self.expr()
                if t.peek() != "}":
                    raise ShapeError("closure with a block of statements near `%s`" % t.near())
                t.eat("}")
                return ("closure", params, body)
            return ("closure", params, self.expr())
        if tok == "match":
            s = self.expr(nostruct=True)
            t.eat("{")
            arms = []
            while t.peek() != "}":
                p = self.path()
                if t.peek() in ("|", "if", "(", "{"):
                    raise ShapeError("match pattern near `%s`" % t.near())
                t.eat("=>")
                b = self.expr()
                if t.peek() == ",":
                    t.eat(",")
                elif t.peek() != "}":
                    raise ShapeError("match arm near `%s`" % t.near())
                arms.append((p, b))
            t.eat("}")
            return ("match", s, arms)
        if kind == "id":
            if tok in ("if", "loop", "while", "unsafe", "move", "return", "break", "mut", "let", "for"):
                raise ShapeError("`%s` in expression position near `%s`" % (tok, t.near()))
            t.i -= 1
            p = self.path()
            if t.peek() == "(":
                return ("call", p, self.args())
            if t.peek() == "!":
                raise ShapeError("macro call %s! near `%s`" % ("::".join(p), t.near()))
            if t.peek() == "{" and not nostruct and (p == ["Self"] or (len(p) == 1 and p[0] in self.struct_names)):
                t.eat("{")
                fs = []
                while t.peek() != "}":
                    if t.peek() == "..":
                        raise ShapeError("struct update syntax near `%s`" % t.near())
                    fname = t.eat()
                    if t.peek() == ":":
                        t.eat(":")
                        fs.append((fname, self.expr()))
                    else:
                        fs.append((fname, ("path", [fname])))
                    if t.peek() == ",":
                        t.eat(",")
                    elif t.peek() != "}":
                        raise ShapeError("struct literal near `%s`" % t.near())
                t.eat("}")
                return ("struct", p[0], fs)
            return ("path", p)
        raise ShapeError("unexpected `%s` near `%s`" % (tok, t.near()))

    def path(self):
        t = self.t
        if t.kind() != "id":
            raise ShapeError("path expected near `%s`" % t.near())
        p = [t.eat()]
        while t.peek() == "::":
            t.eat("::")
            if t.peek() == "<":
                raise ShapeError("turbofish near `%s`" % t.near())
            if t.kind() != "id":
                raise ShapeError("path near `%s`" % t.near())
            p.append(t.eat())
        return p


# ---------------------------------------------------------------------------------------------------- types --
INT = lambda n: ("int", n)
LIT, BOOL, UNIT, TVAR, SINK = ("lit",), ("bool",), ("unit",), ("tvar",), ("sink",)


def parse_type(toks, self_ty, generic):
    """token list of a type -> type; references and lifetimes are erased"""
    t = [x for x in toks]
    while t and (t[0] in ("&", "mut") or t[0].startswith("'")):
        t = t[1:]
    if not t:
        raise ShapeError("empty type")
    if t == ["(", ")"]:
        return UNIT
    if t[0] == "[" and t[-1] == "]":
        return ("list", parse_type(t[1:-1], self_ty, generic))
    if t == ["impl", "Write"]:
        return SINK
    if t == ["impl", TRAIT]:
        return TVAR
    head = t[0]
    args = []
    if len(t) > 1:
        if t[1] != "<" or t[-1] not in (">", ">>"):
            raise ShapeError("type `%s`" % " ".join(toks))
        inner = t[2:-1] + ([">"] if t[-1] == ">>" else [])
        args = [x for x in [inner] if [y for y in x if not y.startswith("'")]]
    arg = None
    if args:
        a = [y for y in args[0] if not y.startswith("'")]
        if "," in a:
            raise ShapeError("type `%s`" % " ".join(toks))
        arg = parse_type(a, self_ty, generic)
    if head in BITS and arg is None:
        return INT(head)
    if head == "bool" and arg is None:
        return BOOL
    if head == "Self" and arg is None:
        if self_ty is None:
            raise ShapeError("`Self` outside an impl")
        return self_ty
    if head == "T" and arg is None and generic:
        return TVAR
    if head == "Vec" and arg is not None:
        return ("list", arg)
    if head == "Result" and arg is not None:
        return ("result", arg)
    if head in STRUCTS:
        if head == "CommandPacket":
            if arg is None:
                raise ShapeError("CommandPacket without its parameter")
            return ("struct", head, arg)
        if arg is not None:
            raise ShapeError("type `%s`" % " ".join(toks))
        return ("struct", head, None)
    if head in ENUMS and arg is None:
        return ("enum", head)
    raise ShapeError("type `%s`" % " ".join(toks))


def subst(ty, actual):
    """replace the type variable by `actual`"""
    if ty == TVAR:
        return actual
    if ty[0] == "struct" and ty[2] is not None:
        return ("struct", ty[1], subst(ty[2], actual))
    if ty[0] in ("list", "result", "option"):
        return (ty[0], subst(ty[1], actual))
    return ty


def has_tvar(ty):
    return ty == TVAR or (ty[0] == "struct" and ty[2] is not None and has_tvar(ty[2])) or \
        (ty[0] in ("list", "result", "option") and has_tvar(ty[1]))


def coq_type(ty):
    k = ty[0]
    if k == "int":
        return "Z"
    if k == "bool":
        return "bool"
    if k == "unit":
        return "unit"
    if k == "tvar":
        return "T"
    if k == "enum":
        return "src_" + ty[1]
    if k == "struct":
        return "src_" + ty[1] if ty[2] is None else "(src_%s %s)" % (ty[1], coq_type(ty[2]))
    if k == "list":
        return "(list %s)" % coq_type(ty[1])
    if k == "result":
        return "(outcome %s)" % coq_type(ty[1])
    raise ShapeError("no Gallina type for %r" % (ty,))


def show(ty):
    k = ty[0]
    if k == "int":
        return ty[1]
    if k == "struct":
        return ty[1] + ("<%s>" % show(ty[2]) if ty[2] else "")
    if k in ("list", "result", "option"):
        return "%s<%s>" % (k, show(ty[1]))
    if k == "enum":
        return ty[1]
    return k


class Val:
    def __init__(self, binds, term, ty, lit=None):
        self.binds, self.term, self.ty, self.lit = binds, term, ty, lit


def cname(n):
    if re.fullmatch(r"t\d+_", n):
        raise ShapeError("identifier `%s` collides with the translator's temporaries" % n)
    if n in COQ_RESERVED or n.startswith("src_") or n.startswith("r_") or not re.fullmatch(r"[a-z_][a-z0-9_]*", n) \
            or n == "_":
        return n + "_v"
    return n


# ------------------------------------------------------------------------------------------------- compiler --
class Sig:
    def __init__(self, coq, params, ret, fallible, partial, is_ops, generic, has_self):
        self.coq, self.params, self.ret = coq, params, ret
        self.fallible, self.partial, self.is_ops, self.generic, self.has_self = fallible, partial, is_ops, generic, has_self


class Compiler:
    def __init__(self, src):
        self.src = src
        self.out = []               # emitted definitions, in dependency order
        self.names = []             # names for the unfold hint database
        self.sigs = {}
        self.in_progress = set()
        self.instances = {}
        self.struct_ty = {}
        self.n = 0
        for s in STRUCTS:
            if s not in src.structs:
                raise ShapeError("struct %s not found" % s)
        for e in ENUMS:
            if not src.enums.get(e):
                raise ShapeError("enum %s not found or not a plain enum" % e)
        if TRAIT not in src.trait_methods:
            raise ShapeError("trait %s not found" % TRAIT)
        self.fields = {}
        for s in STRUCTS:
            gen, fs = src.structs[s]
            g = [x for x in gen if x != "," and not x.startswith("'")]
            if (s == "CommandPacket") != (g == ["T"]) or (s != "CommandPacket" and g):
                raise ShapeError("generic parameters of struct %s: %r" % (s, gen))
            self.fields[s] = [(f, parse_type(ty, None, s == "CommandPacket")) for f, ty in fs]
            seen = set()
            for f, _ in self.fields[s]:
                if f in seen:
                    raise ShapeError("field %s.%s twice" % (s, f))
                seen.add(f)
        self.required = [f for f in src.trait_methods[TRAIT] if f.body is None]
        self.defaults = {f.name: f for f in src.trait_methods[TRAIT] if f.body is not None}
        for owner, trait, generic in src.impls:
            if trait == TRAIT:
                for name in self.defaults:
                    if (owner, TRAIT, name) in src.fns:
                        raise ShapeError("impl %s for %s overrides the provided method %s" % (TRAIT, owner, name))
                for f in self.required:
                    if (owner, TRAIT, f.name) not in src.fns:
                        raise ShapeError("impl %s for %s lacks %s" % (TRAIT, owner, f.name))
                extra = [k[2] for k in src.fns if k[0] == owner and k[1] == TRAIT
                         and k[2] not in [f.name for f in self.required]]
                if extra:
                    raise ShapeError("impl %s for %s has unknown methods %r" % (TRAIT, owner, extra))
        have = sorted(o for o, tr, _ in src.impls if tr == TRAIT)
        if have != sorted(COMMANDS):
            raise ShapeError("%s is implemented for %r, the translator expects exactly %r" % (TRAIT, have, sorted(COMMANDS)))

    def fresh(self):
        self.n += 1
        return "t%d_" % self.n

    # ---- function signatures -------------------------------------------------------------------------------
    def self_type(self, f):
        if f.in_trait_decl:
            return TVAR
        if f.owner is None:
            return None
        if f.owner in ENUMS:
            return ("enum", f.owner)
        if f.owner in STRUCTS:
            return ("struct", f.owner, TVAR if f.owner == "CommandPacket" else None)
        raise ShapeError("impl of a type the translator does not know: %s" % f.owner)

    def coq_name(self, f):
        if f.in_trait_decl:
            return "src_%s_%s" % (f.trait, f.name)
        if f.owner is None:
            return "src_fn_%s" % f.name
        if f.trait:
            return "src_%s_as_%s_%s" % (f.owner, f.trait, f.name)
        return "src_%s_%s" % (f.owner, f.name)

    def header(self, f):
        """-> (params [(name, type, is_sink)], ret type, fallible, is_ops, generic, has_self)"""
        if f.impl_generic == "unsupported":
            raise ShapeError("generic parameters of the impl of %s" % f.label())
        if [g for g in f.generics if not g.startswith("'") and g != ","]:
            raise ShapeError("%s has generic parameters" % f.label())
        sty = self.self_type(f)
        generic = bool(f.impl_generic) or f.in_trait_decl
        params, has_self = [], False
        for i, p in enumerate(f.params):
            q = [x for x in p if not x.startswith("'")]
            if q in (["self"], ["&", "self"]):
                if i != 0 or sty is None:
                    raise ShapeError("receiver of %s" % f.label())
                params.append(("self", sty, False))
                has_self = True
                continue
            if "self" in q:
                raise ShapeError("receiver `%s` of %s" % (" ".join(p), f.label()))
            if q[0] == "mut":
                q = q[1:]
                if q[2:] != ["impl", "Write"]:
                    raise ShapeError("%s: mutable parameter `%s`" % (f.label(), " ".join(p)))
            if len(q) < 3 or q[1] != ":":
                raise ShapeError("%s: parameter `%s`" % (f.label(), " ".join(p)))
            ty = parse_type(q[2:], sty, generic)
            if ty == TVAR and q[2:] in (["impl", TRAIT], ["&", "impl", TRAIT]):
                generic = True
            elif has_tvar(ty) and not generic:
                raise ShapeError("%s: parameter `%s`" % (f.label(), " ".join(p)))
            params.append((q[0], ty, ty == SINK))
        if f.ret is None:
            raise ShapeError("%s returns nothing" % f.label())
        ret = parse_type(f.ret, sty, generic)
        sinks = [p for p in params if p[2]]
        is_ops = bool(sinks)
        if is_ops and (len(sinks) != 1 or ret != ("result", UNIT)):
            raise ShapeError("%s: a serializer takes one `impl Write` and returns Result<()>" % f.label())
        fallible = ret[0] == "result"
        return params, (ret[1] if fallible else ret), fallible, is_ops, generic, has_self

    def sig(self, key):
        """compile on demand"""
        if key in self.sigs:
            return self.sigs[key]
        if key in self.in_progress:
            raise ShapeError("recursion through %r" % (key,))
        f = self.src.fns.get(key)
        if f is None:
            raise ShapeError("function %r not found" % (key,))
        self.in_progress.add(key)
        s = self.compile_fn(f)
        self.in_progress.discard(key)
        self.sigs[key] = s
        return s

    def default_sig(self, name):
        key = ("trait", TRAIT, name)
        if key in self.sigs:
            return self.sigs[key]
        if key in self.in_progress:
            raise ShapeError("recursion through %s::%s" % (TRAIT, name))
        self.in_progress.add(key)
        s = self.compile_fn(self.defaults[name])
        self.in_progress.discard(key)
        self.sigs[key] = s
        return s

    def instance(self, owner):
        if owner in self.instances:
            return self.instances[owner]
        if owner not in COMMANDS:
            raise ShapeError("%s does not implement %s" % (owner, TRAIT))
        fs = []
        for f in self.required:
            s = self.sig((owner, TRAIT, f.name))
            want = self.dict_field(f)
            got = ("ops",) if s.is_ops else s.ret
            if s.partial or (s.fallible and not s.is_ops) or got != want[1] or [p for p in s.params[1:] if not p[2]]:
                raise ShapeError("<%s as %s>::%s does not have the plain type the trait record needs" % (owner, TRAIT, f.name))
            fs.append("%s_%s := %s" % (TRAIT, f.name, s.coq))
        name = "src_%s_impl_%s" % (owner, TRAIT)
        self.out.append("Definition %s : src_%s src_%s :=\n  {| %s |}." % (name, TRAIT, owner, ";\n     ".join(fs)))
        self.instances[owner] = name
        return name

    def dict_field(self, f):
        """required trait method -> (name, result type | ('ops',))"""
        params, ret, fallible, is_ops, generic, has_self = self.header(f)
        if not has_self or [p for p in params[1:] if not p[2]]:
            raise ShapeError("%s::%s: a required method takes `&self` only" % (TRAIT, f.name))
        if is_ops:
            return (f.name, ("ops",))
        if fallible:
            raise ShapeError("%s::%s returns a Result" % (TRAIT, f.name))
        return (f.name, ret)

    # ---- expressions ----------------------------------------------------------------------------------------
    def coerce(self, v, ty, what):
        """a value used where `ty` is expected"""
        if v.ty == LIT:
            if ty[0] != "int":
                raise ShapeError("%s: integer literal where %s is expected" % (what, show(ty)))
            if not 0 <= v.lit < 2 ** BITS[ty[1]]:
                raise ShapeError("%s: literal %d does not fit %s" % (what, v.lit, ty[1]))
            return Val(v.binds, v.term, ty)
        if v.ty != ty:
            raise ShapeError("%s: %s where %s is expected" % (what, show(v.ty), show(ty)))
        return v

    def expr(self, e, cx, want=None):
        k = e[0]
        if k in ("paren", "ref", "refmut"):
            return self.expr(e[1], cx, want)
        if k == "lit":
            if e[2]:
                if e[2] not in BITS:
                    raise ShapeError("literal of type %s" % e[2])
                if not 0 <= e[1] < 2 ** BITS[e[2]]:
                    raise ShapeError("literal %d does not fit %s" % (e[1], e[2]))
                return Val([], str(e[1]), INT(e[2]))
            return Val([], str(e[1]), LIT, e[1])
        if k == "unit":
            return Val([], "tt", UNIT)
        if k == "path":
            return self.path(e[1], cx)
        if k == "as":
            v = self.expr(e[1], cx)
            w = BITS[e[2]]
            if v.ty == LIT:
                return Val(v.binds, str(v.lit % 2 ** w), INT(e[2]))
            if v.ty[0] != "int":
                raise ShapeError("cast of %s" % show(v.ty))
            if v.ty[1] == e[2]:
                return v
            return Val(v.binds, "(r_cast %d %s)" % (w, v.term), INT(e[2]))
        if k == "bin":
            return self.binop(e, cx, want)
        if k == "field":
            v = self.expr(e[1], cx)
            if v.ty[0] != "struct":
                raise ShapeError("field `%s` of %s" % (e[2], show(v.ty)))
            for fname, fty in self.fields[v.ty[1]]:
                if fname == e[2]:
                    if v.ty[2] is not None:
                        fty = subst(fty, v.ty[2])
                    return Val(v.binds, "(%s_%s %s)" % (v.ty[1], fname, v.term), fty)
            raise ShapeError("%s has no field `%s`" % (v.ty[1], e[2]))
        if k == "try":
            v = self.expr(e[1], cx, want)
            if v.ty[0] != "result":
                raise ShapeError("`?` on %s" % show(v.ty))
            if not cx["fallible"]:
                raise ShapeError("`?` in a function that does not return a Result")
            x = self.fresh()
            return Val(v.binds + [("bind", x, v.term)], x, v.ty[1])
        if k == "mcall":
            return self.mcall(e, cx, want)
        if k == "call":
            return self.call(e[1], e[2], cx, want)
        if k == "struct":
            return self.struct_lit(e, cx)
        if k == "match":
            return self.match(e, cx, want)
        raise ShapeError("expression kind `%s`" % k)

    def path(self, p, cx):
        if len(p) == 1:
            if p[0] in cx["env"]:
                term, ty = cx["env"][p[0]]
                return Val([], term, ty)
            raise ShapeError("unknown name `%s` in %s" % (p[0], cx["label"]))
        if len(p) == 2:
            owner = cx["owner"] if p[0] == "Self" else p[0]
            if owner in ENUMS and p[1] in self.src.enums[owner]:
                return Val([], "%s_%s" % (owner, p[1]), ("enum", owner))
            if (owner, p[1]) in self.src.consts:
                return self.const(owner, p[1])
        raise ShapeError("path `%s` in %s" % ("::".join(p), cx["label"]))

    def const(self, owner, name):
        key = ("const", owner, name)
        if key not in self.sigs:
            ty_toks, (s, e) = self.src.consts[(owner, name)]
            ty = parse_type(ty_toks, None, False)
            p = Parser(self.src.toks, s, e, STRUCTS)
            ex = p.expr()
            if not p.t.eof():
                raise ShapeError("constant %s::%s" % (owner, name))
            cx = dict(env={}, owner=owner, fallible=False, label="const %s::%s" % (owner, name), generic=False, self_ty=None)
            v = self.expr(ex, cx, ty)
            if v.ty != LIT or ty[0] != "int":
                raise ShapeError("constant %s::%s is not an integer constant expression" % (owner, name))
            self.coerce(v, ty, "constant %s::%s" % (owner, name))
            coq = "src_%s_%s" % (owner, name)
            self.out.append("Definition %s : Z := %d." % (coq, v.lit))
            self.names.append(coq)
            self.sigs[key] = (coq, ty)
        coq, ty = self.sigs[key]
        return Val([], coq, ty)

    def binop(self, e, cx, want):
        op = e[1]
        a = self.expr(e[2], cx, want)
        b = self.expr(e[3], cx, want)
        if op not in ("+", "-", "*", "<<"):
            raise ShapeError("operator `%s` in %s" % (op, cx["label"]))
        if a.ty == LIT and b.ty == LIT:
            v = {"+": a.lit + b.lit, "-": a.lit - b.lit, "*": a.lit * b.lit,
                 "<<": a.lit << b.lit if 0 <= b.lit < 64 else -1}[op]
            if v < 0 or v >= 2 ** 64:
                raise ShapeError("constant expression out of range in %s" % cx["label"])
            return Val(a.binds + b.binds, str(v), LIT, v)
        if op == "<<":
            raise ShapeError("shift of a non-constant in %s" % cx["label"])
        if a.ty == LIT:
            a = self.coerce(a, b.ty, "operand of `%s`" % op)
        else:
            b = self.coerce(b, a.ty, "operand of `%s`" % op)
        if a.ty[0] != "int" or a.ty != b.ty:
            raise ShapeError("operands of `%s` have types %s and %s in %s" % (op, show(a.ty), show(b.ty), cx["label"]))
        x = self.fresh()
        f = {"+": "r_add", "-": "r_sub", "*": "r_mul"}[op]
        return Val(a.binds + b.binds + [("bind", x, "%s %d %s %s" % (f, BITS[a.ty[1]], a.term, b.term))], x, a.ty)

    def error_class(self, e):
        """Error::InvalidPacket(<anything>.into()) -> the error class"""
        if e[0] == "call" and "::".join(e[1]) in ERRORS and len(e[2]) == 1:
            return ERRORS["::".join(e[1])]
        raise ShapeError("error constructor")

    def closure(self, e, nparams):
        if e[0] != "closure" or len(e[1]) != nparams:
            raise ShapeError("closure with %d parameters expected" % nparams)
        return e[1], e[2]

    def mcall(self, e, cx, want):
        recv, name, args = e[1], e[2], e[3]
        # len.try_into().map_err(|_| Error::InvalidPacket(..))
        if name == "map_err" and recv[0] == "mcall" and recv[2] == "try_into" and not recv[3] and len(args) == 1:
            v = self.expr(recv[1], cx)
            ps, body = self.closure(args[0], 1)
            if ps != ["_"]:
                raise ShapeError("map_err closure")
            err = self.error_class(body)
            if want is None or want[0] != "result" or want[1][0] != "int" or v.ty[0] != "int":
                raise ShapeError("try_into() in %s: target type unknown" % cx["label"])
            if BITS[want[1][1]] > BITS[v.ty[1]]:
                raise ShapeError("try_into() to a wider type")
            return Val(v.binds, "(r_try_into %d %s %s)" % (BITS[want[1][1]], v.term, err), want)
        # x.checked_add(y).ok_or_else(|| Error::InvalidPacket(..))
        if name == "ok_or_else" and len(args) == 1:
            v = self.expr(recv, cx)
            if v.ty[0] != "option":
                raise ShapeError("ok_or_else on %s" % show(v.ty))
            ps, body = self.closure(args[0], 0)
            return Val(v.binds, "(r_ok_or %s %s)" % (v.term, self.error_class(body)), ("result", v.ty[1]))
        v = self.expr(recv, cx)
        if v.ty[0] == "int" and name == "checked_add" and len(args) == 1:
            b = self.coerce(self.expr(args[0], cx, v.ty), v.ty, "argument of checked_add")
            return Val(v.binds + b.binds, "(r_checked_add %d %s %s)" % (BITS[v.ty[1]], v.term, b.term), ("option", v.ty))
        if v.ty[0] == "list":
            if name == "len" and not args:
                return Val(v.binds, "(zlen %s)" % v.term, INT("usize"))
            if name == "iter" and not args:
                return v
            if name == "fold" and len(args) == 2:
                return self.fold(v, args[0], args[1], cx)
            raise ShapeError("method `%s` of a slice / Vec in %s" % (name, cx["label"]))
        if v.ty == SINK:
            raise ShapeError("use of the sink in a value position in %s" % cx["label"])
        s, dict_term, recv_ty = self.resolve_method(v.ty, name, cx)
        if s == "field":
            # required trait method on the type variable
            fname, fty = dict_term
            if args:
                raise ShapeError("arguments to %s::%s" % (TRAIT, name))
            if fty == ("ops",):
                raise ShapeError("serializer %s used as a value" % name)
            return Val(v.binds, "(%s_%s D %s)" % (TRAIT, fname, v.term), fty)
        return self.apply(s, dict_term, [v] + [None] * len(args), args, cx, recv_ty)

    def resolve_method(self, ty, name, cx):
        """-> (Sig | 'field', dictionary term | field info, actual type of the type variable)"""
        if ty == TVAR:
            if not cx["generic"]:
                raise ShapeError("type variable in a non-generic function")
            for f in self.required:
                if f.name == name:
                    return "field", self.dict_field(f), TVAR
            if name in self.defaults:
                return self.default_sig(name), "D", TVAR
            raise ShapeError("%s has no method `%s`" % (TRAIT, name))
        if ty[0] in ("struct", "enum"):
            owner = ty[1]
            f = self.src.fns.get((owner, None, name))
            if f is not None and any([x for x in p if not x.startswith("'")] in (["self"], ["&", "self"]) for p in f.params[:1]):
                s = self.sig((owner, None, name))
                d = None
                if s.generic:
                    d = self.dict_for(ty[2], cx)
                return s, d, ty[2] if ty[0] == "struct" else None
            if owner in COMMANDS:
                if (owner, TRAIT, name) in self.src.fns:
                    return self.sig((owner, TRAIT, name)), None, None
                if name in self.defaults:
                    return self.default_sig(name), self.instance(owner), ty
            raise ShapeError("%s has no method `%s`" % (owner, name))
        raise ShapeError("method `%s` on %s in %s" % (name, show(ty), cx["label"]))

    def dict_for(self, actual, cx):
        if actual == TVAR:
            if not cx["generic"]:
                raise ShapeError("no %s dictionary in scope in %s" % (TRAIT, cx["label"]))
            return "D"
        if actual is not None and actual[0] == "struct" and actual[2] is None:
            return self.instance(actual[1])
        raise ShapeError("no %s implementation for %r" % (TRAIT, actual))

    def apply(self, s, dict_term, pre, arg_exprs, cx, actual):
        """call of a translated function; pre: already compiled leading arguments (the receiver)"""
        if s.is_ops:
            raise ShapeError("serializer %s called in a value position" % s.coq)
        params = s.params
        given = [x for x in pre if x is not None]
        rest = params[len(given):]
        if len(rest) != len(arg_exprs):
            raise ShapeError("arity of %s" % s.coq)
        vals = list(given)
        for (pn, pty, _), ae in zip(rest, arg_exprs):
            vals.append(self.expr(ae, cx, pty))
        # instantiate the type variable
        if s.generic and actual is None:
            for (pn, pty, _), v in zip(params, vals):
                if pty == TVAR:
                    actual = v.ty
                    break
                if pty[0] == "struct" and pty[2] == TVAR:
                    actual = v.ty[2] if v.ty[0] == "struct" else None
                    break
        if s.generic:
            if actual is None:
                actual = TVAR if cx["generic"] else None
            if dict_term is None:
                dict_term = self.dict_for(actual, cx)
        binds, terms = [], []
        for (pn, pty, _), v in zip(params, vals):
            pt = subst(pty, actual) if s.generic else pty
            v = self.coerce(v, pt, "argument `%s` of %s" % (pn, s.coq))
            binds += v.binds
            terms.append(v.term)
        code = "(%s%s%s)" % (s.coq, " " + dict_term if s.generic else "", "".join(" " + x for x in terms))
        if not s.generic and not terms:
            code = s.coq
        ret = subst(s.ret, actual) if s.generic else s.ret
        if s.fallible:
            return Val(binds, code, ("result", ret))
        if s.partial:
            x = self.fresh()
            return Val(binds + [("bind", x, code[1:-1] if code.startswith("(") else code)], x, ret)
        return Val(binds, code, ret)

    def call(self, p, args, cx, want):
        name = "::".join(p)
        if name == "Ok" and len(args) == 1:
            w = want[1] if want is not None and want[0] == "result" else None
            v = self.expr(args[0], cx, w)
            if w is not None:
                v = self.coerce(v, w, "argument of Ok")
            if v.ty == LIT:
                raise ShapeError("Ok of an untyped literal")
            return Val(v.binds, "(Ok %s)" % v.term, ("result", v.ty))
        if name == "std::cmp::max" and len(args) == 2:
            a = self.expr(args[0], cx)
            b = self.expr(args[1], cx)
            if a.ty == LIT and b.ty == LIT:
                raise ShapeError("max of two literals")
            if a.ty == LIT:
                a = self.coerce(a, b.ty, "argument of max")
            else:
                b = self.coerce(b, a.ty, "argument of max")
            if a.ty[0] != "int":
                raise ShapeError("max of %s" % show(a.ty))
            return Val(a.binds + b.binds, "(Z.max %s %s)" % (a.term, b.term), a.ty)
        if len(p) == 1:
            if (None, None, p[0]) in self.src.fns:
                return self.apply(self.sig((None, None, p[0])), None, [], args, cx, None)
            raise ShapeError("call of `%s` in %s" % (name, cx["label"]))
        if len(p) == 2:
            owner = cx["owner"] if p[0] == "Self" else p[0]
            f = self.src.fns.get((owner, None, p[1]))
            if f is None and owner in COMMANDS:
                f = self.src.fns.get((owner, TRAIT, p[1]))
            if f is None:
                raise ShapeError("call of `%s` in %s" % (name, cx["label"]))
            s = self.sig(f.key)
            actual = None
            if s.generic and p[0] == "Self" and cx["generic"]:
                actual = TVAR
            return self.apply(s, None, [], args, cx, actual)
        raise ShapeError("call of `%s` in %s" % (name, cx["label"]))

    def struct_lit(self, e, cx):
        name = cx["owner"] if e[1] == "Self" else e[1]
        if name not in STRUCTS:
            raise ShapeError("struct literal of %s" % name)
        decl = self.fields[name]
        given = dict()
        for fname, fe in e[2]:
            if fname in given:
                raise ShapeError("field %s given twice" % fname)
            given[fname] = fe
        if sorted(given) != sorted(f for f, _ in decl):
            raise ShapeError("struct literal of %s: fields %r" % (name, sorted(given)))
        binds, parts, arg = [], [], None
        for fname, fe in e[2]:          # evaluation order = order of the literal
            fty = dict(decl)[fname]
            v = self.expr(fe, cx, fty)
            if fty == TVAR:
                arg = v.ty
            else:
                v = self.coerce(v, fty, "field %s.%s" % (name, fname))
            binds += v.binds
            parts.append("%s_%s := %s" % (name, fname, v.term))
        return Val(binds, "{| %s |}" % "; ".join(parts), ("struct", name, arg if name == "CommandPacket" else None))

    def match(self, e, cx, want):
        s = self.expr(e[1], cx)
        if s.ty[0] != "enum" or s.binds:
            raise ShapeError("match on %s in %s" % (show(s.ty), cx["label"]))
        vs = self.src.enums[s.ty[1]]
        arms, ty, lit_arms = [], None, []
        for p, b in e[2]:
            if len(p) != 2 or (p[0] != s.ty[1] and not (p[0] == "Self" and cx["owner"] == s.ty[1])) or p[1] not in vs:
                raise ShapeError("match pattern `%s`" % "::".join(p))
            v = self.expr(b, cx, want)
            if v.binds:
                raise ShapeError("match arm that can fail in %s" % cx["label"])
            arms.append((p[1], v))
        if sorted(a for a, _ in arms) != sorted(vs):
            raise ShapeError("match on %s: arms %r" % (s.ty[1], [a for a, _ in arms]))
        tys = {v.ty for _, v in arms if v.ty != LIT}
        if len(tys) > 1:
            raise ShapeError("match arms of different types")
        ty = tys.pop() if tys else (want if want is not None and want[0] == "int" else None)
        if ty is None:
            raise ShapeError("type of a match of literals unknown in %s" % cx["label"])
        arms = [(a, self.coerce(v, ty, "match arm")) for a, v in arms]
        code = "match %s with %s end" % (s.term, " ".join("| %s_%s => %s" % (s.ty[1], a, v.term) for a, v in arms))
        return Val([], "(%s)" % code, ty)

    def fold(self, lst, init, clos, cx):
        ps, body = self.closure(clos, 2)
        acc, var = ps
        iv = self.expr(init, cx)
        cands = [iv.ty] if iv.ty != LIT else [INT(t) for t in ("u8", "u16", "u32", "u64", "usize")]
        good = []
        for ty in cands:
            save, saved_out, saved_names = self.n, len(self.out), len(self.names)
            env = dict(cx["env"])
            a, x = cname(acc), cname(var)
            env[acc] = (a, ty)
            env[var] = (x, lst.ty[1])
            cx2 = dict(cx, env=env)
            try:
                b = self.coerce(self.expr(body, cx2, ty), ty, "fold closure")
                good.append((ty, a, x, b))
            except ShapeError as ex:
                last = ex
                self.n = save
        if len(good) != 1:
            if not good:
                raise last
            raise ShapeError("type of the fold accumulator is ambiguous in %s" % cx["label"])
        ty, a, x, b = good[0]
        i0 = self.coerce(iv, ty, "fold initial value")
        if b.binds:
            code = "src_foldM (fun %s %s => %s) %s %s" % (a, x, render(b.binds, "Ok %s" % b.term), lst.term, i0.term)
            r = self.fresh()
            return Val(lst.binds + i0.binds + [("bind", r, code)], r, ty)
        return Val(lst.binds + i0.binds, "(fold_left (fun %s %s => %s) %s %s)" % (a, x, b.term, lst.term, i0.term), ty)

    # ---- statements of a value function -----------------------------------------------------------------------
    def stmts(self, body, cx, ret, fallible):
        """-> (binds, tail Val)"""
        binds = []
        env = cx["env"]
        muts = cx.setdefault("muts", set())
        for st in body:
            if st[0] == "let":
                _, name, mut, ty_toks, ex = st
                ty = parse_type(ty_toks, cx["self_ty"], cx["generic"]) if ty_toks else None
                v = self.expr(ex, cx, ty)
                if ty is not None:
                    v = self.coerce(v, ty, "let %s" % name)
                if v.ty == LIT:
                    raise ShapeError("type of `let %s` unknown in %s" % (name, cx["label"]))
                if v.ty[0] in ("result", "option", "sink"):
                    raise ShapeError("`let %s` binds a %s in %s" % (name, show(v.ty), cx["label"]))
                n = cname(name)
                binds += named(v, n)
                env[name] = (n, v.ty)
                if mut:
                    muts.add(name)
                else:
                    muts.discard(name)
            elif st[0] == "assign":
                _, name, ex = st
                if name not in env or name not in muts:
                    raise ShapeError("assignment to `%s` in %s" % (name, cx["label"]))
                ty = env[name][1]
                v = self.coerce(self.expr(ex, cx, ty), ty, "assignment to %s" % name)
                binds += named(v, env[name][0])
            elif st[0] == "for":
                binds += self.for_loop(st, cx)
            elif st[0] == "tail":
                w = ("result", ret) if fallible else ret
                v = self.expr(st[1], cx, w)
                if fallible:
                    if v.ty[0] != "result":
                        raise ShapeError("%s ends in a %s" % (cx["label"], show(v.ty)))
                    if v.ty[1] != ret:
                        raise ShapeError("%s: value of type %s, declared %s" % (cx["label"], show(v.ty[1]), show(ret)))
                    return binds + v.binds, v
                v = self.coerce(v, ret, "value of %s" % cx["label"])
                return binds + v.binds, v
            else:
                raise ShapeError("statement in %s" % cx["label"])
        raise ShapeError("%s has no tail expression" % cx["label"])

    def for_loop(self, st, cx):
        _, var, it, body = st
        lst = self.expr(it, cx)
        if lst.ty[0] != "list":
            raise ShapeError("for over %s in %s" % (show(lst.ty), cx["label"]))
        assigned = []
        for b in body:
            if b[0] == "assign":
                if b[1] not in assigned:
                    assigned.append(b[1])
            elif b[0] != "let":
                raise ShapeError("statement in a for loop of %s" % cx["label"])
        if not assigned:
            raise ShapeError("for loop without effect in %s" % cx["label"])
        for a in assigned:
            if a not in cx["env"] or a not in cx.get("muts", ()):
                raise ShapeError("loop assigns `%s` in %s" % (a, cx["label"]))
        env = dict(cx["env"])
        x = cname(var)
        env[var] = (x, lst.ty[1])
        cx2 = dict(cx, env=env, muts=set(cx.get("muts", ())))
        state = [cx["env"][a][0] for a in assigned]
        pat = state[0] if len(state) == 1 else "'(%s)" % ", ".join(state)
        tup = state[0] if len(state) == 1 else "(%s)" % ", ".join(state)
        bb = []
        for b in body:
            if b[0] == "let":
                bs, _ = [], None
                sub = self.stmts([b, ("tail", ("unit",))], dict(cx2, env=env), UNIT, False)
                bb += sub[0]
            else:
                ty = env[b[1]][1]
                v = self.coerce(self.expr(b[2], cx2, ty), ty, "assignment to %s" % b[1])
                bb += named(v, env[b[1]][0])
        if not any(k == "bind" for k, _, _ in bb):
            code = "Ok (fold_left (fun %s %s => %s) %s %s)" % (pat, x, render_pure(bb, tup), lst.term, tup)
        else:
            code = "src_foldM (fun %s %s => %s) %s %s" % (pat, x, render(bb, "Ok %s" % tup), lst.term, tup)
        return lst.binds + [("bind", pat, code)]

    # ---- serializers ---------------------------------------------------------------------------------------------
    def ops_block(self, body, cx, top):
        """-> Gallina term of type list wop"""
        parts, lets = [], []
        cur = []

        def flush():
            if cur:
                parts.append("[%s]" % "; ".join(cur))
                del cur[:]
        env = cx["env"]
        done = False
        for st in body:
            if done:
                raise ShapeError("statements after the value of %s" % cx["label"])
            if st[0] == "let":
                _, name, mut, ty_toks, ex = st
                if mut:
                    raise ShapeError("mutable local in serializer %s" % cx["label"])
                ty = parse_type(ty_toks, cx["self_ty"], cx["generic"]) if ty_toks else None
                v = self.expr(ex, cx, ty)
                if ty is not None:
                    v = self.coerce(v, ty, "let %s" % name)
                if v.binds or v.ty == LIT or v.ty[0] in ("result", "option", "sink"):
                    raise ShapeError("`let %s` in serializer %s" % (name, cx["label"]))
                if parts or cur:
                    raise ShapeError("`let %s` after a write in serializer %s (write the lets first)" % (name, cx["label"]))
                n = cname(name)
                lets.append((n, v.term))
                env[name] = (n, v.ty)
            elif st[0] == "expr":
                ex = st[1]
                if ex[0] != "try" or ex[1][0] != "mcall":
                    raise ShapeError("statement in serializer %s (every write must be followed by `?`)" % cx["label"])
                _, recv, name, args = ex[1]
                if recv == ("path", [cx["sink"]]) and name == "write_bytes_le" and len(args) == 1:
                    v = self.expr(args[0], cx)
                    if v.binds or v.ty[0] != "int":
                        raise ShapeError("write_bytes_le of %s in %s (a literal needs a type suffix)" % (show(v.ty), cx["label"]))
                    if v.ty[1] == "usize":
                        raise ShapeError("write_bytes_le of a usize in %s" % cx["label"])
                    cur.append("W_le %d %s" % (BITS[v.ty[1]] // 8, v.term))
                elif recv == ("path", [cx["sink"]]) and name == "write_all" and len(args) == 1:
                    v = self.expr(args[0], cx)
                    if v.binds or v.ty != ("list", INT("u8")):
                        raise ShapeError("write_all of %s in %s" % (show(v.ty), cx["label"]))
                    cur.append("W_all %s" % v.term)
                elif name == "serialize" and args in ([("refmut", ("path", [cx["sink"]]))], [("path", [cx["sink"]])]):
                    v = self.expr(recv, cx)
                    if v.binds:
                        raise ShapeError("receiver of serialize in %s" % cx["label"])
                    flush()
                    parts.append(self.ops_call(v, cx))
                else:
                    raise ShapeError("statement `%s.%s(..)` in serializer %s" % (recv[1] if recv[0] == "path" else "..", name, cx["label"]))
            elif st[0] == "for":
                _, var, it, fb = st
                lst = self.expr(it, cx)
                if lst.ty[0] != "list" or lst.binds:
                    raise ShapeError("for over %s in %s" % (show(lst.ty), cx["label"]))
                x = cname(var)
                env2 = dict(env)
                env2[var] = (x, lst.ty[1])
                inner = self.ops_block(fb, dict(cx, env=env2), False)
                flush()
                parts.append("flat_map (fun %s => %s) %s" % (x, inner, lst.term))
            elif st[0] == "tail":
                if not top or st[1] != ("call", ["Ok"], [("unit",)]):
                    raise ShapeError("value of serializer %s is not Ok(())" % cx["label"])
                done = True
            else:
                raise ShapeError("statement in serializer %s" % cx["label"])
        if top and not done:
            raise ShapeError("serializer %s does not end in Ok(())" % cx["label"])
        flush()
        code = " ++ ".join(parts) if parts else "[]"
        for n, term in reversed(lets):
            code = "let %s := %s in %s" % (n, term, code)
        return code if len(parts) <= 1 and not lets else "(%s)" % code

    def ops_call(self, v, cx):
        if v.ty == TVAR:
            for f in self.required:
                if f.name == "serialize" and self.dict_field(f)[1] == ("ops",):
                    return "%s_serialize D %s" % (TRAIT, v.term)
            raise ShapeError("%s::serialize is not a serializer" % TRAIT)
        if v.ty[0] in ("struct", "enum"):
            owner = v.ty[1]
            key = (owner, None, "serialize")
            if key not in self.src.fns:
                key = (owner, TRAIT, "serialize")
                if key not in self.src.fns:
                    raise ShapeError("%s has no serialize" % owner)
            elif (owner, TRAIT, "serialize") in self.src.fns:
                raise ShapeError("%s has two serialize methods" % owner)
            s = self.sig(key)
            if not s.is_ops or len(s.params) != 2 or not s.has_self:
                raise ShapeError("%s is not a serializer of `self`" % s.coq)
            d = ""
            if s.generic:
                d = " " + self.dict_for(v.ty[2], cx)
            return "%s%s %s" % (s.coq, d, v.term)
        raise ShapeError("serialize of %s" % show(v.ty))

    # ---- functions ---------------------------------------------------------------------------------------------
    def compile_fn(self, f):
        params, ret, fallible, is_ops, generic, has_self = self.header(f)
        if f.body is None:
            raise ShapeError("%s has no body" % f.label())
        coq = self.coq_name(f)
        sty = self.self_type(f)
        env = {}
        plist = []
        sink = None
        for pn, pty, is_sink in params:
            if is_sink:
                sink = pn
                continue
            n = cname(pn)
            env[pn] = (n, pty)
            plist.append("(%s : %s)" % (n, coq_type(pty)))
        owner = f.owner
        cx = dict(env=env, owner=owner, fallible=fallible, label=f.label(), generic=generic, self_ty=sty, sink=sink)
        p = Parser(self.src.toks, f.body[0], f.body[1], STRUCTS)
        body = p.block_body()
        if not p.t.eof():
            raise ShapeError("trailing tokens in %s near `%s`" % (f.label(), p.t.near()))
        gen = "{T : Type} (D : src_%s T) " % TRAIT if generic else ""
        vparams = [(pn, pty, False) for pn, pty, s_ in params if not s_]
        if is_ops:
            code = self.ops_block(body, cx, True)
            self.out.append("Definition %s : list wop :=\n  %s." % (" ".join(x for x in [coq, gen.strip(), " ".join(plist)] if x), code))
            self.names.append(coq)
            return Sig(coq, vparams + [("buf", SINK, True)], UNIT, True, False, True, generic, has_self)
        binds, v = self.stmts(body, cx, ret, fallible)
        partial = False
        if fallible:
            code = render(binds, v.term)
            rty = "outcome %s" % coq_type(ret)
        elif any(k == "bind" for k, _, _ in binds):
            partial = True
            code = render(binds, "Ok %s" % v.term)
            rty = "outcome %s" % coq_type(ret)
        else:
            code = render_pure(binds, v.term)
            rty = coq_type(ret)
        self.out.append("Definition %s : %s :=\n  %s." % (" ".join(x for x in [coq, gen.strip(), " ".join(plist)] if x), rty, code))
        self.names.append(coq)
        return Sig(coq, vparams, ret, fallible, partial, False, generic, has_self)


def named(v, n):
    """the bindings of `let n = v`: a temporary that holds the value is renamed instead of copied"""
    if v.binds and v.binds[-1][0] == "bind" and v.binds[-1][1] == v.term and re.fullmatch(r"t\d+_", v.term):
        return v.binds[:-1] + [("bind", n, v.binds[-1][2])]
    return v.binds + [("let", n, v.term)]


def render(binds, tail):
    s = tail
    for k, n, c in reversed(binds):
        if k == "bind":
            s = "let? %s := %s in\n  %s" % (n, c, s)
        else:
            s = "let %s := %s in\n  %s" % (n, c, s)
    return s


def render_pure(binds, tail):
    if any(k == "bind" for k, _, _ in binds):
        raise ShapeError("internal: monadic binding in a pure context")
    return render(binds, tail)


# -------------------------------------------------------------------------------------------------- driver --
def translate(repo):
    path = os.path.join(repo, "device", "src", "u3v", "protocol", "cmd.rs")
    text = strip_comments(open(path).read())
    text = text.split("#[cfg(test)]")[0]
    src = Source(text)
    discipline(src, repo)
    bytes_io_pin(repo)
    c = Compiler(src)
    for key in WANT:
        if key not in src.fns:
            raise ShapeError("function %s not found" % "::".join(x for x in key if x))
    # types
    ty = []
    for e in ENUMS:
        ty.append("Inductive src_%s := %s." % (e, " | ".join("%s_%s" % (e, v) for v in src.enums[e])))
    for s in STRUCTS:
        fs = "; ".join("%s_%s : %s" % (s, f, coq_type(t)) for f, t in c.fields[s])
        if s == "CommandPacket":
            ty.append("Record src_%s (T : Type) := { %s }." % (s, fs))
            for f, _ in c.fields[s]:
                ty.append("Arguments %s_%s {T} _." % (s, f))
        else:
            ty.append("Record src_%s := { %s }." % (s, fs))
    dfs = []
    for f in c.required:
        name, fty = c.dict_field(f)
        dfs.append("%s_%s : T -> %s" % (TRAIT, name, "list wop" if fty == ("ops",) else coq_type(fty)))
    ty.append("Record src_%s (T : Type) := { %s }." % (TRAIT, ";\n  ".join(dfs)))
    for f in c.required:
        ty.append("Arguments %s_%s {T} _ _." % (TRAIT, f.name))
    # functions, dictionaries
    for key in WANT:
        c.sig(key)
    for name in c.defaults:
        c.default_sig(name)
    for o in COMMANDS:
        c.instance(o)
        for f in c.required:
            c.sig((o, TRAIT, f.name))
    for (owner, name) in sorted(src.consts, key=lambda k: (str(k[0]), k[1])):
        if owner == "CommandPacket":
            c.const(owner, name)
    return ty, c


def render_file(ty, c):
    o = ["(* GENERATED by tools/translate_serialize.py from device/src/u3v/protocol/cmd.rs (structs, enums, the trait",
         "   CommandScd and its four implementations, constructors, length functions, serializers) - do not edit.",
         "   A serializer is the list of write operations it performs (model/SerOps.v); integer arithmetic has the",
         "   debug-build semantics of lib/RustInt.v; code generic in `T: CommandScd` takes the trait record D. *)",
         "From Cam Require Import Outcome RustInt Bytes SerOps.", ""]
    o += ty
    o.append("")
    for d in c.out:
        o.append(d)
        o.append("")
    o.append("#[global] Hint Unfold %s : src." % " ".join(c.names + list(c.instances.values())))
    o.append("")
    return "\n".join(o)


def regenerate(repo=None):
    repo = repo or os.environ.get("VERIF_REPO", "/repo")
    ty, c = translate(repo)
    text = render_file(ty, c)
    old = open(OUT).read() if os.path.exists(OUT) else None
    if old != text:
        with open(OUT, "w") as f:
            f.write(text)
        return True
    return False


if __name__ == "__main__":
    try:
        ch = regenerate(sys.argv[1] if len(sys.argv) > 1 else None)
    except (ShapeError, OSError) as e:
        print("translate_serialize: ShapeError: %s" % e)
        sys.exit(3)
    print("gen/SerializeSrc.v", "rewritten" if ch else "unchanged")
