#!/bin/sh
# usage: tools/confirmseed.sh <seed_dir> <id> <wt> "<place-cmds>" "<demo-cmd>"
# Re-confirms a seeded change in a scratch worktree <wt> of /repo (created here from /repo's HEAD unless it exists;
# an agent's worktree with a warm target/ may be reused: it is reset to HEAD first):
#   1. <place-cmds> (shell, cwd = worktree, $S = seed dir) installs the demonstration
#   2. <demo-cmd> on the unchanged tree must succeed
#   3. patch.diff is applied (git apply); <demo-cmd> must fail
#   4. the existing suite must pass with the change (demonstration removed first)
# Prints one JSON line (also appended to /var/tmp/seed-confirm.jsonl).  The worktree is left clean (HEAD).
S="$(realpath "$1")"; ID="$2"; WT="$3"; PLACE="$4"; DEMO="$5"
export S CARGO_NET_OFFLINE=true
if [ ! -d "$WT" ]; then git -C /repo worktree add -q --detach "$WT" HEAD || exit 3; fi
export CARGO_TARGET_DIR="$WT/target"
cd "$WT" || exit 3
git checkout -q -- . ; git clean -fdq -e target
BASE=$(git rev-parse --short HEAD)
L=/var/tmp/confirm-$ID; mkdir -p "$L"
sh -c "$PLACE" > "$L/place.log" 2>&1 || { echo "{\"id\":\"$ID\",\"error\":\"place failed\"}"; exit 3; }
if timeout 1500 sh -c "$DEMO" > "$L/demo_without.log" 2>&1; then W0=pass; else W0=fail; fi
git stash list >/dev/null 2>&1
# apply the patch with the demonstration in place
if git apply "$S/patch.diff" 2> "$L/apply.log"; then AP=ok; else AP=failed; fi
if timeout 1500 sh -c "$DEMO" > "$L/demo_with.log" 2>&1; then W1=pass; else W1=fail; fi
# suite with the change, without the demonstration
git apply -R "$S/patch.diff" 2>/dev/null; git checkout -q -- . ; git clean -fdq -e target
git apply "$S/patch.diff" 2>> "$L/apply.log"
timeout 3000 cargo test --workspace --no-fail-fast --offline -j8 > "$L/suite_with.log" 2>&1; SRC=$?
NL=$(grep -c "^test result:" "$L/suite_with.log"); NF=$(grep "^test result:" "$L/suite_with.log" | grep -vc " 0 failed")
if [ "$SRC" = 0 ] && [ "$NF" = 0 ] && [ "$NL" -gt 5 ]; then SU=ok; else SU=FAILED; fi
git checkout -q -- . ; git clean -fdq -e target
J="{\"id\":\"$ID\",\"base\":\"$BASE\",\"apply\":\"$AP\",\"demo_without\":\"$W0\",\"demo_with\":\"$W1\",\"suite_with\":\"$SU\",\"suite_lines\":$NL}"
echo "$J"; echo "$J" >> /var/tmp/seed-confirm.jsonl
